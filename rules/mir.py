"""Utilities over dumped MIR bodies: CFG, dominators, value trees, path enumeration."""
import re
from functools import lru_cache


class Body:
    def __init__(self, b):
        self.b = b
        self.id = b['id']
        self.defp = b['def']
        self.blocks = b['blocks']
        self.locals = b['locals']
        self.n = len(self.blocks)
        self.arg_count = b['arg_count']
        self.file = b['file']
        self.line = b['line']
        self._succ = [self._succs(i) for i in range(self.n)]
        self._pred = [[] for _ in range(self.n)]
        for i, ss in enumerate(self._succ):
            for s in ss:
                self._pred[s].append(i)
        self._defs = None
        self._dom = None

    # ---- CFG --------------------------------------------------------------------------
    def _succs(self, i):
        t = self.blocks[i]['term']
        k = t['t']
        if k == 'goto':
            return [t['target']]
        if k == 'switch':
            out = []
            for _, b in t['targets']:
                if b not in out:
                    out.append(b)
            if t['otherwise'] not in out:
                out.append(t['otherwise'])
            return out
        if k in ('call', 'assert', 'drop'):
            return [t['target']] if t.get('target') is not None else []
        return []

    def succ(self, i):
        return self._succ[i]

    def pred(self, i):
        return self._pred[i]

    def reachable(self, start=0, avoid=()):
        seen = set()
        st = [start]
        while st:
            x = st.pop()
            if x in seen or x in avoid:
                continue
            seen.add(x)
            st.extend(self._succ[x])
        return seen

    def return_blocks(self):
        return [i for i in range(self.n) if self.blocks[i]['term']['t'] == 'return']

    def is_unreachable_block(self, i):
        return self.blocks[i]['term']['t'] == 'unreachable' and not self.blocks[i]['stmts']

    def dominators(self):
        """dom[i] = set of blocks dominating i (iterative; bodies are small)."""
        if self._dom is not None:
            return self._dom
        reach = self.reachable(0)
        order = sorted(reach)
        dom = {i: set(order) for i in order}
        dom[0] = {0}
        changed = True
        while changed:
            changed = False
            for i in order:
                if i == 0:
                    continue
                ps = [p for p in self._pred[i] if p in reach]
                if not ps:
                    new = {i}
                else:
                    new = set.intersection(*[dom[p] for p in ps]) | {i}
                if new != dom[i]:
                    dom[i] = new
                    changed = True
        self._dom = dom
        return dom

    def dominated_by_edge(self, src, dst):
        """Blocks reachable only through the CFG edge src->dst (dst and everything it
        dominates, provided dst's only predecessor on the way is src)."""
        # blocks reachable from entry without using edge (src,dst)
        seen = set()
        st = [0]
        while st:
            x = st.pop()
            if x in seen:
                continue
            seen.add(x)
            for s in self._succ[x]:
                if x == src and s == dst:
                    continue
                st.append(s)
        return self.reachable(0) - seen

    def loop_heads(self):
        """targets of back edges (DFS from the entry block)"""
        if getattr(self, '_loop_heads', None) is None:
            heads = set()
            color = {}
            stack = [(0, iter(self._succ[0]))]
            color[0] = 1
            while stack:
                u, it = stack[-1]
                adv = False
                for v in it:
                    c = color.get(v, 0)
                    if c == 1:
                        heads.add(v)
                    elif c == 0:
                        color[v] = 1
                        stack.append((v, iter(self._succ[v])))
                        adv = True
                        break
                if not adv:
                    color[u] = 2
                    stack.pop()
            self._loop_heads = heads
        return self._loop_heads

    def has_loop(self):
        if getattr(self, '_has_loop', None) is not None:
            return self._has_loop
        self._has_loop = self._compute_has_loop()
        return self._has_loop

    def _compute_has_loop(self):
        color = {}
        def dfs(u):
            color[u] = 1
            for v in self._succ[u]:
                c = color.get(v, 0)
                if c == 1:
                    return True
                if c == 0 and dfs(v):
                    return True
            color[u] = 2
            return False
        import sys
        sys.setrecursionlimit(10000)
        return dfs(0)

    # ---- defs -------------------------------------------------------------------------
    def defs(self):
        """local -> list of (bb, idx, kind, payload) for whole-local assignments.
        idx = statement index or -1 for the terminator (call destination)."""
        if self._defs is not None:
            return self._defs
        d = {}
        for bi, blk in enumerate(self.blocks):
            for si, s in enumerate(blk['stmts']):
                if s['s'] == 'assign':
                    p = s['pl']
                    d.setdefault(p['l'], []).append((bi, si, 'assign' if not p['p'] else 'partial', s))
                elif s['s'] == 'setdiscr':
                    d.setdefault(s['pl']['l'], []).append((bi, si, 'partial', s))
            t = blk['term']
            if t['t'] == 'call':
                p = t['dest']
                d.setdefault(p['l'], []).append((bi, -1, 'call' if not p['p'] else 'partial', t))
        self._defs = d
        return d

    def single_def(self, l):
        ds = self.defs().get(l, [])
        # drop-flag pattern: `_n = const false; _n = const true` is not single
        full = [x for x in ds if x[2] in ('assign', 'call')]
        if len(full) == 1 and len(ds) == 1:
            return full[0]
        if len(full) == 1 and self.locals[l]['ty'].startswith(('&', '*')):
            # writes *through* a reference / pointer local change the pointee, not the local: it still has its single definition
            def through_deref(x):
                node = x[3]
                pl = node.get('pl') if x[1] >= 0 else node.get('dest')
                return bool(pl and pl.get('p') and pl['p'][0].get('p') == 'deref')
            if all(through_deref(x) for x in ds if x[2] == 'partial'):
                return full[0]
        return None

    def local_name(self, l):
        return self.locals[l].get('name')

    def local_ty(self, l):
        return self.locals[l]['ty']

    # ---- value trees -------------------------------------------------------------------
    def tree_of_operand(self, o, depth=0, env=None):
        k = o['o']
        if k == 'const':
            return const_tree(o['v'])
        if k in ('copy', 'move'):
            return self.tree_of_place(o['pl'], depth, env)
        return ('rt', str(o.get('v')))

    def tree_of_place(self, p, depth=0, env=None):
        base = self.tree_of_local(p['l'], depth, env)
        for e in p['p']:
            k = e['p']
            if k == 'deref':
                if isinstance(base, tuple) and base and base[0] == 'ref':
                    base = base[1]
                else:
                    base = ('deref', base)
            elif k == 'field':
                # projecting a field out of a known aggregate
                if isinstance(base, tuple) and base[0] == 'agg' and base[1] in ('tuple',) and e['i'] < len(base[3]):
                    base = base[3][e['i']]
                elif isinstance(base, tuple) and base[0] == 'agg' and base[1] == 'adt':
                    names = base[4]
                    if e['name'] in names:
                        base = base[3][names.index(e['name'])]
                    else:
                        base = ('field', base, e['name'])
                else:
                    base = ('field', base, e['name'])
            elif k == 'downcast':
                if isinstance(base, tuple) and base[0] == 'agg' and base[1] == 'adt' and str(base[2]).endswith('::' + str(e['variant'])):
                    pass        # the value is a literal of exactly that variant: its fields are the literal's operands
                else:
                    base = ('as', base, e['variant'])
            elif k == 'index':
                base = ('index', base, self.tree_of_local(e['local'], depth + 1, env))
            elif k == 'cindex':
                base = ('cindex', base, e['offset'], e['from_end'])
            else:
                base = (k, base)
        return base

    def tree_of_local(self, l, depth=0, env=None):
        """env: optional {local: def entry} choosing, for locals assigned in several places, the
        assignment that is live on the path under consideration."""
        if depth > 40:
            return ('local', l)
        if 1 <= l <= self.arg_count:
            return ('arg', l, self.local_name(l))
        sd = self.single_def(l)
        if sd is None and env is not None:
            sd = env.get(l)
        if sd is None:
            return ('local', l, self.local_name(l))
        bi, si, kind, node = sd
        if kind == 'call':
            return self.tree_of_call(node, depth + 1, bi, env)
        return self.tree_of_rvalue(node['rv'], depth + 1, env)

    def tree_of_call(self, t, depth=0, site=None, env=None):
        """('call', instance id, args, block of the call site or None, definition path of the callee)"""
        c = t['callee']
        return ('call', callee_id(c), tuple(self.tree_of_operand(a, depth + 1, env) for a in t['args']), site, callee_def(c) or '')

    def tree_of_rvalue(self, r, depth=0, env=None):
        k = r['r']
        if k == 'use':
            return self.tree_of_operand(r['a'], depth, env)
        if k == 'ref':
            return ('ref', self.tree_of_place(r['pl'], depth, env))
        if k == 'rawptr':
            return ('rawptr', self.tree_of_place(r['pl'], depth, env))
        if k == 'cast':
            return ('cast', r['kind'].split('(')[0], self.tree_of_operand(r['a'], depth, env), r['from'], r['to'])
        if k == 'bin':
            return ('bin', r['op'], self.tree_of_operand(r['a'], depth, env), self.tree_of_operand(r['b'], depth, env), r['ty'])
        if k == 'un':
            return ('un', r['op'], self.tree_of_operand(r['a'], depth, env), r['ty'])
        if k == 'discr':
            return ('discr', self.tree_of_place(r['pl'], depth, env))
        if k == 'agg':
            kind = r['kind']
            ops = tuple(self.tree_of_operand(x, depth, env) for x in r['ops'])
            if kind == 'adt':
                return ('agg', 'adt', r['def'] + '::' + r['variant'] if r.get('is_enum') else r['def'], ops, tuple(r['fields']), r.get('vi'))
            if kind == 'closure':
                return ('agg', 'closure', r['id'], ops, ())
            return ('agg', kind, r.get('ty'), ops, ())
        if k == 'repeat':
            return ('repeat', self.tree_of_operand(r['a'], depth, env), r['n'])
        return (k,)

    # ---- iteration helpers ----------------------------------------------------------------
    def calls(self):
        for bi, blk in enumerate(self.blocks):
            t = blk['term']
            if t['t'] in ('call', 'tailcall'):
                yield bi, t

    def stmts(self):
        for bi, blk in enumerate(self.blocks):
            for si, s in enumerate(blk['stmts']):
                yield bi, si, s

    def term_line(self, bi):
        return self.blocks[bi]['sp']['l']


def const_tree(v):
    c = v['c']
    if c == 'scalar':
        return ('const', v['ty'], scalar_value(v))
    if c == 'str':
        return ('str', v['v'])
    if c == 'fn':
        return ('fn', v['def'])
    if c == 'promoted':
        return ('const', v.get('ty'), c, v.get('of'), v.get('index'))
    if c == 'constitem':
        return ('const', v.get('ty'), c, v.get('def'))
    return ('const', v.get('ty'), c)


def scalar_value(v):
    ty = v['ty']
    bits = v['bits']
    size = v['size']
    if ty in ('i8', 'i16', 'i32', 'i64', 'i128', 'isize'):
        if bits >= 1 << (size * 8 - 1):
            bits -= 1 << (size * 8)
        return bits
    if ty == 'f64':
        import struct
        return struct.unpack('<d', struct.pack('<Q', bits))[0]
    if ty == 'f32':
        import struct
        return struct.unpack('<f', struct.pack('<I', bits))[0]
    if ty == 'bool':
        return bool(bits)
    return bits


def callee_id(c):
    """Best identification of a callee: resolved instance id if available, else def path."""
    if c.get('def') is None:
        return 'indirect'
    res = c.get('res')
    if res and res.get('id'):
        return res['id']
    return c['def']


def callee_def(c):
    """Definition path of the resolved callee (impl method), else of the declared callee."""
    if c.get('def') is None:
        return None
    res = c.get('res')
    if res and res.get('def'):
        return res['def']
    return c['def']


def callee_is(c, trait_suffix, name):
    """Does the call target method `name` of trait `trait_suffix` (declared or resolved impl)?"""
    if c.get('def') is None:
        return False
    if c.get('name') != name:
        return False
    tr = c.get('trait')
    if tr and (tr == trait_suffix or tr.endswith('::' + trait_suffix)):
        return True
    res = c.get('res')
    if res:
        it = res.get('impl_trait') or res.get('trait')
        if it and (it == trait_suffix or it.endswith('::' + trait_suffix)):
            return True
    return False


def strip_generics(s):
    out = []
    depth = 0
    for ch in s:
        if ch == '<':
            depth += 1
        elif ch == '>':
            depth -= 1
        elif depth == 0:
            out.append(ch)
    return ''.join(out)


def self_field_of_place(p, self_local=1):
    """If place is (*self).a.b... return ['a','b',...], else None."""
    if p['l'] != self_local:
        return None
    proj = p['p']
    if not proj or proj[0]['p'] != 'deref':
        return None
    out = []
    for e in proj[1:]:
        if e['p'] == 'field':
            out.append(e['name'])
        elif e['p'] in ('deref',):
            continue
        else:
            out.append('<' + e['p'] + '>')
    return out


def walk_tree(t):
    """Yield all sub-tuples of a value tree."""
    if isinstance(t, tuple):
        if t and isinstance(t[0], str):
            yield t
        for x in t:
            if isinstance(x, tuple):
                yield from walk_tree(x)


def tree_str(t, depth=0):
    if not isinstance(t, tuple):
        return repr(t)
    if depth > 8:
        return '...'
    k = t[0]
    if k == 'arg':
        return t[2] or 'arg%d' % t[1]
    if k == 'local':
        return (t[2] if len(t) > 2 and t[2] else '_%d' % t[1])
    if k == 'const':
        return str(t[2])
    if k == 'str':
        return repr(t[1])
    if k == 'field':
        return '%s.%s' % (tree_str(t[1], depth + 1), t[2])
    if k == 'deref':
        return '*' + tree_str(t[1], depth + 1)
    if k == 'ref':
        return '&' + tree_str(t[1], depth + 1)
    if k == 'bin':
        return '%s(%s, %s)' % (t[1], tree_str(t[2], depth + 1), tree_str(t[3], depth + 1))
    if k == 'un':
        return '%s(%s)' % (t[1], tree_str(t[2], depth + 1))
    if k == 'cast':
        return '(%s as %s)' % (tree_str(t[2], depth + 1), t[4])
    if k == 'call':
        return '%s(%s)' % (t[1], ', '.join(tree_str(a, depth + 1) for a in t[2]))
    if k == 'agg':
        return '%s{%s}' % (t[2] or t[1], ', '.join(tree_str(a, depth + 1) for a in t[3]))
    if k == 'as':
        return '(%s as %s)' % (tree_str(t[1], depth + 1), t[2])
    return '%s(%s)' % (k, ', '.join(tree_str(a, depth + 1) for a in t[1:]))
