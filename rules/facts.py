"""Loader and indexes for the JSON-lines facts produced by driver/ (yata-facts)."""
import json
import os


class Facts:
    def __init__(self, path):
        self.path = path
        self.adts = {}
        self.traits = {}
        self.impls = []
        self.fns = {}
        self.consts = {}
        self.aliases = {}
        self.statics = []
        self.bodies = {}      # id -> body  (generic ids start with "G:")
        self.aux_bodies = {}  # promoted constants ("P:<fn>:<n>") and const items ("C:<path>")
        self.hir = {}         # def path -> hir tree
        self.meta = None
        self.ast_adts = {}    # (file, line, name) -> record with #[serde(..)] attributes from the expanded AST
        complete = False
        with open(path) as f:
            for line in f:
                r = json.loads(line)
                k = r['k']
                if k == 'body':
                    if r['id'][:2] in ('P:', 'C:'):
                        self.aux_bodies[r['id']] = r
                    else:
                        self.bodies[r['id']] = r
                elif k == 'adt':
                    self.adts[r['path']] = r
                elif k == 'trait':
                    self.traits[r['path']] = r
                elif k == 'impl':
                    self.impls.append(r)
                elif k == 'fn':
                    self.fns[r['path']] = r
                elif k == 'const':
                    self.consts[r['path']] = r
                elif k == 'alias':
                    self.aliases[r['path']] = r
                elif k == 'static':
                    self.statics.append(r)
                elif k == 'hir':
                    self.hir[r['def']] = r
                elif k == 'ast_adt':
                    self.ast_adts[(r['file'], r['line'], r['name'])] = r
                elif k == 'meta':
                    self.meta = r
                elif k == 'end':
                    complete = True
        if not complete or self.meta is None:
            raise RuntimeError('facts file incomplete: ' + path)

    # ---- convenience -------------------------------------------------
    def generic_body(self, def_path):
        return self.bodies.get('G:' + def_path)

    def mono_bodies_of(self, def_path):
        return [b for b in self.bodies.values() if not b['generic'] and b['def'] == def_path]

    def body_for(self, def_path):
        """Prefer a monomorphic instance (there may be several); fall back to the generic body."""
        m = self.mono_bodies_of(def_path)
        if m:
            return m[0]
        return self.generic_body(def_path)

    def impls_of_trait(self, trait_suffix):
        return [i for i in self.impls if i['trait'] and path_ends(i['trait'], trait_suffix)]

    def impl_item(self, impl, name):
        for it in impl['items']:
            if it['name'] == name:
                return it
        return None


def path_ends(path, suffix):
    return path == suffix or path.endswith('::' + suffix)


def last_seg(path):
    return path.rsplit('::', 1)[-1]


def adt_name(ty_str):
    """'methods::sma::SMA' or 'core::window::Window<f64>' -> last path segment w/o generics."""
    s = ty_str
    depth = 0
    out = []
    for ch in s:
        if ch == '<':
            depth += 1
        elif ch == '>':
            depth -= 1
        elif depth == 0:
            out.append(ch)
    return ''.join(out).rsplit('::', 1)[-1].strip()


def serde_attrs_of(facts, adt):
    """(type attrs, {variant: attrs}, {(variant, field): attrs}) from the expanded AST."""
    name = adt['path'].rsplit('::', 1)[-1]
    rec = facts.ast_adts.get((adt['file'], adt.get('ident_line', adt['line']), name))
    if rec is None:
        return None
    vat = {v['name']: v['attrs'] for v in rec['variants']}
    fat = {}
    for v in rec['variants']:
        for fl in v['fields']:
            fat[(v['name'], fl['name'])] = fl['attrs']
    return rec['attrs'], vat, fat
