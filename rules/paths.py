"""Path enumeration and path facts on small MIR bodies."""
from mir import Body, callee_def, callee_id


class TooManyPaths(Exception):
    pass


def enumerate_paths(body, limit=20000, start=0):
    """All acyclic paths (block lists) from `start` to a return / diverging block. Back edges are
    not followed (each block at most once per path)."""
    out = []
    path = []
    on = set()

    def go(b):
        if len(out) > limit:
            raise TooManyPaths(body.id)
        path.append(b)
        on.add(b)
        ss = [s for s in body.succ(b) if s not in on]
        t = body.blocks[b]['term']['t']
        if t in ('return', 'unreachable', 'resume', 'terminate') or (not body.succ(b)):
            out.append(list(path))
        elif not ss:
            # only back edges: path ends at loop re-entry
            out.append(list(path) + ['loop'])
        else:
            for s in ss:
                go(s)
        path.pop()
        on.discard(b)

    import sys
    sys.setrecursionlimit(100000)
    go(start)
    return out


def path_ends_in_return(body, p):
    last = p[-1]
    return last != 'loop' and body.blocks[last]['term']['t'] == 'return'


def path_diverges(body, p):
    last = p[-1]
    if last == 'loop':
        return False
    t = body.blocks[last]['term']
    return t['t'] in ('unreachable', 'resume', 'terminate') or (t['t'] == 'call' and t.get('target') is None)


def edge_value(body, src, dst):
    """For a switch terminator in src, the set of discriminant values leading to dst (None = otherwise)."""
    t = body.blocks[src]['term']
    if t['t'] != 'switch':
        return None
    vals = [v for v, b in t['targets'] if b == dst]
    other = t['otherwise'] == dst
    return vals, other


def result_variant_on_path(body, p):
    """Variant of the Result/Option stored in _0 by the last whole assignment on the path."""
    variant = None
    for b in p:
        if b == 'loop':
            break
        blk = body.blocks[b]
        for s in blk['stmts']:
            if s['s'] == 'assign' and s['pl']['l'] == 0 and not s['pl']['p']:
                rv = s['rv']
                if rv['r'] == 'agg' and rv['kind'] == 'adt' and rv.get('is_enum'):
                    variant = rv['variant']
                else:
                    variant = '?'
        t = blk['term']
        if t['t'] == 'call' and t['dest']['l'] == 0 and not t['dest']['p']:
            cid = callee_def(t['callee']) or ''
            if cid.endswith('FromResidual::from_residual') or 'from_residual' in cid:
                variant = 'Err'
            else:
                variant = '?call:' + callee_id(t['callee'])
    if variant == '?':
        # `_0 = move tmp` where tmp holds the literal (the return slot of an inlined helper): resolve through the path environment
        ret = PathFacts(body, p).ret
        if ret and ret[0] == 'agg' and ret[1] == 'adt' and isinstance(ret[2], str) and '::' in ret[2]:
            last = ret[2].rsplit('::', 1)[-1]
            if last in ('Ok', 'Err', 'Some', 'None'):
                variant = last
    return variant


class PathFacts:
    """What one acyclic path decides and does: switch decisions, calls, stores, the returned value."""

    def __init__(self, body, path):
        self.body = body
        self.path = [b for b in path if b != 'loop']
        self.decisions = []     # (discriminant tree, [values] or 'otherwise', block)
        self.calls = []         # (block, call tree, terminator)
        self.ret = None         # tree of the last whole assignment to _0
        self.stores = []        # (place json, rvalue tree, line)
        self.infeasible = False
        body_ = body
        # environment: for locals assigned in several places, the last whole assignment on this path
        env = {}
        onpath = set(self.path)
        for l, ds in body_.defs().items():
            if len(ds) > 1:
                last = None
                for (bi, si, kind, node) in ds:
                    if bi in onpath and kind in ('assign', 'call'):
                        pos = (self.path.index(bi), si if si >= 0 else 1 << 30)
                        if last is None or pos > last[0]:
                            last = (pos, (bi, si, kind, node))
                if last is not None:
                    env[l] = last[1]
        self.env = env
        for i, b in enumerate(self.path):
            blk = body_.blocks[b]
            for s in blk['stmts']:
                if s['s'] == 'assign':
                    if s['pl']['l'] == 0 and not s['pl']['p']:
                        self.ret = body_.tree_of_rvalue(s['rv'], 0, env)
                    elif s['pl']['p']:
                        self.stores.append((s['pl'], body_.tree_of_rvalue(s['rv'], 0, env), s['sp']['l']))
            t = blk['term']
            if t['t'] == 'call':
                tr = body_.tree_of_call(t, 0, b, env)
                self.calls.append((b, tr, t))
                if t['dest']['l'] == 0 and not t['dest']['p']:
                    self.ret = tr
            elif t['t'] == 'switch' and i + 1 < len(self.path):
                nxt = self.path[i + 1]
                vals = [v for v, bb in t['targets'] if bb == nxt]
                dtree = body_.tree_of_operand(t['discr'], 0, env)
                allv = [v for v, _ in t['targets']]
                self.decisions.append((dtree, vals if vals else 'otherwise', b, allv))
                x = dtree
                while isinstance(x, tuple) and x and x[0] in ('ref', 'deref'):
                    x = x[1]
                if isinstance(x, tuple) and x and x[0] == 'const' and isinstance(x[2], (bool, int)) and not isinstance(x[2], float):
                    c = int(x[2])
                    if (vals and c not in vals) or (not vals and c in allv):
                        self.infeasible = True      # the path itself fixed this value to a constant that contradicts the branch
                if isinstance(x, tuple) and x and x[0] == 'discr':
                    y = x[1]
                    while isinstance(y, tuple) and y and y[0] in ('ref', 'deref'):
                        y = y[1]
                    if isinstance(y, tuple) and y and y[0] == 'call' and str(y[4]).endswith('Try::branch') or \
                            (isinstance(y, tuple) and y and y[0] == 'call' and str(y[4]).endswith('as std::ops::Try>::branch')):
                        # `?` on a Result / Option literal built on this path: Ok / Some continue (0), Err / None break (1)
                        z = y[2][0] if y[2] else ('?',)
                        while isinstance(z, tuple) and z and z[0] in ('ref', 'deref'):
                            z = z[1]
                        if isinstance(z, tuple) and z and z[0] == 'agg' and z[1] == 'adt':
                            nm = str(z[2])
                            c = 0 if nm.endswith(('Result::Ok', 'Option::Some')) else (1 if nm.endswith(('Result::Err', 'Option::None')) else None)
                            if c is not None and ((vals and c not in vals) or (not vals and c in allv)):
                                self.infeasible = True
                    if isinstance(y, tuple) and y and y[0] == 'agg' and y[1] == 'adt' and len(y) > 5 and isinstance(y[5], int):
                        c = y[5]        # the scrutinee is an enum literal built on this very path (e.g. returned by an inlined helper)
                        if (vals and c not in vals) or (not vals and c in allv):
                            self.infeasible = True
        last = self.path[-1]
        self.returns = body_.blocks[last]['term']['t'] == 'return'

    def variant_decisions(self):
        """[(scrutinee tree, variant index)] for switches on discriminant(..)."""
        out = []
        for d, vals, b, allv in self.decisions:
            if d[0] == 'discr':
                out.append((d[1], vals, allv))
        return out

    def str_decisions(self):
        """[(other operand tree, literal, truth)] for switches on str == literal tests."""
        out = []
        for d, vals, b, allv in self.decisions:
            if d[0] == 'call' and 'PartialEq' in d[1] and d[1].endswith('::eq') and len(d[2]) == 2:
                lit = other = None
                for a in d[2]:
                    x = a
                    while x[0] in ('ref', 'deref'):
                        x = x[1]
                    if x[0] == 'str':
                        lit = x[1]
                    else:
                        other = a
                if lit is not None and other is not None:
                    truth = not (vals != 'otherwise' and 0 in vals)
                    out.append((other, lit, truth))
        return out


def all_path_facts(body, limit=20000):
    """facts of every acyclic path, without the paths that contradict a constant they themselves assign (an inlined helper's `return false`
    followed by the caller's `true` branch)"""
    out = [PathFacts(body, p) for p in enumerate_paths(body, limit)]
    return [pf for pf in out if not pf.infeasible]
