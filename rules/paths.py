"""Path enumeration and path facts on small MIR bodies."""
from mir import Body, callee_def, callee_id


class TooManyPaths(Exception):
    pass


def enumerate_paths(body, limit=20000, start=0):
    """All acyclic paths (block lists) from `start` to a return / diverging block. Back edges are
    not followed (each block at most once per path)."""
    out = []
    path = []
    on = set()

    def go(b):
        if len(out) > limit:
            raise TooManyPaths(body.id)
        path.append(b)
        on.add(b)
        ss = [s for s in body.succ(b) if s not in on]
        t = body.blocks[b]['term']['t']
        if t in ('return', 'unreachable', 'resume', 'terminate') or (not body.succ(b)):
            out.append(list(path))
        elif not ss:
            # only back edges: path ends at loop re-entry
            out.append(list(path) + ['loop'])
        else:
            for s in ss:
                go(s)
        path.pop()
        on.discard(b)

    import sys
    sys.setrecursionlimit(100000)
    go(start)
    return out


def path_ends_in_return(body, p):
    last = p[-1]
    return last != 'loop' and body.blocks[last]['term']['t'] == 'return'


def path_diverges(body, p):
    last = p[-1]
    if last == 'loop':
        return False
    t = body.blocks[last]['term']
    return t['t'] in ('unreachable', 'resume', 'terminate') or (t['t'] == 'call' and t.get('target') is None)


def edge_value(body, src, dst):
    """For a switch terminator in src, the set of discriminant values leading to dst (None = otherwise)."""
    t = body.blocks[src]['term']
    if t['t'] != 'switch':
        return None
    vals = [v for v, b in t['targets'] if b == dst]
    other = t['otherwise'] == dst
    return vals, other


def result_variant_on_path(body, p):
    """Variant of the Result/Option stored in _0 by the last whole assignment on the path."""
    variant = None
    for b in p:
        if b == 'loop':
            break
        blk = body.blocks[b]
        for s in blk['stmts']:
            if s['s'] == 'assign' and s['pl']['l'] == 0 and not s['pl']['p']:
                rv = s['rv']
                if rv['r'] == 'agg' and rv['kind'] == 'adt' and rv.get('is_enum'):
                    variant = rv['variant']
                else:
                    variant = '?'
        t = blk['term']
        if t['t'] == 'call' and t['dest']['l'] == 0 and not t['dest']['p']:
            cid = callee_def(t['callee']) or ''
            if cid.endswith('FromResidual::from_residual') or 'from_residual' in cid:
                variant = 'Err'
            else:
                variant = '?call:' + callee_id(t['callee'])
    return variant
