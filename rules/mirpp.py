"""Pretty-printer for dumped MIR bodies (debugging aid and replay reports)."""
import sys


def pl(p):
    s = '_%d' % p['l']
    for e in p['p']:
        k = e['p']
        if k == 'deref':
            s = '(*%s)' % s
        elif k == 'field':
            s = '%s.%s' % (s, e['name'])
        elif k == 'index':
            s = '%s[_%d]' % (s, e['local'])
        elif k == 'cindex':
            s = '%s[%s%d]' % (s, '-' if e['from_end'] else '', e['offset'])
        elif k == 'subslice':
            s = '%s[%d..%s%d]' % (s, e['from'], '-' if e['from_end'] else '', e['to'])
        elif k == 'downcast':
            s = '(%s as %s)' % (s, e['variant'])
        else:
            s = '%s.<%s>' % (s, k)
    return s


def const(v):
    c = v['c']
    if c == 'scalar':
        return 'const %s:%s' % (v['bits'], v['ty'])
    if c == 'str':
        return 'const %r' % v['v']
    if c == 'fn':
        return 'fn %s' % v['def']
    if c == 'zst':
        return 'zst %s' % v['ty']
    return 'const<%s %s>' % (c, v.get('ty', ''))


def op(o):
    k = o['o']
    if k in ('copy', 'move'):
        return ('move ' if k == 'move' else '') + pl(o['pl'])
    if k == 'const':
        return const(o['v'])
    return '<%s>' % o.get('v')


def rv(r):
    k = r['r']
    if k == 'use':
        return op(r['a'])
    if k == 'ref':
        return '&%s%s' % ('mut ' if r['mut'] else '', pl(r['pl']))
    if k == 'rawptr':
        return '&raw %s' % pl(r['pl'])
    if k == 'cast':
        return '%s as %s (%s)' % (op(r['a']), r['to'], r['kind'])
    if k == 'bin':
        return '%s(%s, %s)' % (r['op'], op(r['a']), op(r['b']))
    if k == 'un':
        return '%s(%s)' % (r['op'], op(r['a']))
    if k == 'discr':
        return 'discriminant(%s)' % pl(r['pl'])
    if k == 'agg':
        kind = r['kind']
        ops = ', '.join(op(x) for x in r['ops'])
        if kind == 'adt':
            names = r['fields']
            inner = ', '.join('%s: %s' % (n, op(x)) for n, x in zip(names, r['ops']))
            return '%s::%s { %s }' % (r['def'], r['variant'], inner)
        if kind == 'closure':
            return 'closure %s (%s)' % (r['def'], ops)
        return '%s(%s)' % (kind, ops)
    if k == 'repeat':
        return '[%s; %s]' % (op(r['a']), r['n'])
    return '<%s>' % k


def callee_name(c):
    if c.get('def') is None:
        return 'indirect(%s)' % c.get('indirect')
    res = c.get('res')
    if res and res.get('id'):
        return res['id'] + ('' if res['kind'] == 'Item' else ' [%s]' % res['kind'])
    return c['def'] + '<' + ','.join(c['args']) + '> [unresolved]'


def term(t):
    k = t['t']
    if k == 'goto':
        return 'goto bb%d' % t['target']
    if k == 'switch':
        return 'switchInt(%s) -> [%s, otherwise: bb%d]' % (
            op(t['discr']), ', '.join('%d: bb%d' % (v, b) for v, b in t['targets']), t['otherwise'])
    if k == 'call':
        tgt = 'bb%d' % t['target'] if t['target'] is not None else 'diverge'
        return '%s = %s(%s) -> %s' % (pl(t['dest']), callee_name(t['callee']),
                                     ', '.join(op(a) for a in t['args']), tgt)
    if k == 'assert':
        return 'assert(%s%s, %s[%s]) -> bb%d' % ('' if t['expected'] else '!', op(t['cond']), t['kind'],
                                                ', '.join(op(a) for a in t['ops']), t['target'])
    if k == 'drop':
        return 'drop(%s) -> bb%d' % (pl(t['pl']), t['target'])
    return k


def body(b, out=sys.stdout):
    out.write('fn %s  [%s:%d]\n' % (b['id'], b['file'], b['line']))
    for i, l in enumerate(b['locals']):
        out.write('  let _%d: %s%s%s\n' % (i, l['ty'], '  // ' + l['name'] if l['name'] else '',
                                          '  (arg)' if 1 <= i <= b['arg_count'] else ''))
    for i, blk in enumerate(b['blocks']):
        out.write('  bb%d%s:\n' % (i, ' (cleanup)' if blk['cleanup'] else ''))
        for s in blk['stmts']:
            if s['s'] == 'assign':
                m = ' {%s}' % ','.join(s['sp']['m']) if s['sp']['m'] else ''
                out.write('    %s = %s;  // l%d%s\n' % (pl(s['pl']), rv(s['rv']), s['sp']['l'], m))
            elif s['s'] == 'setdiscr':
                out.write('    discriminant(%s) = %d;\n' % (pl(s['pl']), s['vi']))
        sp = blk['sp']
        m = ' {%s}' % ','.join(sp['m']) if sp['m'] else ''
        d = ' <%s>' % sp['d'] if sp['d'] else ''
        out.write('    %s;  // l%d%s%s\n' % (term(blk['term']), sp['l'], m, d))


if __name__ == '__main__':
    from facts import Facts
    f = Facts(sys.argv[1])
    pat = sys.argv[2]
    for id_, b in f.bodies.items():
        if pat in id_:
            body(b)
            print()
