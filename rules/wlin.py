"""Weight-sum typing of linear methods: an abstract interpretation of dumped MIR in the domain of *affine forms with a
known coefficient sum* (rule L01; properties C15 and C08).

Every float a method computes is abstracted to (lin, w, c):  value = <a linear form of the stream values whose coefficients depend
on the configuration only and sum to w> + c, where w and c are rational functions of the configuration (the integer length
parameter n, written n = m*k + r per residue class so that `n / 2` is a polynomial; uninterpreted symbols for sqrt and friends).
Under the constant stream v, v, v, ... such a value is exactly w*v + c, and translating the whole stream by b moves it by w*b.
A product of two stream-dependent values, a division by one, a branch on one ... is outside the domain (TOP): the rule abstains.
Nothing is executed: no stream value and no concrete length ever exists, only the coefficient sums."""
import copy
import re
from fractions import Fraction
from itertools import product

from mir import Body, callee_id, callee_def, scalar_value


class Abstain(Exception):
    pass


class LoopAbstain(Abstain):
    pass


class PathDead(Exception):
    """the path ends in a panic / an `unreachable`: it produces no state and no output"""


# ---------------------------------------------------------------------------------------------------------------
# polynomials / rational functions over named symbols
# ---------------------------------------------------------------------------------------------------------------
INT_SYMS = set()
LOSSY = {}          # symbol of a narrowing integer cast that loses bits for an accepted length -> (polynomial in k, bits of the target)
PARAM_RANGE = {'kmin': 0, 'kmax': 127}     # range of k for the current run (set by the rule from the parameter type and residue class)
BITS = {'u8': 8, 'u16': 16, 'u32': 32, 'u64': 64, 'usize': 64, 'i8': 7, 'i16': 15, 'i32': 31, 'i64': 63, 'isize': 63}


def p_const(c):
    c = Fraction(c)
    return {(): c} if c != 0 else {}


def p_sym(s):
    return {((s, 1),): Fraction(1)}


def p_add(a, b, sign=1):
    r = dict(a)
    for m, c in b.items():
        v = r.get(m, 0) + sign * c
        if v == 0:
            r.pop(m, None)
        else:
            r[m] = v
    return r


def p_mul(a, b):
    r = {}
    for m1, c1 in a.items():
        for m2, c2 in b.items():
            d = dict(m1)
            for s, e in m2:
                d[s] = d.get(s, 0) + e
            m = tuple(sorted(d.items()))
            v = r.get(m, 0) + c1 * c2
            if v == 0:
                r.pop(m, None)
            else:
                r[m] = v
    return r


def p_str(a):
    if not a:
        return '0'
    out = []
    for m in sorted(a):
        c = a[m]
        t = '*'.join(s if e == 1 else '%s^%d' % (s, e) for s, e in m)
        out.append(('%s' % c) + ('*' + t if t else ''))
    return ' + '.join(out)


def p_syms(a):
    return {s for m in a for s, _ in m}


def p_eval(a, env):
    tot = Fraction(0)
    for m, c in a.items():
        v = c
        for s, e in m:
            v *= Fraction(env[s]) ** e
        tot += v
    return tot


def p_subst(a, sym, val):
    """substitute the constant `val` for `sym`"""
    r = {}
    for m, c in a.items():
        v = c
        rest = []
        for s, e in m:
            if s == sym:
                v *= Fraction(val) ** e
            else:
                rest.append((s, e))
        m2 = tuple(rest)
        nv = r.get(m2, 0) + v
        if nv == 0:
            r.pop(m2, None)
        else:
            r[m2] = nv
    return r


def p_integer_valued(a):
    """is the polynomial integer-valued on all integer points (all of its symbols being integer symbols)?  A polynomial of degree
    d_i in x_i is integer-valued iff it is on the grid prod {0..d_i}."""
    syms = sorted(p_syms(a))
    if any(s not in INT_SYMS for s in syms):
        return False
    deg = {s: 0 for s in syms}
    for m in a:
        for s, e in m:
            deg[s] = max(deg[s], e)
    if sum(deg.values()) > 8:
        return False
    for pt in product(*[range(deg[s] + 1) for s in syms]):
        if p_eval(a, dict(zip(syms, pt))).denominator != 1:
            return False
    return True


class RF:
    __slots__ = ('n', 'd')

    def __init__(self, n, d=None):
        d = d if d is not None else p_const(1)
        if not d:
            raise Abstain('division by the zero polynomial')
        if len(d) == 1 and () in d:
            k = d[()]
            n = {m: c / k for m, c in n.items()}
            d = p_const(1)
        elif n:
            # cancel the common monomial factor of numerator and denominator (x^e dividing every term of both)
            common = None
            for poly in (n, d):
                for m in poly:
                    e = dict(m)
                    common = e if common is None else {s_: min(x, e.get(s_, 0)) for s_, x in common.items()}
                    if not common:
                        break
                if not common:
                    break
            common = {s_: x for s_, x in (common or {}).items() if x > 0}
            if common:
                def div(poly):
                    out = {}
                    for m, c in poly.items():
                        e = dict(m)
                        for s_, x in common.items():
                            e[s_] -= x
                        out[tuple(sorted((a, b) for a, b in e.items() if b))] = c
                    return out
                n, d = div(n), div(d)
        self.n, self.d = n, d

    @staticmethod
    def const(c):
        return RF(p_const(c))

    @staticmethod
    def sym(s):
        return RF(p_sym(s))

    def __add__(self, o):
        if self.d == o.d:
            return RF(p_add(self.n, o.n), self.d)
        return RF(p_add(p_mul(self.n, o.d), p_mul(o.n, self.d)), p_mul(self.d, o.d))

    def __sub__(self, o):
        return self + (-o)

    def __neg__(self):
        return RF({m: -c for m, c in self.n.items()}, self.d)

    def __mul__(self, o):
        return RF(p_mul(self.n, o.n), p_mul(self.d, o.d))

    def div(self, o):
        if not o.n:
            raise Abstain('division by zero')
        return RF(p_mul(self.n, o.d), p_mul(self.d, o.n))

    def eq(self, o):
        return p_mul(self.n, o.d) == p_mul(o.n, self.d)

    def is_zero(self):
        return not self.n

    def is_const(self):
        return (not self.n or list(self.n) == [()]) and list(self.d) == [()]

    def const_value(self):
        return self.n.get((), Fraction(0)) / self.d[()]

    def is_poly(self):
        return list(self.d) == [()]

    def subst(self, sym, val):
        return RF(p_subst(self.n, sym, val), p_subst(self.d, sym, val))

    def __str__(self):
        if self.is_poly():
            return p_str(self.n)
        return '(%s)/(%s)' % (p_str(self.n), p_str(self.d))


ZERO = RF.const(0)
ONE = RF.const(1)


DEFS = {}           # uninterpreted symbol -> (kind, argument RFs): what it stands for, so that it can be evaluated at a concrete length


def fresh(kind, args, is_int):
    name = '%s(%s)' % (kind, ','.join(str(a) for a in args))
    if is_int:
        INT_SYMS.add(name)
    DEFS[name] = (kind, tuple(args))
    return RF.sym(name)


def eval_rf(rf, k, depth=0):
    """exact value of a configuration quantity at the concrete length parameter k (every uninterpreted symbol evaluated from its
    definition), or None when a symbol cannot be evaluated exactly (a square root that is not truncated, ...)"""
    if depth > 12:
        return None
    env = {}
    for sname in p_syms(rf.n) | p_syms(rf.d):
        if sname == 'k':
            env['k'] = k
            continue
        v = eval_sym(sname, k, depth + 1)
        if v is None:
            return None
        env[sname] = v
    d = p_eval(rf.d, env)
    if d == 0:
        return None
    return p_eval(rf.n, env) / d


def eval_sym(name, k, depth=0):
    import math
    if name not in DEFS:
        return None
    kind, args = DEFS[name]
    if kind == 'trunc' and len(args) == 1:
        # truncation of a float: the argument may be the square root of an exactly known quantity
        a = args[0]
        syms = p_syms(a.n) | p_syms(a.d)
        if len(syms) == 1 and a.is_poly() and list(a.n) == [((next(iter(syms)), 1),)] and a.n[((next(iter(syms)), 1),)] == 1:
            inner = next(iter(syms))
            if inner in DEFS and DEFS[inner][0] == 'sqrt':
                x = eval_rf(DEFS[inner][1][0], k, depth + 1)
                if x is None or x < 0:
                    return None
                if x.denominator == 1:
                    return Fraction(math.isqrt(int(x)))
                return Fraction(int(math.floor(math.sqrt(float(x)))))
        x = eval_rf(a, k, depth + 1)
        return None if x is None else Fraction(int(x))          # toward zero
    vals = [eval_rf(a, k, depth + 1) for a in args]
    if any(v is None for v in vals):
        return None
    if kind == 'floordiv' and len(vals) == 2:
        return None if vals[1] == 0 else Fraction(math.floor(vals[0] / vals[1]))
    if kind == 'abs' and len(vals) == 1:
        return abs(vals[0])
    m = re.match(r'^wrap(\d+)$', kind)
    if m and len(vals) == 1 and vals[0].denominator == 1:
        return Fraction(int(vals[0]) % (1 << int(m.group(1))))
    m = re.match(r'^(saturating|wrapping)_(add|sub|mul)_(\w+)$', kind)
    if m and len(vals) == 2:
        mode, op, ty = m.groups()
        x = {'add': vals[0] + vals[1], 'sub': vals[0] - vals[1], 'mul': vals[0] * vals[1]}[op]
        bits = BITS.get(ty, 64)
        lo, hi = (-(1 << bits), (1 << bits) - 1) if ty.startswith('i') else (0, (1 << bits) - 1)
        if mode == 'saturating':
            return min(max(x, lo), hi)
        if x.denominator == 1 and not ty.startswith('i'):
            return Fraction(int(x) % (1 << bits))
        return None
    return None


# ---------------------------------------------------------------------------------------------------------------
# abstract values
# ---------------------------------------------------------------------------------------------------------------
class Aff:
    """lin: depends on the stream; w: coefficient sum of the linear part; c: stream-independent offset; isint: integer typed"""
    __slots__ = ('lin', 'w', 'c', 'isint', 'co')

    def __init__(self, lin, w, c, isint=False, co=None):
        # co: optional explicit coefficients {atom: RF} of the linear part (atoms: the input, the old value of a state leaf);
        # None = only the sum is known
        self.lin, self.w, self.c, self.isint, self.co = lin, w, c, isint, co

    def __repr__(self):
        if not self.lin:
            return 'K[%s]' % self.c
        return 'L[w=%s%s]' % (self.w, '' if self.c.is_zero() else ', c=%s' % self.c)

    def same(self, o):
        return isinstance(o, Aff) and self.lin == o.lin and self.w.eq(o.w) and self.c.eq(o.c)


def K(c, isint=False):
    return Aff(False, ZERO, c if isinstance(c, RF) else RF.const(c), isint)


TOP = ('T',)


class Dim:
    """a value outside the affine domain of which only the physical dimension is known: it scales with the stream like price^deg
    (deg 0: a pure number) and is (tinv) or is not invariant under a translation of the whole stream"""
    __slots__ = ('deg', 'tinv')

    def __init__(self, deg, tinv):
        self.deg, self.tinv = Fraction(deg), bool(tinv)

    def __repr__(self):
        return 'Dim[price^%s%s]' % (self.deg, ', translation-invariant' if self.tinv else '')


def dim_of(v):
    if isinstance(v, Dim):
        return v
    if isinstance(v, Aff):
        if not v.lin:
            return Dim(0, True)
        if v.w.is_zero():
            return Dim(1, True)
        return Dim(1, False)
    return None


class Obj:
    """struct / tuple / enum payload: mutable field map (references point at (Obj.f, name) slots)"""
    __slots__ = ('kind', 'variant', 'f')

    def __init__(self, kind, f, variant=None):
        self.kind, self.f, self.variant = kind, f, variant

    def __repr__(self):
        return '%s%s%r' % (self.kind, '::' + self.variant if self.variant else '', self.f)


class Ref:
    __slots__ = ('box', 'key')

    def __init__(self, box, key):
        self.box, self.key = box, key

    def get(self):
        return self.box.get(self.key, TOP)


class Bool:
    __slots__ = ('val', 'cond', 'data', 'cmp')

    def __init__(self, val=None, cond=None, data=False, cmp=None):
        self.val, self.cond, self.data, self.cmp = val, cond, data, cmp     # cond: ('eq0', RF) meaning "true iff RF == 0"


def is_top(v):
    return v is TOP or v == TOP


def join(a, b):
    if is_top(a) or is_top(b):
        return TOP
    if isinstance(a, Aff) and isinstance(b, Aff):
        return a if a.same(b) else TOP
    if isinstance(a, Obj) and isinstance(b, Obj) and a.kind == b.kind and a.variant == b.variant:
        return Obj(a.kind, {k: join(a.f.get(k, TOP), b.f.get(k, TOP)) for k in set(a.f) | set(b.f)}, a.variant)
    if isinstance(a, Bool) and isinstance(b, Bool) and a.val == b.val and a.val is not None:
        return a
    da, db = dim_of(a), dim_of(b)
    if da is not None and db is not None and da.deg == db.deg:
        return Dim(da.deg, da.tinv and db.tinv)
    return TOP


def describe(v, depth=0):
    if isinstance(v, Aff):
        return repr(v)
    if isinstance(v, Obj):
        if depth > 3:
            return '..'
        return {k: describe(x, depth + 1) for k, x in sorted(v.f.items())}
    if isinstance(v, Ref):
        return '&' + str(describe(v.get(), depth + 1))
    if isinstance(v, Bool):
        return 'bool(%s)' % v.val
    return 'T'


def leaves(v, prefix=()):
    """(path, Aff-or-TOP) for every scalar leaf of a state object"""
    if isinstance(v, Obj):
        for k in sorted(v.f):
            yield from leaves(v.f[k], prefix + (k,))
    else:
        yield prefix, v


# ---------------------------------------------------------------------------------------------------------------
# the interpreter (replays a decision script; one run = one path through the whole call tree)
# ---------------------------------------------------------------------------------------------------------------
WINDOW = 'core::window::Window'


class Run:
    def __init__(self, facts, script):
        self.f = facts
        self.script = list(script)
        self.pos = 0
        self.branching = []       # number of alternatives at each decision taken
        self.assume = []          # ('eq0', RF) / ('ne', RF, const) configuration assumptions of this path
        self.data_dependent = False
        self.steps = 0
        self.unknown_calls = set()
        self.lenient_stores = False
        self.lost_stores = 0
        self.dim_events = []      # dimensionally inconsistent operations met on this path
        self.label_popped = False
        self.pushed = []
        self.dd = []              # data-dependent decisions of this path: ((op, a, b) or None, outcome)

    def choose(self, n):
        if self.pos < len(self.script):
            c = self.script[self.pos]
        else:
            c = 0
            self.script.append(0)
        self.pos += 1
        self.branching.append(n)
        return c

    def body(self, id_):
        b = self.f.bodies.get(id_)
        return Body(b) if b else None

    # ---- places ----------------------------------------------------------------------------------------------
    def slot(self, loc, p):
        box, key = loc, p['l']
        for e in p['p']:
            v = box.get(key, TOP)
            k = e['p']
            if k == 'deref':
                if isinstance(v, Ref):
                    box, key = v.box, v.key
                elif isinstance(v, Obj) and v.kind == 'box':
                    box, key = v.f, '0'
                elif isinstance(v, Obj) and v.kind == 'seq':
                    pass            # a slice / iterator value returned by reference: the reference is the sequence
                else:
                    return None
            elif k == 'field':
                if isinstance(v, Obj):
                    box, key = v.f, e['name']
                else:
                    return None
            elif k == 'downcast':
                if isinstance(v, Obj) and v.variant is not None and v.variant != e['variant']:
                    raise PathDead()
            else:
                return None
        return box, key

    def read(self, loc, p):
        s = self.slot(loc, p)
        return TOP if s is None else s[0].get(s[1], TOP)

    def write(self, loc, p, v):
        s = self.slot(loc, p)
        if s is None:
            if self.lenient_stores:
                self.lost_stores += 1
                return
            raise Abstain('store through an untracked place')
        s[0][s[1]] = v

    def operand(self, loc, o):
        if o['o'] == 'const':
            v = o['v']
            if v['c'] == 'scalar':
                x = scalar_value(v)
                if v['ty'] == 'bool':
                    return Bool(bool(x))
                if v['ty'] in ('f64', 'f32'):
                    if x != x or x in (float('inf'), float('-inf')):
                        return TOP
                    return K(Fraction(x))
                if isinstance(x, int):
                    return K(x, True)
            if v['c'] == 'fn':
                return Obj('fnitem', {}, v.get('def'))
            if v['c'] == 'zst':
                return Obj('tuple', {})
            if v['c'] in ('promoted', 'constitem'):
                # interpret the tiny body of the promoted constant / const item
                bid = ('P:%s:%d' % (v['of'], v['index'])) if v['c'] == 'promoted' else ('C:' + v['def'])
                b = self.f.aux_bodies.get(bid)
                if b is not None:
                    return self.call_fn(Body(b), [])
            return TOP
        v = self.read(loc, o['pl'])
        return v

    # ---- arithmetic ------------------------------------------------------------------------------------------
    def arith(self, op, a, b):
        r = self.arith_aff(op, a, b)
        if r is not TOP and not is_top(r):
            return r
        da, db = dim_of(a), dim_of(b)
        if da is None or db is None:
            return TOP
        if op in ('Add', 'Sub'):
            # the literal zero has every dimension
            if isinstance(a, Aff) and not a.lin and a.c.is_zero():
                return Dim(db.deg, db.tinv)
            if isinstance(b, Aff) and not b.lin and b.c.is_zero():
                return Dim(da.deg, da.tinv)
            if da.deg == db.deg:
                return Dim(da.deg, da.tinv and db.tinv)
            # a pure number added to a priced quantity: the sum has no dimension
            self.dim_events.append(('add', da, db))
            return TOP
        if op == 'Mul':
            return Dim(da.deg + db.deg, (da.tinv or da.deg == 0) and (db.tinv or db.deg == 0) and (da.tinv and db.tinv))
        if op == 'Div':
            return Dim(da.deg - db.deg, da.tinv and db.tinv)
        return TOP

    def arith_aff(self, op, a, b):
        if not isinstance(a, Aff) or not isinstance(b, Aff):
            return TOP
        isint = a.isint and b.isint
        if op in ('Add', 'Sub'):
            s = 1 if op == 'Add' else -1
            co = None
            ca = a.co if a.lin else {}
            cb = b.co if b.lin else {}
            if ca is not None and cb is not None:
                co = dict(ca)
                for k, v in cb.items():
                    nv = co.get(k, ZERO) + (v if s == 1 else -v)
                    co[k] = nv
            return Aff(a.lin or b.lin, a.w + (b.w if s == 1 else -b.w), a.c + (b.c if s == 1 else -b.c), isint, co)
        if op == 'Mul':
            if a.lin and b.lin:
                return TOP
            if b.lin:
                a, b = b, a
            co = {k: v * b.c for k, v in a.co.items()} if (a.lin and a.co is not None) else None
            return Aff(a.lin, a.w * b.c, a.c * b.c, isint, co)
        if op == 'Div':
            if b.lin:
                return TOP
            if b.c.is_zero():
                return TOP
            if isint:
                if a.lin:
                    return TOP
                return K(self.floordiv(a.c, b.c), True)
            co = {k: v.div(b.c) for k, v in a.co.items()} if (a.lin and a.co is not None) else None
            return Aff(a.lin, a.w.div(b.c), a.c.div(b.c), False, co)
        if op == 'Rem' and isint and not a.lin and not b.lin:
            q = self.floordiv(a.c, b.c)
            return K(a.c - q * b.c, True)
        return TOP

    def fits(self, c, ty):
        """does the configuration quantity c lie in the range of integer type ty for every accepted length?"""
        bits = BITS.get(ty, 64)
        lo = -(1 << bits) if ty.startswith('i') else 0
        if c.is_poly() and p_syms(c.n) <= {'k'} and PARAM_RANGE['kmax'] - PARAM_RANGE['kmin'] <= 70000:
            for k in range(PARAM_RANGE['kmin'], PARAM_RANGE['kmax'] + 1):
                x = p_eval(c.n, {'k': k}) if c.n else Fraction(0)
                if x < lo or x >= (1 << bits):
                    return False
            return True
        return False

    def narrow(self, v, to):
        """integer cast into a narrower type of a configuration quantity: the identity when the quantity fits for every accepted
        length (checked over the finite range of the length parameter), otherwise a symbol that remembers what was cast"""
        bits = BITS.get(to, 64)
        c = v.c
        if c.is_poly() and p_syms(c.n) <= {'k'} and PARAM_RANGE['kmax'] - PARAM_RANGE['kmin'] <= 70000:
            lim = 1 << bits
            for k in range(PARAM_RANGE['kmin'], PARAM_RANGE['kmax'] + 1):
                x = p_eval(c.n, {'k': k}) if c.n else Fraction(0)
                if x < 0 or x >= lim:
                    sym = fresh('wrap%d' % bits, (c,), True)
                    LOSSY[next(iter(p_syms(sym.n)))] = (c, bits)
                    return K(sym, True)
            return v
        return K(fresh('wrap%d' % bits, (c,), True), True)

    def floordiv(self, a, b):
        if b.is_const() and a.is_poly() and b.const_value() > 0:
            d = b.const_value()
            if d.denominator == 1:
                for r in range(int(d)):
                    q = RF(p_add(a.n, p_const(r), -1)).div(b)
                    if q.is_poly() and p_integer_valued(q.n):
                        return q
        return fresh('floordiv', (a, b), True)

    def binop(self, op, a, b):
        if op.endswith('WithOverflow'):
            return Obj('tuple', {'0': self.arith(op[:-12], a, b), '1': Bool(False)})
        if op in ('Add', 'Sub', 'Mul', 'Div', 'Rem'):
            return self.arith(op, a, b)
        if op in ('Eq', 'Ne', 'Lt', 'Le', 'Gt', 'Ge'):
            if isinstance(a, Aff) and isinstance(b, Aff):
                if a.lin or b.lin:
                    self.compare_dims(op, a, b, dim_of(a), dim_of(b))
                    return Bool(None, None, True, (op, a, b))
                d = a.c - b.c
                if d.is_const():
                    x = d.const_value()
                    return Bool({'Eq': x == 0, 'Ne': x != 0, 'Lt': x < 0, 'Le': x <= 0, 'Gt': x > 0, 'Ge': x >= 0}[op])
                if op == 'Eq':
                    return Bool(None, ('eq0', d))
                if op == 'Ne':
                    return Bool(None, ('ne0', d))
                if op == 'Gt':
                    return Bool(None, ('gt0', d))
                if op == 'Ge':
                    return Bool(None, ('ge0', d))
                if op == 'Lt':
                    return Bool(None, ('gt0', -d))
                if op == 'Le':
                    return Bool(None, ('ge0', -d))
                return Bool(None)
            da, db = dim_of(a), dim_of(b)
            if da is not None and db is not None:
                self.compare_dims(op, a, b, da, db)
                return Bool(None, None, True, (op, a, b))
            if is_top(a) or is_top(b):
                return Bool(None, None, True)
            return Bool(None)
        return TOP

    def compare_dims(self, op, a, b, da, db):
        """a comparison is meaningful for every scale and offset of the stream when both sides have the same dimension and the same
        behaviour under translation, or when a translation-invariant quantity is compared with zero"""
        def is_zero(v):
            return isinstance(v, Aff) and not v.lin and v.c.is_zero()
        if da.deg == db.deg and da.tinv == db.tinv:
            return
        for x, dx, y, dy in ((a, da, b, db), (b, db, a, da)):
            if is_zero(y) and dx.tinv:
                return
        self.dim_events.append(('compare', op, repr(a), repr(b)))

    # ---- execution -------------------------------------------------------------------------------------------
    def call_fn(self, body, args, depth=0):
        if depth > 12:
            raise Abstain('call depth')
        loc = {}
        for i, a in enumerate(args):
            loc[i + 1] = a
        visits = {}
        bb = 0
        while True:
            visits[bb] = visits.get(bb, 0) + 1
            if visits[bb] > 1:
                raise LoopAbstain('loop in %s' % body.id)
            self.steps += 1
            if self.steps > 20000:
                raise Abstain('budget')
            blk = body.blocks[bb]
            for s in blk['stmts']:
                if s['s'] == 'assign':
                    self.write(loc, s['pl'], self.rvalue(loc, s['rv'], body))
                elif s['s'] == 'setdiscr':
                    raise Abstain('set discriminant')
            t = blk['term']
            k = t['t']
            if k == 'goto':
                bb = t['target']
            elif k == 'return':
                return loc.get(0, Obj('tuple', {}))
            elif k == 'drop':
                bb = t['target']
            elif k == 'assert':
                bb = t['target']
            elif k == 'switch':
                bb = self.switch(loc, t)
            elif k == 'call':
                if t.get('target') is None:
                    raise PathDead()
                args2 = [self.operand(loc, a) for a in t['args']]
                r = self.call(t['callee'], args2, depth)
                self.write(loc, t['dest'], r)
                bb = t['target']
            elif k == 'unreachable':
                raise PathDead()
            else:
                raise Abstain('terminator %s' % k)

    def switch(self, loc, t):
        d = self.operand(loc, t['discr'])
        targets = t['targets']
        if isinstance(d, Bool):
            if d.val is not None:
                for v, b in targets:
                    if v == int(d.val):
                        return b
                return t['otherwise']
            if d.data:
                self.data_dependent = True
            alts = [(v, b) for v, b in targets] + [(None, t['otherwise'])]
            c = self.choose(len(alts))
            v, b = alts[c]
            truth = (v == 1) if v is not None else not any(x == 1 for x, _ in targets)
            if d.data:
                self.dd.append((d.cmp, truth))
            if d.cond is not None:
                kind, rf = d.cond
                NEG = {'eq0': ('ne0', 1), 'ne0': ('eq0', 1), 'gt0': ('ge0', -1), 'ge0': ('gt0', -1)}
                if truth:
                    self.assume.append((kind, rf))
                else:
                    nk, sg = NEG[kind]
                    self.assume.append((nk, rf if sg == 1 else -rf))
            return b
        if isinstance(d, Aff):
            if d.lin:
                self.data_dependent = True
                alts = [b for _, b in targets] + [t['otherwise']]
                return alts[self.choose(len(alts))]
            if d.c.is_const():
                x = d.c.const_value()
                for v, b in targets:
                    if x == v:
                        return b
                return t['otherwise']
            alts = [(v, b) for v, b in targets] + [(None, t['otherwise'])]
            c = self.choose(len(alts))
            v, b = alts[c]
            if v is not None:
                self.assume.append(('eq0', d.c - RF.const(v)))
            else:
                for x, _ in targets:
                    self.assume.append(('ne0', d.c - RF.const(x)))
            return b
        if isinstance(d, tuple) and d and d[0] == 'discr':
            o = d[1]
            names = d[2]
            for v, b in targets:
                if names.get(v) == o.variant or (o.variant is None):
                    if names.get(v) == o.variant:
                        return b
            return t['otherwise']
        self.data_dependent = True
        alts = [b for _, b in targets] + [t['otherwise']]
        return alts[self.choose(len(alts))]

    VARIANTS = {
        'std::result::Result': {0: 'Ok', 1: 'Err'},
        'std::option::Option': {0: 'None', 1: 'Some'},
        'std::ops::ControlFlow': {0: 'Continue', 1: 'Break'},
    }

    def rvalue(self, loc, r, body):
        k = r['r']
        if k == 'use':
            v = self.operand(loc, r['a'])
            return v
        if k in ('ref', 'rawptr'):
            s = self.slot(loc, r['pl'])
            if s is None:
                return TOP
            return Ref(s[0], s[1])
        if k == 'cast':
            v = self.operand(loc, r['a'])
            kind = r['kind'].split('(')[0]
            if isinstance(v, Bool) and kind == 'IntToInt':
                if v.val is not None:
                    return K(int(v.val), True)
                return Dim(0, True)
            if isinstance(v, Dim) and kind in ('IntToFloat', 'IntToInt', 'FloatToFloat'):
                return v
            if not isinstance(v, Aff):
                return TOP if not isinstance(v, Ref) else v
            if kind == 'IntToFloat':
                return Aff(v.lin, v.w, v.c, False, v.co)
            if kind == 'IntToInt' and not v.lin and BITS.get(r.get('to'), 64) < BITS.get(r.get('from'), 64):
                return self.narrow(v, r.get('to'))
            if kind == 'IntToInt' or kind == 'FloatToFloat':
                return v
            if kind == 'FloatToInt':
                if v.lin:
                    return TOP
                if v.c.is_poly() and p_integer_valued(v.c.n):
                    return K(v.c, True)
                return K(fresh('trunc', (v.c,), True), True)
            return TOP
        if k == 'bin':
            return self.binop(r['op'], self.operand(loc, r['a']), self.operand(loc, r['b']))
        if k == 'un':
            v = self.operand(loc, r['a'])
            if r['op'] == 'Neg' and isinstance(v, Aff):
                return Aff(v.lin, -v.w, -v.c, v.isint, {k: -x for k, x in v.co.items()} if v.co is not None else None)
            if r['op'] == 'Neg' and isinstance(v, Dim):
                return v
            if r['op'] == 'Not' and isinstance(v, Bool):
                c = v.cond
                if c is not None:
                    c = {'eq0': ('ne0', c[1]), 'ne0': ('eq0', c[1]), 'gt0': ('ge0', -c[1]), 'ge0': ('gt0', -c[1])}[c[0]]
                nc = None
                if v.cmp is not None:
                    nc = ({'Eq': 'Ne', 'Ne': 'Eq', 'Lt': 'Ge', 'Ge': 'Lt', 'Gt': 'Le', 'Le': 'Gt'}[v.cmp[0]], v.cmp[1], v.cmp[2])
                return Bool(None if v.val is None else not v.val, c, v.data, nc)
            return TOP
        if k == 'discr':
            v = self.read(loc, r['pl'])
            if isinstance(v, Obj) and v.variant is not None and v.kind in self.VARIANTS:
                return ('discr', v, self.VARIANTS[v.kind])
            return TOP
        if k == 'agg':
            ops = [self.operand(loc, x) for x in r['ops']]
            if r['kind'] == 'adt':
                return Obj(r['def'], dict(zip(r['fields'], ops)), r['variant'] if r.get('is_enum') else None)
            if r['kind'] == 'tuple':
                return Obj('tuple', {str(i): o for i, o in enumerate(ops)})
            if r['kind'] == 'closure':
                return Obj('closure', {str(i): o for i, o in enumerate(ops)}, r.get('id') or r.get('def'))
            if r['kind'] == 'array':
                return Obj('array', {str(i): o for i, o in enumerate(ops)})
            # any other aggregate is not modelled: what its reference operands point to is out of sight from now on
            for o in ops:
                self.havoc(o)
            return TOP
        return TOP

    # ---- calls -----------------------------------------------------------------------------------------------
    def call(self, c, args, depth):
        d = callee_def(c) or ''
        name = c.get('name') or d.rsplit('::', 1)[-1]
        a = [x.get() if isinstance(x, Ref) else x for x in args]
        # float intrinsics
        if '<impl f64>::' in d or '<impl f32>::' in d:
            if name == 'recip' and isinstance(a[0], Aff):
                return self.arith('Div', K(1), a[0])
            if name == 'mul_add' and len(a) == 3:
                return self.arith('Add', self.arith('Mul', a[0], a[1]), a[2])
            if name == 'sqrt' and isinstance(a[0], Aff) and not a[0].lin:
                return K(fresh('sqrt', (a[0].c,), False))
            if name in ('max', 'min') and all(isinstance(x, Aff) for x in a[:2]):
                if a[0].same(a[1]):
                    return a[0]
                return TOP
            if name == 'abs' and isinstance(a[0], Aff) and not a[0].lin:
                return K(fresh('abs', (a[0].c,), False))
            d0 = dim_of(a[0]) if a else None
            if name == 'abs' and d0 is not None:
                return Dim(d0.deg, d0.tinv)
            if name == 'sqrt' and d0 is not None:
                return Dim(d0.deg / 2, d0.tinv)
            if name in ('max', 'min') and len(a) == 2 and d0 is not None and dim_of(a[1]) is not None and dim_of(a[1]).deg == d0.deg:
                return Dim(d0.deg, d0.tinv and dim_of(a[1]).tinv)
            if name == 'mul_add' and len(a) == 3:
                return self.arith('Add', self.arith('Mul', a[0], a[1]), a[2])
            if name == 'recip' and d0 is not None:
                return Dim(-d0.deg, d0.tinv)
            return TOP
        # the circular buffer: one abstract element for all slots, the capacity as a configuration quantity
        if d.startswith(WINDOW + '::') or d.startswith(WINDOW + '<'):
            return self.window_call(name, args, a)
        tr = c.get('trait') or ''
        if tr.startswith(('std::ops::', 'core::ops::')) and name in ('add', 'sub', 'mul', 'div', 'rem', 'neg') \
                and all(isinstance(x, Aff) for x in a):
            if name == 'neg':
                return Aff(a[0].lin, -a[0].w, -a[0].c, a[0].isint, {k: -x for k, x in a[0].co.items()} if a[0].co is not None else None)
            return self.arith(name.capitalize(), a[0], a[1])
        if tr.startswith(('std::ops::', 'core::ops::')) and name.endswith('_assign') and len(args) == 2 \
                and isinstance(args[0], Ref) and all(isinstance(x, Aff) for x in a):
            args[0].box[args[0].key] = self.arith(name[:-7].capitalize(), a[0], a[1])
            return Obj('tuple', {})
        if name == 'branch' and (c.get('trait') or '').endswith('Try'):
            v = a[0]
            if isinstance(v, Obj) and v.variant in ('Ok', 'Some'):
                return Obj('std::ops::ControlFlow', {'0': v.f.get('0', TOP)}, 'Continue')
            if isinstance(v, Obj) and v.variant in ('Err', 'None'):
                return Obj('std::ops::ControlFlow', {'0': Obj(v.kind, dict(v.f), v.variant)}, 'Break')
            raise Abstain('? on an untracked value')
        if name == 'from_residual':
            v = a[0]
            if isinstance(v, Obj):
                return Obj(v.kind, dict(v.f), v.variant)
            raise Abstain('from_residual on an untracked value')
        if name == 'clone' and len(a) == 1:
            return copy.deepcopy(a[0])
        if name in ('from', 'into') and len(a) == 1 and isinstance(a[0], Aff):
            v = a[0]
            to_float = d.startswith(('<f64 as', '<f32 as')) or (name == 'into' and (c.get('args') or [None, None])[-1] in ('f64', 'f32'))
            return Aff(v.lin, v.w, v.c, False if to_float else v.isint, v.co)
        # integer helpers on configuration quantities: exact when the exact result fits the type for every accepted length
        im = re.match(r'^core::num::<impl (u8|u16|u32|u64|usize|i8|i16|i32|i64|isize)>::(saturating|wrapping|checked)_(add|sub|mul)$', d)
        if im and len(a) == 2 and all(isinstance(x, Aff) and not x.lin for x in a):
            ty, mode, op = im.groups()
            exact = self.arith(op.capitalize(), a[0], a[1])
            fits = isinstance(exact, Aff) and self.fits(exact.c, ty)
            if fits:
                res_v = Aff(False, ZERO, exact.c, True)
            else:
                res_v = K(fresh('%s_%s_%s' % (mode, op, ty), (a[0].c, a[1].c), True), True)
            if mode == 'checked':
                return Obj('std::option::Option', {'0': res_v}, 'Some') if fits else TOP
            return res_v
        sq = self.seq_call(d, name, tr, args, a, depth)
        if sq is not None:
            return sq
        res = c.get('res') or {}
        id_ = res.get('id')
        b = self.body(id_) if id_ else None
        if b is None and c.get('local'):
            b = self.body('G:' + d) or self.body(d)
        if b is not None:
            try:
                return self.call_fn(b, args, depth + 1)
            except LoopAbstain:
                # a loop inside a callee: the callee is treated like a function without a body (result unknown, everything it could
                # reach through a reference forgotten); a loop in the analysed function itself still makes the rule abstain
                d = d + ' (loop)'
        # unknown callee: result unknown, everything reachable through a reference argument forgotten
        self.unknown_calls.add(d)
        for x in args:
            self.havoc(x)
        return TOP

    def apply_fn(self, fn, fargs, depth):
        """call a closure value / function item on abstract arguments"""
        if isinstance(fn, Obj) and fn.kind == 'closure' and fn.variant:
            b = self.body(fn.variant) or self.body('G:' + fn.variant)
            if b is None:
                return TOP
            box = {'c': fn}
            try:
                return self.call_fn(b, [Ref(box, 'c')] + list(fargs), depth + 1)
            except LoopAbstain:
                return TOP
        if isinstance(fn, Obj) and fn.kind == 'fnitem' and fn.variant:
            d = fn.variant
            c = {'def': d, 'name': d.rsplit('::', 1)[-1], 'trait': None, 'local': False, 'res': {'id': d, 'def': d}}
            return self.call(c, list(fargs), depth + 1)
        return TOP

    def seq_call(self, d, name, tr, args, a, depth):
        """iterator chains over the window: a sequence is one abstract element (every element has that abstract value)"""
        if (d.startswith(WINDOW + '::') or d.startswith(WINDOW + '<')) and name in ('iter', 'iter_rev', 'as_slice') and a and isinstance(a[0], Obj) and a[0].kind == WINDOW:
            return Obj('seq', {'elem': a[0].f.get('elem', TOP)})
        if not a or not isinstance(a[0], Obj) or a[0].kind != 'seq':
            return None
        sq = a[0]
        el = sq.f.get('elem', TOP)
        if name in ('iter', 'into_iter', 'rev', 'copied', 'cloned', 'skip', 'take', 'by_ref', 'as_ref', 'deref', 'borrow', 'peekable', 'fuse'):
            return Obj('seq', {'elem': el})
        if name == 'map' and len(a) == 2:
            return Obj('seq', {'elem': self.apply_fn(a[1], [el], depth)})
        if name in ('sum', 'product'):
            dd = dim_of(el)
            if dd is None:
                return TOP
            return Dim(dd.deg, dd.tinv) if name == 'sum' else TOP
        if name == 'fold' and len(a) == 3:
            acc = a[1]
            for _ in range(2):
                nxt = self.apply_fn(a[2], [acc, el], depth)
                acc = join(acc, nxt) if not (isinstance(acc, Aff) and not acc.lin and acc.c.is_zero()) else nxt
            return acc
        if name in ('max_by', 'min_by', 'last', 'next', 'nth', 'max', 'min', 'reduce', 'find'):
            return TOP
        return TOP

    def havoc(self, x, depth=0):
        """forget everything reachable through a reference (an unknown callee may have written it)"""
        if depth > 6:
            return
        if isinstance(x, Ref):
            tgt = x.get()
            if isinstance(tgt, Obj):
                for v in list(tgt.f.values()):
                    if isinstance(v, (Ref, Obj)):
                        self.havoc(v, depth + 1)
            x.box[x.key] = TOP
        elif isinstance(x, Obj):
            for v in list(x.f.values()):
                if isinstance(v, (Ref, Obj)):
                    self.havoc(v, depth + 1)

    def window_call(self, name, args, a):
        if name == 'new' and len(a) == 2:
            return Obj(WINDOW, {'elem': a[1], 'cap': a[0]})
        if name == 'empty':
            return Obj(WINDOW, {'elem': TOP, 'cap': K(0, True)})
        w = a[0] if a else TOP
        if not isinstance(w, Obj) or w.kind != WINDOW:
            return TOP
        if name == 'push' and len(a) == 2:
            old = w.f.get('elem', TOP)
            w.f['elem'] = join(old, a[1])
            if self.label_popped and isinstance(old, Aff) and old.lin:
                # explicit-coefficient mode: the element leaving the window is an atom of its own; what was pushed is remembered
                self.pushed.append(a[1])
                return Aff(True, old.w, old.c, False, {'popped': ONE})
            return old
        if name in ('iter', 'iter_rev', 'as_slice'):
            return Obj('seq', {'elem': w.f.get('elem', TOP)})
        if name in ('newest', 'oldest', 'index'):
            return w.f.get('elem', TOP)
        if name == 'get':
            return Obj('std::option::Option', {'0': w.f.get('elem', TOP)}, None)
        if name == 'len':
            return w.f.get('cap', TOP)
        if name == 'is_empty':
            cap = w.f.get('cap', TOP)
            if isinstance(cap, Aff) and not cap.lin:
                if cap.c.is_const():
                    return Bool(cap.c.const_value() == 0)
                return Bool(None, ('eq0', cap.c))
            return Bool(None)
        for x in args:
            if isinstance(x, Ref) and name.startswith(('iter_mut', 'as_mut')):
                x.box[x.key] = TOP
        return TOP


def explore(facts, fn_body, mk_args, limit=64, label_popped=False):
    """run fn_body on every decision script; yields (run, args, result) per path"""
    pending = [[]]
    out = []
    while pending:
        script = pending.pop()
        if len(out) >= limit:
            raise Abstain('too many paths')
        run = Run(facts, script)
        run.label_popped = label_popped
        args = mk_args()
        dead = False
        try:
            res = run.call_fn(fn_body, args)
        except PathDead:
            dead = True
        # siblings of decisions taken beyond the given prefix
        for i in range(len(script), len(run.script)):
            for alt in range(1, run.branching[i]):
                pending.append(run.script[:i] + [alt])
        if not dead:
            out.append((run, args, res))
    return out
