"""MIR-level inlining of crate-local private helper functions.

Rules that reason about "what next() does on every path" (step counts, stores to self fields, returned value, decisions) should not
depend on whether a maintainer wrote the code inline or moved a piece into a private helper.  `inlined(f, bj, depth)` returns a body
dict in which every call to a crate-local function that has a generic MIR body (and is not recursive, not a trait method dispatched
on a type parameter) is replaced by the callee's blocks: parameters become fresh locals assigned from the arguments, `return` becomes
an assignment of the callee's _0 to the call destination followed by a goto to the call's target.

The result has the same JSON shape as a dumped body, so `mir.Body`, `paths.PathFacts` and `symexec.PathSym` work on it unchanged.
Statement spans keep their original file lines; `inlined_from` on a block records the callee it came from."""
import copy

MAX_BLOCKS = 400


def _remap_place(pl, lm):
    if pl is None:
        return pl
    out = dict(pl)
    out['l'] = lm(pl['l'])
    if pl.get('p'):
        np_ = []
        for e in pl['p']:
            if e.get('p') == 'index' and 'local' in e:
                e = dict(e)
                e['local'] = lm(e['local'])
            np_.append(e)
        out['p'] = np_
    return out


def _remap_operand(o, lm):
    if o is None:
        return o
    if o.get('o') in ('copy', 'move') and 'pl' in o:
        o = dict(o)
        o['pl'] = _remap_place(o['pl'], lm)
    return o


def _remap_rvalue(r, lm):
    r = dict(r)
    for k in ('a', 'b'):
        if isinstance(r.get(k), dict) and 'o' in r[k]:
            r[k] = _remap_operand(r[k], lm)
    if 'pl' in r and isinstance(r['pl'], dict):
        r['pl'] = _remap_place(r['pl'], lm)
    if 'ops' in r and isinstance(r['ops'], list):
        r['ops'] = [_remap_operand(x, lm) for x in r['ops']]
    return r


def _remap_stmt(s, lm):
    s = dict(s)
    if 'pl' in s and isinstance(s['pl'], dict):
        s['pl'] = _remap_place(s['pl'], lm)
    if 'rv' in s and isinstance(s['rv'], dict):
        s['rv'] = _remap_rvalue(s['rv'], lm)
    return s


def _remap_term(t, lm, bm):
    t = dict(t)
    k = t['t']
    if k == 'goto':
        t['target'] = bm(t['target'])
    elif k == 'switch':
        t['discr'] = _remap_operand(t['discr'], lm)
        t['targets'] = [(v, bm(b)) for v, b in t['targets']]
        t['otherwise'] = bm(t['otherwise'])
    elif k == 'call':
        t['args'] = [_remap_operand(a, lm) for a in t['args']]
        t['dest'] = _remap_place(t['dest'], lm)
        if t.get('target') is not None:
            t['target'] = bm(t['target'])
        c = t.get('callee') or {}
        if c.get('fn_op') is not None:
            c = dict(c)
            c['fn_op'] = _remap_operand(c['fn_op'], lm)
            t['callee'] = c
    elif k in ('assert', 'drop'):
        for kk in ('cond',):
            if isinstance(t.get(kk), dict) and 'o' in t[kk]:
                t[kk] = _remap_operand(t[kk], lm)
        if isinstance(t.get('pl'), dict):
            t['pl'] = _remap_place(t['pl'], lm)
        if t.get('target') is not None:
            t['target'] = bm(t['target'])
    return t


def _callee_body(f, t, caller_def, caller_generic=True):
    c = t['callee']
    if not c.get('local') or c.get('def') is None:
        return None
    res = c.get('res')
    d = (res or {}).get('def') or c['def']
    if res is None and c.get('trait'):
        return None                 # a trait method of a type parameter: not a fixed function
    if d == caller_def:
        return None
    fn = f.fns.get(d)
    gb = None
    if not caller_generic and res and res.get('id') in f.bodies and not f.bodies[res['id']]['generic']:
        gb = f.bodies[res['id']]    # the monomorphic instance the (monomorphic) caller really calls: its trait calls are resolved
    if gb is None:
        gb = f.generic_body(d)
    if gb is None or gb.get('closure_of'):
        return None
    if d.startswith('<') and ' as ' in d.split('>::')[0]:
        # a trait impl method: inlined only for crate-private traits (`trait Direction { fn reaches(..) }`); methods of the public
        # traits (Method::next of a sub-method, OHLCV accessors, ...) are steps / contracts, not helpers
        tr = d.split(' as ', 1)[1].split('>::')[0].split('<')[0]
        trec = f.traits.get(tr)
        if trec is None or trec.get('vis') == 'pub':
            return None
        return gb
    # inherent / free private helpers and private trait-less associated functions; public API functions stay calls (their contracts are rules of their own)
    if fn is not None and fn.get('vis') == 'pub':
        return None
    return gb


def inlined(f, bj, depth=2, _stack=(), only_mut=False):
    """body dict with private crate-local helpers inlined (up to `depth` levels)"""
    if depth <= 0:
        return bj
    blocks = [dict(b) for b in bj['blocks']]
    locals_ = list(bj['locals'])
    changed = False
    i = 0
    while i < len(blocks):
        if len(blocks) > MAX_BLOCKS:
            break
        t = blocks[i]['term']
        if t['t'] == 'call' and t.get('target') is not None:
            gb = _callee_body(f, t, bj['def'], bj.get('generic', True))
            if gb is not None and only_mut and not any(gb['locals'][k]['ty'].startswith(('&mut', '*mut')) for k in range(1, gb['arg_count'] + 1)):
                gb = None           # a pure helper stays an opaque call (the same expression wherever it is used)
            if gb is not None and gb['def'] not in _stack and gb['arg_count'] == len(t['args']):
                cb = inlined(f, gb, depth - 1, _stack + (bj['def'],), only_mut)
                loff = len(locals_)
                boff = len(blocks)
                lm = lambda l, loff=loff: l + loff
                bm = lambda b, boff=boff: b + boff
                for li, l in enumerate(cb['locals']):
                    l2 = dict(l)
                    if 1 <= li <= cb['arg_count']:
                        l2['name'] = None       # a parameter of the inlined helper is a temporary of the caller: value trees look through it
                    locals_.append(l2)
                # arguments -> the callee's parameter locals
                sp = blocks[i].get('sp') or {}
                stmts = list(blocks[i]['stmts'])
                for k, a in enumerate(t['args']):
                    stmts.append({'s': 'assign', 'pl': {'l': loff + 1 + k, 'p': [], 'ty': cb['locals'][1 + k]['ty']},
                                  'rv': {'r': 'use', 'a': a}, 'sp': sp, 'inline_arg': True})
                blocks[i] = dict(blocks[i], stmts=stmts, term={'t': 'goto', 'target': boff})
                for cblk in cb['blocks']:
                    nb = dict(cblk)
                    nb['stmts'] = [_remap_stmt(s, lm) for s in cblk['stmts']]
                    ct = cblk['term']
                    if ct['t'] == 'return':
                        nb['stmts'] = nb['stmts'] + [{'s': 'assign', 'pl': t['dest'], 'rv': {'r': 'use', 'a': {'o': 'move', 'pl': {'l': loff, 'p': [], 'ty': cb['locals'][0]['ty']}}},
                                                     'sp': cblk.get('sp') or sp, 'inline_ret': True}]
                        nb['term'] = {'t': 'goto', 'target': t['target']}
                    else:
                        nb['term'] = _remap_term(ct, lm, bm)
                    nb['inlined_from'] = cb['def']
                    blocks.append(nb)
                changed = True
        i += 1
    if not changed and _stack:
        return bj
    out = dict(bj)
    out['blocks'] = blocks
    out['locals'] = locals_
    out['inlined'] = changed
    if not _stack:
        _propagate_reference_aliases(out)
    return out


def _propagate_reference_aliases(bj):
    """`_p = &mut (*_1).value; ...; *_p = x`  ==>  `(*_1).value = x`: a reference local with a single definition that borrows a place is
    replaced, where it is dereferenced, by that place.  After inlining, the `&mut self.field` arguments of a helper make the helper's
    stores and reads direct accesses to the caller's fields."""
    blocks = bj['blocks']
    ndefs = {}
    refdef = {}
    for blk in blocks:
        for s in blk['stmts']:
            if s.get('s') == 'assign' and not s['pl'].get('p'):
                l = s['pl']['l']
                ndefs[l] = ndefs.get(l, 0) + 1
                rv = s['rv']
                if rv.get('r') == 'ref' and isinstance(rv.get('pl'), dict):
                    refdef[l] = ('place', rv['pl'])
                elif rv.get('r') == 'use' and rv['a'].get('o') in ('move', 'copy') and not rv['a']['pl'].get('p'):
                    refdef[l] = ('copy', rv['a']['pl']['l'])
                else:
                    refdef.pop(l, None)
        t = blk['term']
        if t['t'] == 'call' and not t['dest'].get('p'):
            ndefs[t['dest']['l']] = ndefs.get(t['dest']['l'], 0) + 1
    nargs = bj['arg_count']
    alias = {}

    def resolve(l, depth=0):
        if l in alias:
            return alias[l]
        if depth > 8 or ndefs.get(l, 0) != 1 or l not in refdef or 1 <= l <= nargs:
            return None
        if not bj['locals'][l]['ty'].startswith('&'):
            return None
        kind, x = refdef[l]
        if kind == 'copy':
            r = resolve(x, depth + 1)
        else:
            r = subst_place(x, depth + 1)
        if r is not None:
            alias[l] = r
        return r

    def subst_place(pl, depth=0):
        """the place with a leading deref of an aliased reference local replaced by the borrowed place"""
        p = pl.get('p') or []
        if p and p[0].get('p') == 'deref':
            base = resolve(pl['l'], depth)
            if base is not None:
                return {'l': base['l'], 'p': list(base.get('p') or []) + list(p[1:]), 'ty': pl.get('ty')}
        return pl

    def fix_operand(o):
        if isinstance(o, dict) and o.get('o') in ('copy', 'move') and 'pl' in o:
            np_ = subst_place(o['pl'])
            if np_ is not o['pl']:
                o = dict(o, pl=np_)
        return o

    for blk in blocks:
        new_stmts = []
        for s in blk['stmts']:
            if s.get('s') == 'assign':
                s = dict(s)
                if s['pl'].get('p'):
                    s['pl'] = subst_place(s['pl'])
                rv = dict(s['rv'])
                for k in ('a', 'b'):
                    if isinstance(rv.get(k), dict) and 'o' in rv[k]:
                        rv[k] = fix_operand(rv[k])
                if isinstance(rv.get('pl'), dict):
                    rv['pl'] = subst_place(rv['pl'])
                if isinstance(rv.get('ops'), list):
                    rv['ops'] = [fix_operand(x) for x in rv['ops']]
                s['rv'] = rv
            new_stmts.append(s)
        blk['stmts'] = new_stmts
        t = blk['term']
        if t['t'] == 'call':
            t = dict(t)
            t['args'] = [fix_operand(a) for a in t['args']]
            if t['dest'].get('p'):
                t['dest'] = subst_place(t['dest'])
            blk['term'] = t
        elif t['t'] == 'switch':
            blk['term'] = dict(t, discr=fix_operand(t['discr']))
