"""MIR-level inlining of crate-local private helper functions.

Rules that reason about "what next() does on every path" (step counts, stores to self fields, returned value, decisions) should not
depend on whether a maintainer wrote the code inline or moved a piece into a private helper.  `inlined(f, bj, depth)` returns a body
dict in which every call to a crate-local function that has a generic MIR body (and is not recursive, not a trait method dispatched
on a type parameter) is replaced by the callee's blocks: parameters become fresh locals assigned from the arguments, `return` becomes
an assignment of the callee's _0 to the call destination followed by a goto to the call's target.

The result has the same JSON shape as a dumped body, so `mir.Body`, `paths.PathFacts` and `symexec.PathSym` work on it unchanged.
Statement spans keep their original file lines; `inlined_from` on a block records the callee it came from."""
import copy

MAX_BLOCKS = 400


def _remap_place(pl, lm):
    if pl is None:
        return pl
    out = dict(pl)
    out['l'] = lm(pl['l'])
    if pl.get('p'):
        np_ = []
        for e in pl['p']:
            if e.get('p') == 'index' and 'local' in e:
                e = dict(e)
                e['local'] = lm(e['local'])
            np_.append(e)
        out['p'] = np_
    return out


def _remap_operand(o, lm):
    if o is None:
        return o
    if o.get('o') in ('copy', 'move') and 'pl' in o:
        o = dict(o)
        o['pl'] = _remap_place(o['pl'], lm)
    return o


def _remap_rvalue(r, lm):
    r = dict(r)
    for k in ('a', 'b'):
        if isinstance(r.get(k), dict) and 'o' in r[k]:
            r[k] = _remap_operand(r[k], lm)
    if 'pl' in r and isinstance(r['pl'], dict):
        r['pl'] = _remap_place(r['pl'], lm)
    if 'ops' in r and isinstance(r['ops'], list):
        r['ops'] = [_remap_operand(x, lm) for x in r['ops']]
    return r


def _remap_stmt(s, lm):
    s = dict(s)
    if 'pl' in s and isinstance(s['pl'], dict):
        s['pl'] = _remap_place(s['pl'], lm)
    if 'rv' in s and isinstance(s['rv'], dict):
        s['rv'] = _remap_rvalue(s['rv'], lm)
    return s


def _remap_term(t, lm, bm):
    t = dict(t)
    k = t['t']
    if k == 'goto':
        t['target'] = bm(t['target'])
    elif k == 'switch':
        t['discr'] = _remap_operand(t['discr'], lm)
        t['targets'] = [(v, bm(b)) for v, b in t['targets']]
        t['otherwise'] = bm(t['otherwise'])
    elif k == 'call':
        t['args'] = [_remap_operand(a, lm) for a in t['args']]
        t['dest'] = _remap_place(t['dest'], lm)
        if t.get('target') is not None:
            t['target'] = bm(t['target'])
        c = t.get('callee') or {}
        if c.get('fn_op') is not None:
            c = dict(c)
            c['fn_op'] = _remap_operand(c['fn_op'], lm)
            t['callee'] = c
    elif k in ('assert', 'drop'):
        for kk in ('cond',):
            if isinstance(t.get(kk), dict) and 'o' in t[kk]:
                t[kk] = _remap_operand(t[kk], lm)
        if isinstance(t.get('pl'), dict):
            t['pl'] = _remap_place(t['pl'], lm)
        if t.get('target') is not None:
            t['target'] = bm(t['target'])
    return t


def _callee_body(f, t, caller_def):
    c = t['callee']
    if not c.get('local') or c.get('def') is None:
        return None
    res = c.get('res')
    d = (res or {}).get('def') or c['def']
    if res is None and c.get('trait'):
        return None                 # a trait method of a type parameter: not a fixed function
    if d == caller_def:
        return None
    fn = f.fns.get(d)
    gb = f.generic_body(d)
    if gb is None or gb.get('closure_of'):
        return None
    # inherent / free private helpers and private trait-less associated functions; public API functions stay calls (their contracts are rules of their own)
    if fn is not None and fn.get('vis') == 'pub':
        return None
    if d.startswith('<') and ' as ' in d.split('>::')[0]:
        return None                 # a trait impl method (Method::next of a sub-method, ...): a step, not a helper
    return gb


def inlined(f, bj, depth=2, _stack=()):
    """body dict with private crate-local helpers inlined (up to `depth` levels)"""
    if depth <= 0:
        return bj
    blocks = [dict(b) for b in bj['blocks']]
    locals_ = list(bj['locals'])
    changed = False
    i = 0
    while i < len(blocks):
        if len(blocks) > MAX_BLOCKS:
            break
        t = blocks[i]['term']
        if t['t'] == 'call' and t.get('target') is not None:
            gb = _callee_body(f, t, bj['def'])
            if gb is not None and gb['def'] not in _stack and gb['arg_count'] == len(t['args']):
                cb = inlined(f, gb, depth - 1, _stack + (bj['def'],))
                loff = len(locals_)
                boff = len(blocks)
                lm = lambda l, loff=loff: l + loff
                bm = lambda b, boff=boff: b + boff
                for li, l in enumerate(cb['locals']):
                    l2 = dict(l)
                    if 1 <= li <= cb['arg_count']:
                        l2['name'] = None       # a parameter of the inlined helper is a temporary of the caller: value trees look through it
                    locals_.append(l2)
                # arguments -> the callee's parameter locals
                sp = blocks[i].get('sp') or {}
                stmts = list(blocks[i]['stmts'])
                for k, a in enumerate(t['args']):
                    stmts.append({'s': 'assign', 'pl': {'l': loff + 1 + k, 'p': [], 'ty': cb['locals'][1 + k]['ty']},
                                  'rv': {'r': 'use', 'a': a}, 'sp': sp, 'inline_arg': True})
                blocks[i] = dict(blocks[i], stmts=stmts, term={'t': 'goto', 'target': boff})
                for cblk in cb['blocks']:
                    nb = dict(cblk)
                    nb['stmts'] = [_remap_stmt(s, lm) for s in cblk['stmts']]
                    ct = cblk['term']
                    if ct['t'] == 'return':
                        nb['stmts'] = nb['stmts'] + [{'s': 'assign', 'pl': t['dest'], 'rv': {'r': 'use', 'a': {'o': 'move', 'pl': {'l': loff, 'p': [], 'ty': cb['locals'][0]['ty']}}},
                                                     'sp': cblk.get('sp') or sp, 'inline_ret': True}]
                        nb['term'] = {'t': 'goto', 'target': t['target']}
                    else:
                        nb['term'] = _remap_term(ct, lm, bm)
                    nb['inlined_from'] = cb['def']
                    blocks.append(nb)
                changed = True
        i += 1
    if not changed:
        return bj
    out = dict(bj)
    out['blocks'] = blocks
    out['locals'] = locals_
    out['inlined'] = True
    return out
