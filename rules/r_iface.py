"""C11 rules: S13 result arity, S14 `set` arms, S15 naming and dyn forwarding."""
import re

from engine import RuleResult, Broken
from model import Model, T_CONFIG, T_INSTANCE
from mir import Body, callee_def, callee_id, callee_is, self_field_of_place, walk_tree, tree_str, strip_generics
from paths import enumerate_paths, result_variant_on_path, path_ends_in_return, TooManyPaths

PARSE_DEFS = ('core::str::<impl str>::parse', 'std::str::FromStr::from_str', 'std::convert::TryFrom::try_from',
              'std::convert::TryInto::try_into')
# calls that hand the Ok payload through unchanged
OK_PRESERVING = ('std::ops::Try::branch', 'std::result::Result::<T, E>::map_err', 'std::result::Result::<T, E>::or',
                 'std::result::Result::<T, E>::or_else')


def _ok_preserving(d):
    if d in OK_PRESERVING or d.endswith('as std::ops::Try>::branch'):
        return True
    last = d.rsplit('::', 1)[-1].split('<')[0]
    # the good payload passes through unchanged: Result::{map_err, or_else, ok}, Option::{ok_or, ok_or_else, or, or_else}
    if 'Result' in d and last in ('map_err', 'or_else', 'ok'):
        return True
    if 'Option' in d and last in ('ok_or', 'ok_or_else', 'or', 'or_else'):
        return True
    return False


def _const_tuples_returned(body):
    """Set of constant tuples assigned to _0 (None entries if not constant)."""
    out = set()
    for bi, si, s in body.stmts():
        if s['s'] == 'assign' and s['pl']['l'] == 0 and not s['pl']['p']:
            t = body.tree_of_rvalue(s['rv'])
            if t[0] == 'agg' and t[1] == 'tuple' and all(x[0] == 'const' and isinstance(x[2], int) for x in t[3]):
                out.add(tuple(x[2] for x in t[3]))
            else:
                out.add(None)
    for bi, t in body.calls():
        if t['dest']['l'] == 0:
            out.add(None)
    return out


def _array_len(ty):
    m = re.match(r'^&(?:mut )?\[(.*); (\d+)\]$', ty)
    return int(m.group(2)) if m else None


def _result_new_sites(model, body, seen=None, depth=0):
    """Call sites of IndicatorResult::new reachable from body through crate-local callees."""
    if seen is None:
        seen = set()
    sites = []
    for bi, t in body.calls():
        c = t['callee']
        d = callee_def(c) or ''
        if d.endswith('indicator::result::IndicatorResult::new'):
            sites.append((body, bi, t))
        elif c.get('res') and c['res'].get('local') and depth < 4:
            cid = c['res']['id']
            if cid in seen:
                continue
            seen.add(cid)
            cb = model.body_by_id(cid)
            if cb is not None:
                sites.extend(_result_new_sites(model, cb, seen, depth + 1))
    return sites


def s13_result_arity(ctx):
    f = ctx.facts()
    m = Model(f)
    r = RuleResult('S13', 'every IndicatorResult::new call in next() has the arity announced by size()')
    size_const = f.consts.get('core::indicator::result::IndicatorResult::SIZE')
    if not size_const or not size_const.get('value') or size_const['value'].get('c') != 'scalar':
        raise Broken('IndicatorResult::SIZE not found')
    SIZE = size_const['value']['bits']
    n_cfg = 0
    n_sites = 0
    provided_cfg = {i['name'] for i in f.traits[T_CONFIG]['items'] if i['has_default'] and i['kind'] == 'Fn'}
    provided_inst = {i['name'] for i in f.traits[T_INSTANCE]['items'] if i['has_default'] and i['kind'] == 'Fn'}
    for ci in m.config_impls:
        name = m.short(ci)
        n_cfg += 1
        sb = m.body(m.impl_fn_path(ci, 'size'))
        if sb is None:
            raise Broken('no body for %s::size' % name)
        tuples = _const_tuples_returned(sb)
        r.inst(name + '|size')
        if len(tuples) != 1 or None in tuples:
            r.undecided.append('%s::size is not a single constant tuple: %s' % (name, tuples))
            r.violate('%s|size|non-constant' % name, 'size() does not return one constant tuple on every path; '
                      'the arity of results cannot be compared with it', sb.file, sb.line)
            continue
        size = next(iter(tuples))
        for i, v in enumerate(size):
            if v > SIZE:
                r.violate('%s|size|exceeds-SIZE|%d' % (name, i), 'size() announces %d > IndicatorResult::SIZE=%d '
                          '(IndicatorResult::new silently truncates)' % (v, SIZE), sb.file, sb.line)
        ii = m.instance_impl_for_config(ci)
        if ii is None:
            raise Broken('no IndicatorInstance impl for the Instance type of %s' % name)
        # overrides of provided methods
        for it in ci['items']:
            if it['kind'] == 'Fn' and it['name'] in provided_cfg and it['name'] in ('name',):
                r.violate('%s|override|%s' % (name, it['name']), 'config overrides provided method %s(): name()==NAME is no longer '
                          'guaranteed by the trait default' % it['name'], ci['file'], ci['line'])
        for it in ii['items']:
            if it['kind'] == 'Fn' and it['name'] in provided_inst and it['name'] in ('size', 'name'):
                r.violate('%s|instance-override|%s' % (name, it['name']), 'instance overrides provided method %s()' % it['name'],
                          ii['file'], ii['line'])
        nb = m.body(m.impl_fn_path(ii, 'next'))
        if nb is None:
            raise Broken('no body for next of %s' % name)
        sites = _result_new_sites(m, nb)
        if not sites:
            r.violate('%s|next|no-result-site' % name, 'next() reaches no IndicatorResult::new call; result shape undecided', nb.file, nb.line)
            continue
        for (b, bi, t) in sites:
            n_sites += 1
            lens = []
            for a in t['args']:
                tr = b.tree_of_operand(a)
                ln = None
                if tr[0] == 'cast' and tr[1] == 'PointerCoercion':
                    ln = _array_len(tr[3])
                lens.append(ln)
            key = '%s|next|result-arity' % name
            r.inst('%s@%s' % (key, b.id), True)
            line = b.term_line(bi)
            r.sample({'config': name, 'size()': list(size), 'IndicatorResult::new arg array lengths': lens,
                      'site': '%s:%d' % (b.file, line)})
            if None in lens:
                r.violate('%s|next|non-constant-slice' % name, 'IndicatorResult::new is called with a slice whose length is not a '
                          'compile-time array length; arity undecided', b.file, line)
                continue
            if tuple(lens) != tuple(size):
                r.violate(key + '|%s-vs-%s' % (tuple(lens), tuple(size)), 'next() builds a result with (values, signals) = %s but size() '
                          'announces %s' % (tuple(lens), tuple(size)), b.file, line)
    r.floor('configs', 37, n_cfg)
    r.floor('IndicatorResult::new sites', 37, n_sites)
    r.info['IndicatorResult::SIZE'] = SIZE
    return r


# ---------------------------------------------------------------------------------------


def _ok_payload_call(tree):
    """If `tree` is the Ok/Continue/Some payload of a (chain of payload-preserving wrappers around a) call, return that innermost
    call tree; else None.  Wrappers: `?` (Try::branch), map_err / or_else, re-wrapping `Ok(x)` / `Some(x)`, and taking the payload again."""
    t = tree
    saw_payload = False
    for _ in range(24):
        while isinstance(t, tuple) and t and t[0] in ('ref', 'deref'):
            t = t[1]
        if t[0] == 'field' and t[2] == '0' and t[1][0] == 'as' and t[1][2] in ('Ok', 'Continue', 'Some'):
            t = t[1][1]
            saw_payload = True
            continue
        if t[0] == 'call' and _ok_preserving(t[4]) and t[2]:
            t = t[2][0]
            continue
        if t[0] == 'agg' and t[1] == 'adt' and str(t[2]).endswith(('Result::Ok', 'Option::Some')) and len(t[3]) == 1:
            t = t[3][0]
            continue
        break
    return t if (saw_payload and t[0] == 'call') else None


def _parse_through_helper(f, call, value_arg, depth=0):
    """`call` invokes a crate-local helper with the value text; on every returning path the helper returns either the Ok payload of
    parsing that parameter (possibly through map_err / ?) or an Err: then the payload the caller stores is the parsed text"""
    if depth >= 2 or call[0] != 'call':
        return False
    hb = f.generic_body(call[4])
    if hb is None:
        return False
    ks = [k + 1 for k, a in enumerate(call[2]) if _mentions_arg(a, value_arg)]
    if not ks:
        return False
    hbody = Body(hb)
    saw_ok = False
    for p in enumerate_paths(hbody):
        if not path_ends_in_return(hbody, p):
            continue
        from paths import PathFacts
        pf = PathFacts(hbody, p)
        ret = pf.ret
        if ret is None:
            return False
        t = ret
        for _ in range(6):
            if t[0] == 'call' and _ok_preserving(t[4]):
                t = t[2][0]
                continue
            break
        if t[0] == 'call' and (_is_parse_call(t) or _parse_through_helper(f, t, ks[0], depth + 1)) and any(_mentions_arg(t, k) for k in ks):
            saw_ok = True
            continue
        if t[0] == 'agg' and str(t[2]).endswith('Result::Err'):
            continue
        if t[0] == 'agg' and str(t[2]).endswith('Result::Ok') and t[3]:
            inner = _ok_payload_call(t[3][0])
            if inner is not None and (_is_parse_call(inner) or _parse_through_helper(f, inner, ks[0], depth + 1)) and any(_mentions_arg(inner, k) for k in ks):
                saw_ok = True
                continue
        return False
    return saw_ok


def _last(s):
    return strip_generics(s).rsplit('::', 1)[-1]


def _is_parse_call(call_tree):
    return call_tree[4] in PARSE_DEFS or any(call_tree[4].endswith('::' + p.rsplit('::', 2)[-2] + '>::' + p.rsplit('::', 1)[-1]) for p in PARSE_DEFS)


def _mentions_arg(tree, idx):
    return any(t[0] == 'arg' and t[1] == idx for t in walk_tree(tree))


def _reaches_literal_tests(f, body, depth=0, seen=None):
    """does the function or a crate-local function it calls compare a string with a literal (`==`, `!=`, `match` on &str)?"""
    if seen is None:
        seen = set()
    if body is None or body.id in seen or depth > 3:
        return False
    seen.add(body.id)
    for bi, t in body.calls():
        c = t['callee']
        nm = c.get('name')
        d = callee_def(c) or ''
        if nm in ('eq', 'ne') and 'PartialEq' in (c.get('trait') or d):
            for a in t['args']:
                tr = body.tree_of_operand(a)
                if any(isinstance(x, tuple) and x and (x[0] == 'str' or (x[0] == 'const' and len(x) > 2 and x[2] == 'promoted')) for x in walk_tree(tr)):
                    return True
        if c.get('local') and c.get('def'):
            hb = f.generic_body(d)
            if hb is not None and _reaches_literal_tests(f, Body(hb), depth + 1, seen):
                return True
    return False


def _self_field_through_pointer(body, pl, env):
    """`*target = v` where, on this path, `target = &mut self.a.b`: ['a', 'b'] (the arm chose the field, one shared store writes it)"""
    if pl['l'] <= body.arg_count or not pl['p'] or pl['p'][0]['p'] != 'deref':
        return None
    loc = body.tree_of_place(pl, 0, env)
    names = []
    while isinstance(loc, tuple) and loc and loc[0] == 'field':
        names.append(loc[2])
        loc = loc[1]
    while isinstance(loc, tuple) and loc and loc[0] in ('deref', 'ref'):
        loc = loc[1]
    if names and isinstance(loc, tuple) and loc[:2] == ('arg', 1):
        return list(reversed(names))
    return None


def s14_set_arms(ctx):
    f = ctx.facts()
    m = Model(f)
    r = RuleResult('S14', 'set(name, text): one arm per public parameter, writing only that parameter from the parsed text; '
                          'Err and no write otherwise')
    n_cfg = n_fields = n_arms = 0
    n_table_driven = 0
    for ci in m.config_impls:
        cname = m.short(ci)
        adt = m.adt_of_impl(ci)
        if adt is None or len(adt['variants']) != 1:
            raise Broken('config %s is not a struct' % cname)
        n_cfg += 1
        fields = adt['variants'][0]['fields']
        pub = [x['name'] for x in fields if x['vis'] == 'pub']
        allf = [x['name'] for x in fields]
        n_fields += len(pub)
        body = m.body_inlined(m.impl_fn_path(ci, 'set'), prefer_mono=True)
        if body is None:
            raise Broken('no body for %s::set' % cname)
        # locate name/value args: by type (&str, String)
        name_arg = value_arg = None
        for i in range(1, body.arg_count + 1):
            ty = body.local_ty(i)
            if ty == '&str' and name_arg is None:
                name_arg = i
            elif ty == 'std::string::String':
                value_arg = i
        if name_arg is None or value_arg is None:
            raise Broken('%s::set has an unexpected signature' % cname)
        try:
            paths = enumerate_paths(body)
        except TooManyPaths:
            raise Broken('%s::set: too many paths' % cname)
        # per path: literal constraints, writes, variant
        arms = {}       # literal -> list of path infos
        default = []
        for p in paths:
            if not path_ends_in_return(body, p):
                continue
            from paths import PathFacts as _PF
            pfp = _PF(body, p)
            if pfp.infeasible:
                continue        # contradicts an enum / boolean value the path itself fixed (name looked up through an inlined helper)
            env = pfp.env
            true_lits, false_lits = [], []
            other_conds = 0
            for a, b in zip(p, p[1:]):
                t = body.blocks[a]['term']
                if t['t'] != 'switch':
                    continue
                dt = body.tree_of_operand(t['discr'], 0, env)
                lit = _str_eq_literal(dt, name_arg, f)
                if lit is None:
                    other_conds += 1
                    continue
                vals = [v for v, bb in t['targets'] if bb == b]
                truth = not (0 in vals)   # switch on bool: 0 -> false
                if dt[0] == 'call' and dt[1].endswith('::ne'):
                    truth = not truth       # `name != "lit"`: the name equals the literal when the test is false
                (true_lits if truth else false_lits).append(lit)
            writes = []
            for bi in p:
                for s in body.blocks[bi]['stmts']:
                    if s['s'] == 'assign':
                        fp = self_field_of_place(s['pl'])
                        if fp is None:
                            fp = _self_field_through_pointer(body, s['pl'], env)
                        if fp is not None:
                            writes.append((fp, body.tree_of_rvalue(s['rv'], 0, env), s['sp']['l']))
                    elif s['s'] == 'setdiscr' and self_field_of_place(s['pl']) is not None:
                        writes.append((self_field_of_place(s['pl']), ('setdiscr',), s['sp']['l']))
                t = body.blocks[bi]['term']
                if t['t'] == 'call':
                    # passing &mut *self or a field of it to any callee is an unanalysed write
                    for a in t['args']:
                        tr = body.tree_of_operand(a)
                        if _mut_self_escape(body, a):
                            writes.append((['<escapes to %s>' % callee_id(t['callee'])], ('escape',), body.term_line(bi)))
                    fp = self_field_of_place(t['dest'])
                    if fp is not None:
                        writes.append((fp, body.tree_of_call(t), body.term_line(bi)))
            info = {'writes': writes, 'variant': result_variant_on_path(body, p), 'false': false_lits, 'path': p}
            if len(true_lits) > 1:
                continue    # infeasible (two different literals both equal)
            if true_lits:
                arms.setdefault(true_lits[0], []).append(info)
            else:
                default.append(info)
        if pub and not arms and not _reaches_literal_tests(f, body):
            # set() compares the name with no string literal, here or in any crate function it calls: the parameter names live in a data
            # table searched at run time (or in an enum parsed elsewhere); which name changes which field is not decided for this config
            r.undecided.append('%s::set looks parameter names up in a data table: name -> field mapping not decided' % cname)
            n_table_driven += 1
            continue
        # (1) every pub field has an arm
        for fld in pub:
            key = '%s|%s' % (cname, fld)
            r.inst(key)
            if fld not in arms:
                r.violate(key + '|missing-arm', 'public parameter `%s` of %s has no arm in set(): set("%s", ..) returns Err and '
                          'the parameter cannot be changed by name' % (fld, cname, fld), body.file, body.line)
        # (2),(3) per arm
        for lit, infos in sorted(arms.items()):
            n_arms += 1
            key = '%s|%s' % (cname, lit)
            if lit not in allf:
                r.violate(key + '|arm-for-unknown-field', 'set() has an arm for "%s" which is not a field of %s' % (lit, cname), body.file, body.line)
                continue
            ok_seen = False
            for info in infos:
                v = info['variant']
                ws = info['writes']
                if v == 'Ok':
                    ok_seen = True
                    targets = [w for w in ws]
                    if not targets:
                        r.violate(key + '|ok-without-write', 'arm "%s" returns Ok without writing the parameter' % lit, body.file, body.line)
                    for fp, tree, line in targets:
                        if fp != [lit]:
                            r.violate(key + '|writes-other-field|' + '.'.join(fp), 'arm "%s" of %s::set writes field `%s` (must write only `%s`)'
                                      % (lit, cname, '.'.join(fp), lit), body.file, line)
                            continue
                        call = _ok_payload_call(tree)
                        if call is None or not _mentions_arg(call, value_arg) or not (_is_parse_call(call) or _parse_through_helper(f, call, value_arg)):
                            r.violate(key + '|value-not-parsed-text', 'arm "%s" stores %s, which is not the Ok payload of parsing the value text'
                                      % (lit, tree_str(tree)), body.file, line)
                        else:
                            r.sample({'config': cname, 'arm': lit, 'write': 'self.%s = Ok-payload of %s' % (lit, call[1]),
                                      'site': '%s:%d' % (body.file, line)})
                elif v == 'Err':
                    for fp, tree, line in ws:
                        r.violate(key + '|write-on-error-path|' + '.'.join(fp), 'arm "%s": field `%s` is written on a path that returns Err '
                                  '(configuration must stay unchanged)' % (lit, '.'.join(fp)), body.file, line)
                else:
                    r.violate(key + '|return-undecided', 'arm "%s": cannot decide the returned variant (%s)' % (lit, v), body.file, body.line)
            if not ok_seen:
                r.violate(key + '|never-ok', 'arm "%s" never returns Ok' % lit, body.file, body.line)
        # default: unknown names
        if not default:
            r.violate('%s|<default>|missing' % cname, 'set() has no path for unknown names', body.file, body.line)
        for info in default:
            r.inst('%s|<default>' % cname, False)
            if info['variant'] != 'Err':
                r.violate('%s|<default>|not-err' % cname, 'set() with an unknown name returns %s instead of Err' % info['variant'], body.file, body.line)
            for fp, tree, line in info['writes']:
                r.violate('%s|<default>|write|%s' % (cname, '.'.join(fp)), 'set() with an unknown name writes field `%s`' % '.'.join(fp), body.file, line)
    r.floor('configs', 37, n_cfg)
    r.floor('public fields', 131, n_fields)
    # a few table-driven set() functions are tolerated (listed under `undecided`), a wholesale loss of the arms is not
    r.floor('arms', 100, n_arms)
    r.info['table_driven_set'] = n_table_driven
    r.info.update({'configs': n_cfg, 'public_fields': n_fields, 'arms': n_arms})
    return r


def _promoted_str(facts, tree):
    for x in walk_tree(tree):
        if x[0] == 'const' and len(x) > 4 and x[2] == 'promoted':
            bj = facts.aux_bodies.get('P:%s:%d' % (x[3], x[4]))
            if bj is None:
                continue
            pb = Body(bj)
            for bi in range(pb.n):
                for st in pb.blocks[bi]['stmts']:
                    if st['s'] == 'assign':
                        for y in walk_tree(pb.tree_of_rvalue(st['rv'])):
                            if y and y[0] == 'str':
                                return y[1]
    return None


def _str_eq_literal(tree, name_arg, facts=None):
    """tree of a switch discriminant: eq(name, "lit") (either operand order, through refs) -> lit"""
    t = tree
    if t[0] != 'call':
        return None
    cid = t[1]
    if not ('PartialEq' in cid and (cid.endswith('::eq') or cid.endswith('::ne'))):
        return None
    args = t[2]
    if len(args) != 2:
        return None
    lit = None
    other = None
    for a in args:
        if any(x[0] == 'str' for x in walk_tree(a)) and a[0] in ('str', 'ref', 'deref'):
            for x in walk_tree(a):
                if x[0] == 'str':
                    lit = x[1]
        elif facts is not None and a[0] in ('ref', 'deref', 'const') and _promoted_str(facts, a) is not None:
            lit = _promoted_str(facts, a)       # `name == "lit"`: the literal is borrowed through a promoted constant
        else:
            other = a
    if lit is None or other is None:
        return None
    if not _mentions_arg(other, name_arg):
        return None
    return lit


def _mut_self_escape(body, operand):
    """Is the operand a `&mut` reborrow of (part of) *self?"""
    if operand['o'] not in ('copy', 'move'):
        return False
    p = operand['pl']
    if p['p']:
        return False
    l = p['l']
    if l == 1:
        return body.local_ty(1).startswith('&mut')
    sd = body.single_def(l)
    if sd and sd[2] == 'assign':
        rv = sd[3]['rv']
        if rv['r'] == 'ref' and rv['mut']:
            return self_field_of_place(rv['pl']) is not None
    return False


# ---------------------------------------------------------------------------------------


def s15_naming_forwarding(ctx):
    f = ctx.facts()
    m = Model(f)
    r = RuleResult('S15', 'NAME literals identify their config type and are distinct; the Dyn blanket impls forward each call '
                          'to the same-named static method with their own arguments')
    names = {}
    n = 0
    for ci in m.config_impls:
        cname = m.short(ci)
        cp = None
        for it in ci['items']:
            if it['name'] == 'NAME' and it['kind'] == 'Const':
                cp = it['path']
        h = f.hir.get(cp) if cp else None
        if h is None:
            raise Broken('no NAME const for %s' % cname)
        n += 1
        body = h['body']
        key = '%s|NAME' % cname
        r.inst(key)
        if body.get('e') != 'lit' or body.get('kind') != 'str':
            r.violate(key + '|not-literal', 'NAME is not a string literal', h['file'], h['line'])
            continue
        lit = body['v']
        names.setdefault(lit, []).append(cname)
        adt_path = m.adt_path_of_impl(ci)
        ok_names = {cname}
        for ap, al in f.aliases.items():
            if al['vis'] == 'pub' and strip_generics(al['ty']) == adt_path:
                ok_names.add(al['name'])
        if lit not in ok_names:
            r.violate(key + '|mismatch|' + lit, 'NAME = "%s" is neither the type name %s nor a public alias of it' % (lit, cname), h['file'], h['line'])
        else:
            r.sample({'config': cname, 'NAME': lit})
    for lit, cs in names.items():
        if len(cs) > 1:
            r.violate('NAME|duplicate|' + lit, 'NAME "%s" is used by %s' % (lit, ', '.join(sorted(cs))))
    r.floor('NAME consts', 37, n)
    # ---- forwarders
    nfwd = 0
    pairs = (('core::indicator::dd::IndicatorConfigDyn', T_CONFIG), ('core::indicator::dd::IndicatorInstanceDyn', T_INSTANCE))
    for dyn_trait, static_trait in pairs:
        if dyn_trait not in f.traits:
            raise Broken('anchor trait %s missing' % dyn_trait)
        impls = [i for i in f.impls if i['trait'] == dyn_trait]
        if len(impls) != 1 or impls[0]['self_tyj']['t'] != 'param':
            raise Broken('expected exactly one blanket impl of %s' % dyn_trait)
        imp = impls[0]
        for it in imp['items']:
            if it['kind'] != 'Fn':
                continue
            nfwd += 1
            b = m.body_inlined(it['path'], prefer_mono=False)     # a private boxing helper is part of the forwarder
            if b is None:
                raise Broken('no body for forwarder %s' % it['path'])
            key = '%s|%s' % (dyn_trait.rsplit('::', 1)[-1], it['name'])
            r.inst(key)
            static_calls = []
            other_calls = []
            for bi, t in b.calls():
                c = t['callee']
                tr = c.get('trait')
                if tr == static_trait:
                    static_calls.append((bi, t))
                else:
                    other_calls.append((bi, t))
            uses_name_const = False
            for bi, si, s in b.stmts():
                if s['s'] == 'assign':
                    for x in walk_tree(b.tree_of_rvalue(s['rv'])):
                        pass
                    js = str(s['rv'])
                    if 'IndicatorConfig>::NAME' in js:
                        uses_name_const = True
            if it['name'] == 'name' and uses_name_const and not static_calls:
                r.sample({'forwarder': key, 'to': '<Self as IndicatorConfig>::NAME'})
                continue
            if len(static_calls) != 1:
                r.violate(key + '|forward-count', 'forwarder makes %d calls into %s (expected exactly 1)' % (len(static_calls), static_trait), b.file, b.line)
                continue
            bi, t = static_calls[0]
            cn = t['callee']['name']
            if cn != it['name']:
                r.violate(key + '|forwards-to|' + cn, 'dyn method %s forwards to static method %s' % (it['name'], cn), b.file, b.term_line(bi))
                continue
            # arguments: own params in order
            if len(t['args']) != b.arg_count:
                r.violate(key + '|arg-count', 'forwarder passes %d arguments, has %d parameters' % (len(t['args']), b.arg_count), b.file, b.term_line(bi))
                continue
            bad = False
            for idx, a in enumerate(t['args']):
                tr = _strip_wrappers(b.tree_of_operand(a))
                if not (tr[0] == 'arg' and tr[1] == idx + 1):
                    r.violate(key + '|arg|%d' % idx, 'argument %d of the forwarded call is %s, not the forwarder\'s own parameter %d'
                              % (idx, tree_str(tr), idx), b.file, b.term_line(bi))
                    bad = True
            # other calls only from the wrapper set
            for obi, ot in other_calls:
                oc = ot['callee']
                d = callee_def(oc) or 'indirect'
                tr_ = oc.get('trait') or ''
                allowed = ((oc.get('name') == 'clone' and tr_.endswith('Clone')) or
                           (oc.get('name') == 'branch' and tr_.endswith('Try')) or
                           (oc.get('name') == 'from_residual' and tr_.endswith('FromResidual')) or
                           (oc.get('name') == 'new' and d.startswith('std::boxed::Box')))
                if not allowed:
                    r.violate(key + '|extra-call|' + d, 'forwarder also calls %s' % d, b.file, b.term_line(obi))
                    bad = True
            # result flows to the return place
            if not bad:
                ret_ok = _returns_call(b, bi)
                if not ret_ok:
                    r.violate(key + '|result-dropped', 'the forwarded call\'s result is not what the forwarder returns', b.file, b.term_line(bi))
                else:
                    r.sample({'forwarder': key, 'to': callee_id(t['callee']), 'site': '%s:%d' % (b.file, b.term_line(bi))})
    r.floor('dyn forwarders', 11, nfwd)
    return r


def _strip_wrappers(t):
    for _ in range(12):
        if t[0] in ('ref', 'deref'):
            t = t[1]
        elif t[0] == 'cast':
            t = t[2]
        elif t[0] == 'call' and t[4].endswith('::clone') and len(t[2]) == 1:
            t = t[2][0]
        else:
            break
    return t


def _returns_call(b, call_bb):
    """The value in _0 at return IS the call's result: directly, or wrapped as Ok(Box::new(result?)) / Ok(result?)."""
    def is_call(t):
        for _ in range(8):
            while t[0] in ('ref', 'deref', 'cast'):
                t = t[1] if t[0] != 'cast' else t[2]
            if t[0] == 'call' and t[3] == call_bb:
                return True
            if t[0] == 'agg' and t[1] == 'adt' and str(t[2]).endswith('Result::Ok') and len(t[3]) == 1:
                t = t[3][0]
                continue
            if t[0] == 'call' and (t[4].startswith('std::boxed::Box') and t[4].endswith('::new')) and len(t[2]) == 1:
                t = t[2][0]
                continue
            if t[0] == 'field' and t[2] == '0' and t[1][0] == 'as' and t[1][2] == 'Continue' and t[1][1][0] == 'call' and t[1][1][4].endswith('::branch'):
                t = t[1][1][2][0]
                continue
            if t[0] == 'field' and t[2] == '0' and t[1][0] == 'as' and t[1][2] in ('Ok', 'Some'):
                t = t[1][1]             # the payload bound by an explicit `match call { Ok(x) => .., Err(e) => Err(e) }`
                continue
            return False
        return False
    dest = b.blocks[call_bb]['term']['dest']
    if dest['l'] == 0 and not dest['p']:
        return True
    ok = False
    for bi, si, s in b.stmts():
        if s['s'] == 'assign' and s['pl']['l'] == 0 and not s['pl']['p']:
            t = b.tree_of_rvalue(s['rv'])
            if t[0] == 'agg' and str(t[2]).endswith('Result::Err'):
                continue
            if is_call(t):
                ok = True
            else:
                return False
    for bi, t in b.calls():
        if t['dest']['l'] == 0 and not t['dest']['p'] and bi != call_bb:
            tr = b.tree_of_call(t, 0, bi)
            if tr[4].endswith('from_residual'):
                continue
            if is_call(tr):
                ok = True
            else:
                return False
    return ok
