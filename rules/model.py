"""Repository model: which types are methods / indicator configs / instances, and the bodies of
their trait functions -- read off the impl table of the current facts, never a frozen list."""
from engine import Broken
from facts import path_ends, adt_name
from mir import Body, strip_generics


T_METHOD = 'core::method::Method'
T_CONFIG = 'core::indicator::config::IndicatorConfig'
T_INSTANCE = 'core::indicator::instance::IndicatorInstance'
T_PEEK = 'helpers::history::Peekable'
T_MACTOR = 'core::moving_average::MovingAverageConstructor'
T_OHLCV = 'core::ohlcv::OHLCV'


class Model:
    def __init__(self, facts):
        self.f = facts
        for t in (T_METHOD, T_CONFIG, T_INSTANCE, T_PEEK, T_MACTOR, T_OHLCV):
            if t not in facts.traits:
                raise Broken('anchor trait %s not found in the crate' % t)
        self.method_impls = [i for i in facts.impls if i['trait'] == T_METHOD]
        self.config_impls = [i for i in facts.impls if i['trait'] == T_CONFIG]
        self.instance_impls = [i for i in facts.impls if i['trait'] == T_INSTANCE]
        self.peek_impls = [i for i in facts.impls if i['trait'] == T_PEEK]
        self._bodies = {}

    def adt_of_impl(self, impl):
        tj = impl['self_tyj']
        if tj['t'] == 'adt':
            return self.f.adts.get(tj['def'])
        return None

    def adt_path_of_impl(self, impl):
        tj = impl['self_tyj']
        return tj['def'] if tj['t'] == 'adt' else None

    def impl_fn_path(self, impl, name):
        for it in impl['items']:
            if it['name'] == name and it['kind'] == 'Fn':
                return it['path']
        return None

    def impl_assoc_ty(self, impl, name):
        for it in impl['items']:
            if it['name'] == name and it['kind'] == 'Type':
                return it['ty']
        return None

    def body(self, def_path, prefer_mono=True):
        key = (def_path, prefer_mono)
        if key in self._bodies:
            return self._bodies[key]
        b = None
        if prefer_mono:
            ms = self.f.mono_bodies_of(def_path)
            if ms:
                b = ms[0]
        if b is None:
            b = self.f.generic_body(def_path)
        r = Body(b) if b else None
        self._bodies[key] = r
        return r

    def body_by_id(self, id_):
        b = self.f.bodies.get(id_)
        return Body(b) if b else None

    def body_inlined(self, def_path, prefer_mono=True, depth=3, only_mut=False):
        """the body with crate-local private helpers inlined (rules about what a function does on every path must not depend on
        whether a piece of it was moved into a helper)"""
        key = ('inl', def_path, prefer_mono, depth, only_mut)
        if key in self._bodies:
            return self._bodies[key]
        b0 = self.body(def_path, prefer_mono)
        r = None
        if b0 is not None:
            import inline
            r = Body(inline.inlined(self.f, b0.b, depth, (), only_mut))
        self._bodies[key] = r
        return r

    def config_of_instance_adt(self):
        """instance adt path -> config impl"""
        out = {}
        for ci in self.config_impls:
            ity = self.impl_assoc_ty(ci, 'Instance')
            if ity:
                out[strip_generics(ity)] = ci
        return out

    def instance_impl_for_config(self, ci):
        ity = self.impl_assoc_ty(ci, 'Instance')
        if not ity:
            return None
        base = strip_generics(ity)
        for ii in self.instance_impls:
            if self.adt_path_of_impl(ii) == base:
                return ii
        return None

    def short(self, impl):
        p = self.adt_path_of_impl(impl)
        return p.rsplit('::', 1)[-1] if p else impl['self_ty']

    def types_implementing(self, trait):
        return {self.adt_path_of_impl(i) for i in self.f.impls if i['trait'] == trait and self.adt_path_of_impl(i)}
