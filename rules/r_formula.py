"""C05 rule S07t: the reference of every true-range computation in a step function is the previous candle's close."""
from engine import RuleResult, Broken
from model import Model
from mir import Body, callee_def, tree_str, walk_tree, self_field_of_place
import r_counters


def _strip(t):
    while isinstance(t, tuple) and t and (t[0] in ('ref', 'deref') or t[0] == 'cast' and t[1] == 'PointerCoercion'):
        t = t[2] if t[0] == 'cast' else t[1]     # `&T -> &dyn OHLCV` is the same candle
    return t


def _self_field_name(t):
    t = _strip(t)
    if t[0] == 'field' and _strip(t[1])[0] == 'arg' and _strip(t[1])[1] == 1:
        return t[2]
    return None


def _field_of_literal(t, fld):
    """operand stored in field `fld` by a struct literal (seen through moves / copies); the tree itself when it is not a literal"""
    t0 = _strip(t)
    if t0[0] == 'agg' and t0[1] == 'adt' and len(t0) > 4 and fld in (t0[4] or ()):
        return t0[3][list(t0[4]).index(fld)]
    return t


def _is_close_of_input(t, body):
    """<T as OHLCV>::close(<argument of the step function / a copy of it>)"""
    t = _strip(t)
    if t[0] == 'call' and t[4].endswith('OHLCV::close') or (t[0] == 'call' and t[4].endswith('::close') and 'ohlcv' in t[4].lower()):
        a = _strip(t[2][0]) if t[2] else None
        while a is not None and a[0] == 'call' and (a[4].endswith('::clone') or a[4].endswith('::from') or a[4].endswith('::into')) and a[2]:
            a = _strip(a[2][0])
        if a is not None and a[0] == 'agg':
            # a candle rebuilt from the input's own accessors (`HLC::from(candle)` seen through): still the current input
            leaves = list(walk_tree(a))
            from_input = any(isinstance(x, tuple) and x and x[0] == 'arg' and x[1] >= 2 for x in leaves)
            from_state = any(isinstance(x, tuple) and x and x[0] == 'field' and _strip(x[1])[0] == 'arg' and _strip(x[1])[1] == 1 for x in leaves)
            return from_input and not from_state
        return a is not None and (a[0] == 'arg' and a[1] >= 2 or a[0] == 'local')
    return False


def s07t_true_range_reference(ctx):
    f = ctx.facts('default')
    m = Model(f)
    r = RuleResult('S07t', 'every true range computed inside a step function is taken against the previous candle\'s close: the argument of tr_close is a '
                           'state field whose every write stores close() of the current input; tr(&other) is not fed a candle popped from a window')
    n = 0
    for short, p, body, tr in r_counters.step_functions(m):
        bodies = [body] + r_counters._local_mut_self_callees(m, body)
        for b in bodies:
            for bi, t in b.calls():
                d = callee_def(t['callee']) or ''
                if d.endswith('OHLCV::tr_close') and len(t['args']) == 2:
                    n += 1
                    ref = b.tree_of_operand(t['args'][1])
                    fld = _self_field_name(ref)
                    key = '%s|tr_close' % short
                    r.inst(key)
                    if fld is None:
                        r.violate(key + '|reference-not-state', '%s computes a true range against %s, which is not a state field holding the previous close' % (short, tree_str(ref)[:60]), b.file, b.term_line(bi))
                        continue
                    stores = []
                    for bb in bodies:
                        for bj, si, s in bb.stmts():
                            if s['s'] != 'assign':
                                continue
                            fp = self_field_of_place(s['pl'])
                            if fp == [fld]:
                                stores.append((bb, bj, s['sp']['l'], bb.tree_of_rvalue(s['rv'])))
                            elif fp == []:
                                # `*self = Self { .. }`: the whole state is replaced; the field's new value is the literal's operand
                                stores.append((bb, bj, s['sp']['l'], _field_of_literal(bb.tree_of_rvalue(s['rv']), fld)))
                        for bj in range(bb.n):
                            tm = bb.blocks[bj]['term']
                            if tm['t'] != 'call':
                                continue
                            fp = self_field_of_place(tm['dest'])
                            if fp == [fld]:
                                stores.append((bb, bj, bb.term_line(bj), bb.tree_of_call(tm, 0, bj)))
                            elif fp == []:
                                stores.append((bb, bj, bb.term_line(bj), ('unknown', 'whole state returned by a call')))
                    if not stores:
                        r.violate(key + '|reference-never-updated|' + fld, '%s takes its true range against self.%s, which next() never updates' % (short, fld), b.file, b.term_line(bi))
                        continue
                    bad = [(bb, line, tree) for bb, bj, line, tree in stores if not _is_close_of_input(tree, bb)]
                    if bad:
                        bb, line, tree = bad[0]
                        r.violate(key + '|reference-not-close|' + fld, '%s takes its true range against self.%s, but next() stores %s there instead of the close of the current candle' % (
                            short, fld, tree_str(tree)[:70]), bb.file, line)
                    else:
                        r.sample({'step function': short, 'true range against': 'self.' + fld, 'updated with': 'close() of the input', 'writes': len(stores)})
                elif d.endswith('OHLCV::tr') and len(t['args']) == 2:
                    n += 1
                    key = '%s|tr' % short
                    r.inst(key)
                    ref = b.tree_of_operand(t['args'][1])
                    if any(x[0] == 'call' and (x[4].endswith('Window::<T>::push') or '::window::Window' in x[4] and x[4].endswith('::push')) for x in walk_tree(ref)):
                        r.violate(key + '|reference-from-window', '%s takes a true range against a candle popped from a window: that candle is `length` steps old, the definition uses the previous one' % short,
                                  b.file, b.term_line(bi))
    r.floor('true range computations in step functions', 4, n)
    return r


def _accessor_of_input(t, first_input_arg=2):
    """name of the OHLCV accessor when t is `<T as OHLCV>::acc(<the input candle>)`, 'value' when t is the input value itself, else None"""
    t = _strip(t)
    if t[0] == 'call' and ('OHLCV::' in t[4] or 'ohlcv' in t[4].lower()) and t[2]:
        a = _strip(t[2][0])
        while a[0] == 'call' and (a[4].endswith('::clone') or a[4].endswith('::from') or a[4].endswith('::into')) and a[2]:
            a = _strip(a[2][0])
        if a[0] == 'arg' and a[1] >= first_input_arg and len(t[2]) == 1:
            return t[4].rsplit('::', 1)[-1]
        return None
    if t[0] == 'arg' and t[1] >= first_input_arg:
        return 'value'
    return None


def s07l_latch_seeding(ctx):
    """C08: a latch - a state field that every store in next() overwrites with one accessor of the current input (`self.prev_close =
    candle.close()`, `self.last_value = value`) - must be seeded by the constructor with the same accessor of the construction value.
    Otherwise the first step is judged against something other than 'the previous input' and feeding the first element again changes
    the output."""
    f = ctx.facts('default')
    m = Model(f)
    r = RuleResult('S07l', 'every latch (a field next() always overwrites with one accessor of its input) is seeded by new() / init() with the same accessor of the construction value')
    cfg_of = m.config_of_instance_adt()
    n = 0
    for short, p, body, tr in r_counters.step_functions(m):
        bodies = [body] + r_counters._local_mut_self_callees(m, body)
        stores = {}
        for bb in bodies:
            for bj, si, s in bb.stmts():
                if s['s'] != 'assign':
                    continue
                fp = self_field_of_place(s['pl'])
                if fp and len(fp) == 1:
                    stores.setdefault(fp[0], []).append(bb.tree_of_rvalue(s['rv']))
            for bj in range(bb.n):
                tm = bb.blocks[bj]['term']
                if tm['t'] == 'call':
                    fp = self_field_of_place(tm['dest'])
                    if fp and len(fp) == 1:
                        stores.setdefault(fp[0], []).append(bb.tree_of_call(tm, 0, bj))
        latches = {}
        for fld, trees in stores.items():
            accs = {_accessor_of_input(t) for t in trees}
            if len(accs) == 1 and None not in accs:
                latches[fld] = next(iter(accs))
        if not latches:
            continue
        # the constructor
        if tr == 'Method':
            impl = next((i for i in m.method_impls if m.adt_path_of_impl(i) == p), None)
            cpath = m.impl_fn_path(impl, 'new') if impl else None
        else:
            ci = cfg_of.get(p)
            cpath = m.impl_fn_path(ci, 'init') if ci else None
        cb = m.body_inlined(cpath, prefer_mono=False) if cpath else None
        if cb is None:
            continue
        lits = []
        for bj, si, s in cb.stmts():
            if s['s'] == 'assign' and s['rv']['r'] == 'agg' and s['rv'].get('kind') == 'adt' and s['rv'].get('def') == p:
                lits.append((s, cb.tree_of_rvalue(s['rv'])))
        for fld, acc in sorted(latches.items()):
            key = '%s|%s' % (short, fld)
            for s, lit in lits:
                if fld not in (lit[4] or ()):
                    continue
                seed = lit[3][list(lit[4]).index(fld)]
                sacc = _accessor_of_input(seed)
                n += 1
                r.inst(key)
                if sacc is None:
                    # seeded with something that is not a plain accessor of the construction value (a constant, a computed value): not decided
                    r.undecided.append('%s.%s: next() latches %s of the input, the constructor seeds it with %s' % (short, fld, acc, tree_str(seed)[:50]))
                elif sacc != acc:
                    r.violate(key + '|%s-vs-%s' % (sacc, acc), '%s seeds the latch `%s` with %s() of the construction value, but next() always stores %s() of the input there: '
                              'the first step is judged against a different quantity than every later step' % (short, fld, sacc, acc), cb.file, s['sp']['l'])
                else:
                    r.sample({'type': short, 'latch': fld, 'accessor': acc}, cap=30)
    r.floor('latches with a decided seed', 6, n)
    return r


def _canon_pure(t, in_args, ctor, depth=0):
    """canonical form of a value tree that is a pure function of the input and of the configuration; None when it reads other state.
    In a constructor `self` is the configuration itself; in a step function the configuration is `self.cfg`."""
    t = _strip(t)
    if not isinstance(t, tuple) or not t or depth > 30:
        return None if depth > 30 else t
    k = t[0]
    if k == 'arg':
        if t[1] in in_args:
            return ('IN',)
        return ('CFG',) if ctor else ('SELF',)
    if k == 'const':
        return ('const', t[2] if len(t) > 2 else None)
    if k == 'field':
        b = _canon_pure(t[1], in_args, ctor, depth + 1)
        if b is None:
            return None
        if b == ('SELF',):
            return ('CFG',) if t[2] == 'cfg' else None
        if b and b[0] == 'CFG':
            return b + (t[2],)
        return ('field', b, t[2])
    if k == 'call':
        nm = t[4]
        if nm.endswith('::clone') and len(t[2]) == 1:
            return _canon_pure(t[2][0], in_args, ctor, depth + 1)
        args = [_canon_pure(a, in_args, ctor, depth + 1) for a in t[2]]
        if any(a is None for a in args):
            return None
        if 'OHLCV' in nm or 'ohlcv' in nm:
            nm = 'OHLCV::' + nm.rsplit('::', 1)[-1]
        return ('call', nm, tuple(args))
    if k == 'bin':
        a, b = _canon_pure(t[2], in_args, ctor, depth + 1), _canon_pure(t[3], in_args, ctor, depth + 1)
        return None if a is None or b is None else ('bin', t[1], a, b)
    if k == 'un':
        a = _canon_pure(t[2], in_args, ctor, depth + 1)
        return None if a is None else ('un', t[1], a)
    if k == 'cast':
        a = _canon_pure(t[2], in_args, ctor, depth + 1)
        return None if a is None else ('cast', a, t[4] if len(t) > 4 else None)
    if k == 'agg':
        args = [_canon_pure(a, in_args, ctor, depth + 1) for a in t[3]]
        return None if any(a is None for a in args) else ('agg', t[2], tuple(args))
    return None


def _mentions_self(c):
    return c is None or any(isinstance(x, tuple) and x and x[0] == 'SELF' for x in walk_tree(c))


def s07p_pure_feed_seeding(ctx):
    """C08: a component (a Window, an inner method, a configurable moving average) that next() feeds, on every call, one pure function
    g(input, configuration) of the current input must be seeded by new() / init() with g(construction value, configuration): then the
    construction value is exactly what the component would have seen before the stream began."""
    f = ctx.facts('default')
    m = Model(f)
    r = RuleResult('S07p', 'a component fed a pure function of the current input on every step is seeded with the same function of the construction value')
    cfg_of = m.config_of_instance_adt()
    n_ok = 0
    for short, p, body, tr in r_counters.step_functions(m):
        fed = {}
        for bi, t in body.calls():
            if t['callee'].get('name') in ('next', 'push') and len(t['args']) == 2:
                recv = _strip(body.tree_of_operand(t['args'][0]))
                if recv[0] == 'field' and _strip(recv[1])[0] == 'arg' and _strip(recv[1])[1] == 1:
                    fed.setdefault(recv[2], []).append(_canon_pure(body.tree_of_operand(t['args'][1]), (2,), False))
        if not fed:
            continue
        if tr == 'Method':
            impl = next((i for i in m.method_impls if m.adt_path_of_impl(i) == p), None)
            cpath = m.impl_fn_path(impl, 'new') if impl else None
        else:
            ci = cfg_of.get(p)
            cpath = m.impl_fn_path(ci, 'init') if ci else None
        cb = m.body_inlined(cpath, prefer_mono=False) if cpath else None
        if cb is None:
            continue
        for bj, si, s in cb.stmts():
            if not (s['s'] == 'assign' and s['rv']['r'] == 'agg' and s['rv'].get('kind') == 'adt' and s['rv'].get('def') == p):
                continue
            lit = cb.tree_of_rvalue(s['rv'])
            for fld, cs in sorted(fed.items()):
                if fld not in (lit[4] or ()):
                    continue
                if len({str(c) for c in cs}) != 1 or _mentions_self(cs[0]):
                    continue            # fed a value that depends on other state, or different values on different calls: not decided here
                seedt = _strip(lit[3][list(lit[4]).index(fld)])
                sv = None
                for x in walk_tree(seedt):
                    if isinstance(x, tuple) and x and x[0] == 'call' and x[4].rsplit('::', 1)[-1] in ('new', 'init') and len(x[2]) == 2:
                        sv = x[2][1]
                        break
                if sv is None:
                    continue
                sc = _canon_pure(sv, (2,), True)
                key = '%s|%s' % (short, fld)
                r.inst(key)
                if sc == cs[0]:
                    n_ok += 1
                    continue
                if sc is None:
                    r.undecided.append('%s.%s: the seed is not a pure function of the construction value (%s)' % (short, fld, tree_str(sv)[:50]))
                    continue
                r.violate(key + '|seed-differs', '%s feeds `%s` the value %s on every step but the constructor seeds it with %s: before the stream began the component saw '
                          'something else than the construction value would have given it' % (short, fld, tree_str(_strip(body.tree_of_operand(
                              next(t['args'][1] for bi, t in body.calls() if t['callee'].get('name') in ('next', 'push') and len(t['args']) == 2 and
                                   _strip(body.tree_of_operand(t['args'][0]))[0] == 'field' and _strip(body.tree_of_operand(t['args'][0]))[2] == fld))))[:60],
                              tree_str(sv)[:60]), cb.file, s['sp']['l'])
    r.floor('components seeded with the function they are fed', 70, n_ok)
    return r
