"""C05 rule S07t: the reference of every true-range computation in a step function is the previous candle's close."""
from engine import RuleResult, Broken
from model import Model
from mir import Body, callee_def, tree_str, walk_tree, self_field_of_place
import r_counters


def _strip(t):
    while isinstance(t, tuple) and t and (t[0] in ('ref', 'deref') or t[0] == 'cast' and t[1] == 'PointerCoercion'):
        t = t[2] if t[0] == 'cast' else t[1]     # `&T -> &dyn OHLCV` is the same candle
    return t


def _self_field_name(t):
    t = _strip(t)
    if t[0] == 'field' and _strip(t[1])[0] == 'arg' and _strip(t[1])[1] == 1:
        return t[2]
    return None


def _field_of_literal(t, fld):
    """operand stored in field `fld` by a struct literal (seen through moves / copies); the tree itself when it is not a literal"""
    t0 = _strip(t)
    if t0[0] == 'agg' and t0[1] == 'adt' and len(t0) > 4 and fld in (t0[4] or ()):
        return t0[3][list(t0[4]).index(fld)]
    return t


def _is_close_of_input(t, body):
    """<T as OHLCV>::close(<argument of the step function / a copy of it>)"""
    t = _strip(t)
    if t[0] == 'call' and t[4].endswith('OHLCV::close') or (t[0] == 'call' and t[4].endswith('::close') and 'ohlcv' in t[4].lower()):
        a = _strip(t[2][0]) if t[2] else None
        while a is not None and a[0] == 'call' and (a[4].endswith('::clone') or a[4].endswith('::from') or a[4].endswith('::into')) and a[2]:
            a = _strip(a[2][0])
        if a is not None and a[0] == 'agg':
            # a candle rebuilt from the input's own accessors (`HLC::from(candle)` seen through): still the current input
            leaves = list(walk_tree(a))
            from_input = any(isinstance(x, tuple) and x and x[0] == 'arg' and x[1] >= 2 for x in leaves)
            from_state = any(isinstance(x, tuple) and x and x[0] == 'field' and _strip(x[1])[0] == 'arg' and _strip(x[1])[1] == 1 for x in leaves)
            return from_input and not from_state
        return a is not None and (a[0] == 'arg' and a[1] >= 2 or a[0] == 'local')
    return False


def s07t_true_range_reference(ctx):
    f = ctx.facts('default')
    m = Model(f)
    r = RuleResult('S07t', 'every true range computed inside a step function is taken against the previous candle\'s close: the argument of tr_close is a '
                           'state field whose every write stores close() of the current input; tr(&other) is not fed a candle popped from a window')
    n = 0
    for short, p, body, tr in r_counters.step_functions(m):
        bodies = [body] + r_counters._local_mut_self_callees(m, body)
        for b in bodies:
            for bi, t in b.calls():
                d = callee_def(t['callee']) or ''
                if d.endswith('OHLCV::tr_close') and len(t['args']) == 2:
                    n += 1
                    ref = b.tree_of_operand(t['args'][1])
                    fld = _self_field_name(ref)
                    key = '%s|tr_close' % short
                    r.inst(key)
                    if fld is None:
                        r.violate(key + '|reference-not-state', '%s computes a true range against %s, which is not a state field holding the previous close' % (short, tree_str(ref)[:60]), b.file, b.term_line(bi))
                        continue
                    stores = []
                    for bb in bodies:
                        for bj, si, s in bb.stmts():
                            if s['s'] != 'assign':
                                continue
                            fp = self_field_of_place(s['pl'])
                            if fp == [fld]:
                                stores.append((bb, bj, s['sp']['l'], bb.tree_of_rvalue(s['rv'])))
                            elif fp == []:
                                # `*self = Self { .. }`: the whole state is replaced; the field's new value is the literal's operand
                                stores.append((bb, bj, s['sp']['l'], _field_of_literal(bb.tree_of_rvalue(s['rv']), fld)))
                        for bj in range(bb.n):
                            tm = bb.blocks[bj]['term']
                            if tm['t'] != 'call':
                                continue
                            fp = self_field_of_place(tm['dest'])
                            if fp == [fld]:
                                stores.append((bb, bj, bb.term_line(bj), bb.tree_of_call(tm, 0, bj)))
                            elif fp == []:
                                stores.append((bb, bj, bb.term_line(bj), ('unknown', 'whole state returned by a call')))
                    if not stores:
                        r.violate(key + '|reference-never-updated|' + fld, '%s takes its true range against self.%s, which next() never updates' % (short, fld), b.file, b.term_line(bi))
                        continue
                    bad = [(bb, line, tree) for bb, bj, line, tree in stores if not _is_close_of_input(tree, bb)]
                    if bad:
                        bb, line, tree = bad[0]
                        r.violate(key + '|reference-not-close|' + fld, '%s takes its true range against self.%s, but next() stores %s there instead of the close of the current candle' % (
                            short, fld, tree_str(tree)[:70]), bb.file, line)
                    else:
                        r.sample({'step function': short, 'true range against': 'self.' + fld, 'updated with': 'close() of the input', 'writes': len(stores)})
                elif d.endswith('OHLCV::tr') and len(t['args']) == 2:
                    n += 1
                    key = '%s|tr' % short
                    r.inst(key)
                    ref = b.tree_of_operand(t['args'][1])
                    if any(x[0] == 'call' and (x[4].endswith('Window::<T>::push') or '::window::Window' in x[4] and x[4].endswith('::push')) for x in walk_tree(ref)):
                        r.violate(key + '|reference-from-window', '%s takes a true range against a candle popped from a window: that candle is `length` steps old, the definition uses the previous one' % short,
                                  b.file, b.term_line(bi))
    r.floor('true range computations in step functions', 4, n)
    return r


def _accessor_of_input(t, first_input_arg=2):
    """name of the OHLCV accessor when t is `<T as OHLCV>::acc(<the input candle>)`, 'value' when t is the input value itself, else None"""
    t = _strip(t)
    if t[0] == 'call' and ('OHLCV::' in t[4] or 'ohlcv' in t[4].lower()) and t[2]:
        a = _strip(t[2][0])
        while a[0] == 'call' and (a[4].endswith('::clone') or a[4].endswith('::from') or a[4].endswith('::into')) and a[2]:
            a = _strip(a[2][0])
        if a[0] == 'arg' and a[1] >= first_input_arg and len(t[2]) == 1:
            return t[4].rsplit('::', 1)[-1]
        return None
    if t[0] == 'arg' and t[1] >= first_input_arg:
        return 'value'
    return None


def s07l_latch_seeding(ctx):
    """C08: a latch - a state field that every store in next() overwrites with one accessor of the current input (`self.prev_close =
    candle.close()`, `self.last_value = value`) - must be seeded by the constructor with the same accessor of the construction value.
    Otherwise the first step is judged against something other than 'the previous input' and feeding the first element again changes
    the output."""
    f = ctx.facts('default')
    m = Model(f)
    r = RuleResult('S07l', 'every latch (a field next() always overwrites with one accessor of its input) is seeded by new() / init() with the same accessor of the construction value')
    cfg_of = m.config_of_instance_adt()
    n = 0
    for short, p, body, tr in r_counters.step_functions(m):
        bodies = [body] + r_counters._local_mut_self_callees(m, body)
        stores = {}
        for bb in bodies:
            for bj, si, s in bb.stmts():
                if s['s'] != 'assign':
                    continue
                fp = self_field_of_place(s['pl'])
                if fp and len(fp) == 1:
                    stores.setdefault(fp[0], []).append(bb.tree_of_rvalue(s['rv']))
            for bj in range(bb.n):
                tm = bb.blocks[bj]['term']
                if tm['t'] == 'call':
                    fp = self_field_of_place(tm['dest'])
                    if fp and len(fp) == 1:
                        stores.setdefault(fp[0], []).append(bb.tree_of_call(tm, 0, bj))
        latches = {}
        for fld, trees in stores.items():
            accs = {_accessor_of_input(t) for t in trees}
            if len(accs) == 1 and None not in accs:
                latches[fld] = next(iter(accs))
        if not latches:
            continue
        # the constructor
        if tr == 'Method':
            impl = next((i for i in m.method_impls if m.adt_path_of_impl(i) == p), None)
            cpath = m.impl_fn_path(impl, 'new') if impl else None
        else:
            ci = cfg_of.get(p)
            cpath = m.impl_fn_path(ci, 'init') if ci else None
        cb = m.body_inlined(cpath, prefer_mono=False) if cpath else None
        if cb is None:
            continue
        lits = []
        for bj, si, s in cb.stmts():
            if s['s'] == 'assign' and s['rv']['r'] == 'agg' and s['rv'].get('kind') == 'adt' and s['rv'].get('def') == p:
                lits.append((s, cb.tree_of_rvalue(s['rv'])))
        for fld, acc in sorted(latches.items()):
            key = '%s|%s' % (short, fld)
            for s, lit in lits:
                if fld not in (lit[4] or ()):
                    continue
                seed = lit[3][list(lit[4]).index(fld)]
                sacc = _accessor_of_input(seed)
                n += 1
                r.inst(key)
                if sacc is None:
                    # seeded with something that is not a plain accessor of the construction value (a constant, a computed value): not decided
                    r.undecided.append('%s.%s: next() latches %s of the input, the constructor seeds it with %s' % (short, fld, acc, tree_str(seed)[:50]))
                elif sacc != acc:
                    r.violate(key + '|%s-vs-%s' % (sacc, acc), '%s seeds the latch `%s` with %s() of the construction value, but next() always stores %s() of the input there: '
                              'the first step is judged against a different quantity than every later step' % (short, fld, sacc, acc), cb.file, s['sp']['l'])
                else:
                    r.sample({'type': short, 'latch': fld, 'accessor': acc}, cap=30)
    r.floor('latches with a decided seed', 6, n)
    return r
