"""Interval x relation abstract interpreter over dumped monomorphic MIR (DESIGN §4.2).

Sound for the question "which panic sites can an entry point reach, for ALL values of its
integer parameters": integers are intervals over value ids (copies and lossless casts keep the
id, so a refinement learnt from a branch is seen by every copy), plus a small relation store
(a<b, a<=b, a!=b, a+b<=K); booleans remember the comparison that defined them; enums carry
variant sets; Vec/Box<[T]>/slices carry a ghost length id; floats are intervals-or-top.
Exploration is path-sensitive inside a function (entry bodies are loop-free); outcomes of a
callee are joined per returned variant (disjunctive returns)."""
import math
import sys

from mir import Body, callee_def, callee_id, scalar_value

sys.setrecursionlimit(20000)

INT_RANGE = {
    'u8': (0, 2 ** 8 - 1), 'u16': (0, 2 ** 16 - 1), 'u32': (0, 2 ** 32 - 1), 'u64': (0, 2 ** 64 - 1), 'usize': (0, 2 ** 64 - 1),
    'u128': (0, 2 ** 128 - 1),
    'i8': (-2 ** 7, 2 ** 7 - 1), 'i16': (-2 ** 15, 2 ** 15 - 1), 'i32': (-2 ** 31, 2 ** 31 - 1), 'i64': (-2 ** 63, 2 ** 63 - 1),
    'isize': (-2 ** 63, 2 ** 63 - 1), 'i128': (-2 ** 127, 2 ** 127 - 1),
}
INF = float('inf')
STD_ENUMS = {
    'std::option::Option': ['None', 'Some'],
    'std::result::Result': ['Ok', 'Err'],
    'std::ops::ControlFlow': ['Continue', 'Break'],
    'std::cmp::Ordering': ['Less', 'Equal', 'Greater'],
}
STD_ENUM_FIELDS = {
    ('std::option::Option', 'Some'): ['0'], ('std::result::Result', 'Ok'): ['0'], ('std::result::Result', 'Err'): ['0'],
    ('std::ops::ControlFlow', 'Continue'): ['0'], ('std::ops::ControlFlow', 'Break'): ['0'],
}
ORDERING_DISCR = {'Less': -1, 'Equal': 0, 'Greater': 1}


class Obligation:
    def __init__(self, kind, fn, detail, operands, file, line, chain):
        self.kind, self.fn, self.detail, self.operands = kind, fn, detail, operands
        self.file, self.line, self.chain = file, line, chain

    def key(self):
        return '%s|%s|%s' % (self.kind, self.fn, self.detail)


class St:
    __slots__ = ('cells', 'iv', 'bv', 'rel', 'fnn', 'fb')

    def __init__(self):
        self.cells = {}
        self.iv = {}
        self.bv = {}
        self.rel = set()
        self.fnn = set()      # ids of float values known not to be NaN
        self.fb = {}          # float id -> (lo, hi) learnt from comparisons with constants (implies not NaN)

    def copy(self):
        s = St()
        s.cells = dict(self.cells)
        s.iv = dict(self.iv)
        s.bv = dict(self.bv)
        s.rel = set(self.rel)
        s.fnn = set(self.fnn)
        s.fb = dict(self.fb)
        return s


class Infeasible(Exception):
    pass


class Budget(Exception):
    pass


class Interp:
    _depth = 0

    def __init__(self, facts, max_states=60000, max_depth=16):
        self.f = facts
        self.n_vid = 0
        self.n_cid = 0
        self.idef = {}          # vid -> definition tuple
        self.bodies = {}
        self.obligations = []   # undischarged
        self.discharged = 0
        self.discharge_kinds = {}
        self.undecided_callees = {}
        self.foreign_unmodelled = {}
        self.steps = 0
        self.max_states = max_states
        self.max_depth = max_depth
        self.truncations = []   # (fn, from_ty, to_ty, interval) narrowing casts that may lose bits
        self.visited_fns = set()
        self.events = []
        self.undecided_loops = {}
        self.generic_callees = {}
        self.trunc_of = {}      # source id -> ids obtained from it by a possibly truncating cast
        self.dec_of = {}        # x -> ids defined as x.saturating_sub(1) / x - 1

    # ---- ids ---------------------------------------------------------------------------
    def vid(self):
        self.n_vid += 1
        return self.n_vid

    def cid(self):
        self.n_cid += 1
        return self.n_cid

    def body(self, id_):
        if id_ not in self.bodies:
            b = self.f.bodies.get(id_) or self.f.aux_bodies.get(id_)
            self.bodies[id_] = Body(b) if b else None
        return self.bodies[id_]

    # ---- value construction -----------------------------------------------------------------
    def mk_int(self, st, ty, lo=None, hi=None):
        r = INT_RANGE.get(ty, (-(2 ** 127), 2 ** 127))
        v = self.vid()
        st.iv[v] = (r[0] if lo is None else lo, r[1] if hi is None else hi)
        return ('int', ty, v)

    def mk_const_int(self, st, ty, c):
        v = self.vid()
        st.iv[v] = (c, c)
        self.idef[v] = ('const', c)
        return ('int', ty, v)

    def mk_bool(self, st, val=None, d=None):
        v = self.vid()
        if val is not None:
            st.bv[v] = val
        if d is not None:
            self.idef[v] = d
        return ('bool', v)

    def alloc(self, st, val):
        c = self.cid()
        st.cells[c] = val
        return c

    def top_of(self, st, tyj, depth=0):
        t = tyj['t']
        if t == 'int':
            return self.mk_int(st, tyj['n'])
        if t == 'bool':
            return self.mk_bool(st)
        if t == 'float':
            return ('float', -INF, INF, True, self.vid())
        if t in ('str',):
            return ('top', 'str')
        if t == 'ref' or t == 'ptr':
            to = tyj['to']
            if to['t'] in ('slice', 'str', 'array') or (to['t'] == 'adt' and to['def'] in ('std::vec::Vec', 'std::string::String')):
                if to['t'] == 'str' or (to['t'] == 'adt' and to['def'] == 'std::string::String'):
                    c = self.alloc(st, ('top', 'str'))
                else:
                    c = self.alloc(st, self.top_of(st, to, depth + 1))
                return ('ref', c)
            if depth > 5:
                return ('top', 'ref')
            c = self.alloc(st, self.top_of(st, to, depth + 1))
            return ('ref', c)
        if t in ('slice',):
            return ('buf', self.mk_int(st, 'usize')[2])
        if t == 'array':
            n = tyj.get('len')
            if n is not None:
                return ('buf', self.mk_const_int(st, 'usize', n)[2])
            return ('buf', self.mk_int(st, 'usize')[2])
        if t == 'tuple':
            return ('tuple', tuple(self.alloc(st, self.top_of(st, x, depth + 1)) for x in tyj['of']))
        if t == 'adt':
            d = tyj['def']
            if d in ('std::vec::Vec',):
                return ('buf', self.mk_int(st, 'usize')[2])
            if d == 'std::boxed::Box':
                inner = tyj['args'][0] if tyj['args'] else None
                if inner and inner['t'] in ('slice', 'array'):
                    return ('buf', self.mk_int(st, 'usize')[2])
                if inner:
                    return self.top_of(st, inner, depth + 1)
                return ('top', 'box')
            if d == 'std::string::String':
                return ('top', 'str')
            if d in STD_ENUMS:
                if depth > 5:
                    return ('top', d)
                fields = {}
                args = tyj['args']
                for vn in STD_ENUMS[d]:
                    fl = {}
                    for i, fnm in enumerate(STD_ENUM_FIELDS.get((d, vn), [])):
                        # payload type: Option<T>: T ; Result<T,E>: Ok->T Err->E ; ControlFlow<B,C>: Break->B, Continue->C
                        aty = None
                        if d == 'std::option::Option':
                            aty = args[0] if args else None
                        elif d == 'std::result::Result':
                            aty = args[0 if vn == 'Ok' else 1] if len(args) > 1 else None
                        elif d == 'std::ops::ControlFlow':
                            aty = args[1 if vn == 'Continue' else 0] if len(args) > 1 else None
                        fl[fnm] = self.alloc(st, self.top_of(st, aty, depth + 1) if aty else ('top', '?'))
                    fields[vn] = fl
                return ('adt', d, frozenset(STD_ENUMS[d]), fields)
            adt = self.f.adts.get(d)
            if adt is None or depth > 5:
                return ('top', d)
            # generic substitution: map param names to args
            gparams = [g['name'] for g in adt['generics'] if g['kind'] == 'type']
            sub = dict(zip(gparams, tyj['args']))
            fields = {}
            shared_payload = None
            variants = adt['variants']
            same_single = (adt['adt_kind'] == 'Enum' and len(variants) > 1 and all(len(v['fields']) == 1 for v in variants)
                           and len({v['fields'][0]['ty'] for v in variants}) == 1 and variants[0]['fields'][0]['tyj']['t'] == 'int')
            for v in variants:
                fl = {}
                for fd in v['fields']:
                    if same_single:
                        # ghost `period`: all variants share one payload cell (only one variant is live at a time)
                        if shared_payload is None:
                            shared_payload = self.alloc(st, self.top_of(st, subst(fd['tyj'], sub), depth + 1))
                        fl[fd['name']] = shared_payload
                    else:
                        fl[fd['name']] = self.alloc(st, self.top_of(st, subst(fd['tyj'], sub), depth + 1))
                fields[v['name']] = fl
            return ('adt', d, frozenset(v['name'] for v in variants), fields)
        return ('top', tyj.get('s') or t)

    # ---- intervals and relations ---------------------------------------------------------------
    def rng(self, st, vid):
        return st.iv.get(vid, (-(2 ** 127), 2 ** 127))

    def refine(self, st, vid, lo=None, hi=None):
        l, h = self.rng(st, vid)
        if lo is not None and lo > l:
            l = lo
        if hi is not None and hi < h:
            h = hi
        if l > h:
            raise Infeasible()
        st.iv[vid] = (l, h)

    def reach(self, st, a, b, need_strict):
        """Is there a chain a (<|<=|==) ... b in the relation store (with at least one strict step if need_strict)?
        Steps through definitions: v = sat_sub(x, 1) / x - 1  gives  v < x when x >= 1;  v = sat_sub(x, y) gives v <= x."""
        seen = {}
        work = [(a, False)]
        steps = 0
        while work:
            cur, strict = work.pop()
            if seen.get(cur, None) is True or (cur in seen and not strict):
                continue
            seen[cur] = strict or seen.get(cur, False)
            steps += 1
            if steps > 400:
                return False
            if cur == b and (strict or not need_strict):
                return True
            # interval step: cur <= hi(cur) < lo(b)
            lc, hc = self.rng(st, cur)
            lb, hb = self.rng(st, b)
            if hc < lb or (hc <= lb and (strict or not need_strict)):
                return True
            for r in st.rel:
                if r[0] == 'lt' and r[1] == cur:
                    work.append((r[2], True))
                elif r[0] == 'le' and r[1] == cur:
                    work.append((r[2], strict))
                elif r[0] == 'eq' and r[1] == cur:
                    work.append((r[2], strict))
                elif r[0] == 'eq' and r[2] == cur:
                    work.append((r[1], strict))
            d = self.idef.get(cur)
            if d and d[0] == 'trunc':
                tl, th = INT_RANGE.get(d[2], (0, 0))
                ls, hs = self.rng(st, d[1])
                if ls >= tl and hs <= th:
                    work.append((d[1], strict))        # the cast turned out lossless: same mathematical value
            for tv in self.trunc_of.get(cur, ()):
                dd = self.idef.get(tv)
                if dd:
                    tl, th = INT_RANGE.get(dd[2], (0, 0))
                    ls, hs = self.rng(st, cur)
                    if ls >= tl and hs <= th:
                        work.append((tv, strict))
            if d:
                if d[0] == 'sat_sub':
                    x, k = d[1], d[2]
                    lk = self.rng(st, k)[0]
                    lx = self.rng(st, x)[0]
                    work.append((x, strict or (lk >= 1 and lx >= 1)))
                elif d[0] == 'arith' and d[1] == 'Sub' and self.rng(st, d[3])[0] >= 0:
                    work.append((d[2], strict or self.rng(st, d[3])[0] >= 1))
        return False

    def upper_set(self, st, a, limit=200):
        """{v: strict} for every id v with a <= v (a < v if strict) derivable from relation edges and definitions"""
        seen = {}
        work = [(a, False)]
        rel = st.rel
        while work and len(seen) < limit:
            cur, strict = work.pop()
            if cur != a and not strict and (('ne', a, cur) in rel or ('ne', cur, a) in rel):
                strict = True           # a <= cur and a != cur
            if cur in seen and (seen[cur] or not strict):
                continue
            seen[cur] = strict
            if strict:
                for t in self.dec_of.get(cur, ()):
                    work.append((t, False))     # a < cur  =>  a <= cur - 1
            for r in st.rel:
                if r[0] == 'lt' and r[1] == cur:
                    work.append((r[2], True))
                elif r[0] in ('le', 'eq') and r[1] == cur:
                    work.append((r[2], strict))
                elif r[0] == 'eq' and r[2] == cur:
                    work.append((r[1], strict))
            d = self.idef.get(cur)
            if d:
                if d[0] == 'sat_sub':
                    work.append((d[1], strict or (self.rng(st, d[2])[0] >= 1 and self.rng(st, d[1])[0] >= 1)))
                elif d[0] == 'arith' and d[1] == 'Sub' and self.rng(st, d[3])[0] >= 0:
                    work.append((d[2], strict or self.rng(st, d[3])[0] >= 1))
        seen.pop(a, None)
        return seen

    def prove_lt(self, st, a, b):
        la, ha = self.rng(st, a)
        lb, hb = self.rng(st, b)
        if ha < lb:
            return True
        if a == b:
            return False
        if ('lt', a, b) in st.rel:
            return True
        if self.reach(st, a, b, True):
            return True
        # a <= b and a != b
        if (('ne', a, b) in st.rel or ('ne', b, a) in st.rel) and self._depth < 3:
            self._depth += 1
            try:
                if self.prove_le(st, a, b):
                    return True
            finally:
                self._depth -= 1
        for r in st.rel:
            if r[0] == 'lt' and r[1] == a and (('le', r[2], b) in st.rel or ('lt', r[2], b) in st.rel or r[2] == b):
                return True
            if r[0] == 'le' and r[1] == a and ('lt', r[2], b) in st.rel:
                return True
        return False

    def prove_le(self, st, a, b):
        if a == b:
            return True
        la, ha = self.rng(st, a)
        lb, hb = self.rng(st, b)
        if ha <= lb:
            return True
        if ('le', a, b) in st.rel or ('lt', a, b) in st.rel or ('eq', a, b) in st.rel or ('eq', b, a) in st.rel:
            return True
        if self.reach(st, a, b, False):
            return True
        for r in st.rel:
            if r[0] in ('le', 'lt') and r[1] == a and (('le', r[2], b) in st.rel or ('lt', r[2], b) in st.rel):
                return True
        # b = x - 1 (saturating or exact) and a < x  =>  a <= b   (a >= 0, so x >= 1 and nothing saturates)
        d = self.idef.get(b)
        if d and la >= 0:
            if d[0] == 'sat_sub' or (d[0] == 'arith' and d[1] == 'Sub'):
                x, k = (d[1], d[2]) if d[0] == 'sat_sub' else (d[2], d[3])
                if self.rng(st, k) == (1, 1) and x != a and self.prove_lt(st, a, x):
                    return True
        return False

    def prove_ne(self, st, a, b):
        la, ha = self.rng(st, a)
        lb, hb = self.rng(st, b)
        if ha < lb or hb < la:
            return True
        return ('ne', a, b) in st.rel or ('ne', b, a) in st.rel or self.prove_lt(st, a, b) or self.prove_lt(st, b, a)

    def sum_upper(self, st, a, b):
        ha = self.rng(st, a)[1]
        hb = self.rng(st, b)[1]
        best = ha + hb
        for r in st.rel:
            if r[0] == 'sumle' and ((r[1] == a and r[2] == b) or (r[1] == b and r[2] == a)):
                best = min(best, r[3])
        return best

    def eval_cmp(self, st, op, a, b):
        """True / False / None"""
        if op == 'Lt':
            if self.prove_lt(st, a, b):
                return True
            if self.prove_le(st, b, a):
                return False
        elif op == 'Le':
            if self.prove_le(st, a, b):
                return True
            if self.prove_lt(st, b, a):
                return False
        elif op == 'Gt':
            return self.eval_cmp(st, 'Lt', b, a)
        elif op == 'Ge':
            return self.eval_cmp(st, 'Le', b, a)
        elif op == 'Eq':
            la, ha = self.rng(st, a)
            lb, hb = self.rng(st, b)
            if a == b or (la == ha == lb == hb):
                return True
            if self.reach(st, a, b, False) and self.reach(st, b, a, False):
                return True
            if self.prove_ne(st, a, b):
                return False
        elif op == 'Ne':
            r = self.eval_cmp(st, 'Eq', a, b)
            return None if r is None else (not r)
        return None

    def assume_cmp(self, st, op, a, b, truth):
        """Refine st under (a op b) == truth. Raises Infeasible."""
        if not truth:
            op = {'Lt': 'Ge', 'Le': 'Gt', 'Gt': 'Le', 'Ge': 'Lt', 'Eq': 'Ne', 'Ne': 'Eq'}[op]
        if op == 'Gt':
            return self.assume_cmp(st, 'Lt', b, a, True)
        if op == 'Ge':
            return self.assume_cmp(st, 'Le', b, a, True)
        la, ha = self.rng(st, a)
        lb, hb = self.rng(st, b)
        if op == 'Lt':
            if a == b:
                raise Infeasible()
            self.refine(st, a, hi=hb - 1)
            self.refine(st, b, lo=la + 1)
            st.rel.add(('lt', a, b))
            self.derive_from_defs(st, a, upper=self.rng(st, a)[1])
        elif op == 'Le':
            self.refine(st, a, hi=hb)
            self.refine(st, b, lo=la)
            if a != b:
                st.rel.add(('le', a, b))
            self.derive_from_defs(st, a, upper=self.rng(st, a)[1])
        elif op == 'Eq':
            lo, hi = max(la, lb), min(ha, hb)
            if lo > hi:
                raise Infeasible()
            if self.prove_ne(st, a, b) and a != b:
                raise Infeasible()
            st.iv[a] = (lo, hi)
            st.iv[b] = (lo, hi)
            if a != b:
                st.rel.add(('eq', a, b))
            self.derive_from_defs(st, a, upper=hi)
            self.derive_from_defs(st, b, upper=hi)
        elif op == 'Ne':
            if a == b:
                raise Infeasible()
            if la == ha == lb == hb:
                raise Infeasible()
            # trim singleton from the ends
            if lb == hb:
                if la == lb:
                    self.refine(st, a, lo=la + 1)
                elif ha == lb:
                    self.refine(st, a, hi=ha - 1)
            if la == ha:
                if lb == la:
                    self.refine(st, b, lo=lb + 1)
                elif hb == la:
                    self.refine(st, b, hi=hb - 1)
            st.rel.add(('ne', a, b))
            self.derive_from_defs(st, a, upper=self.rng(st, a)[1])
            self.derive_from_defs(st, b, upper=self.rng(st, b)[1])

    def derive_from_defs(self, st, v, upper):
        """If v = saturating_add(x, y) and v <= upper < type max, the sum did not saturate: x + y <= upper."""
        d = self.idef.get(v)
        if not d:
            return
        if d[0] == 'sat_add':
            _, x, y, tmax = d
            if upper < tmax:
                st.rel.add(('sumle', x, y, upper))
                self.refine(st, x, hi=upper - self.rng(st, y)[0])
                self.refine(st, y, hi=upper - self.rng(st, x)[0])
        elif d[0] == 'cast' and d[1] in st.iv:
            # lossless cast chain handled by shared ids; nothing to do
            pass

    # ---- floats ----------------------------------------------------------------------------------
    @staticmethod
    def f_const(c):
        if c != c:
            return ('float', -INF, INF, True)
        return ('float', c, c, False)

    # ---- joins -----------------------------------------------------------------------------------
    def join_outcomes(self, outs):
        """outs: list of (st, retval). Returns a single (st, retval)."""
        base_st, base_v = outs[0]
        st = base_st.copy()
        v = base_v
        for (s2, v2) in outs[1:]:
            st, v = self.join2(st, v, s2, v2)
        return st, v

    def join2(self, s1, v1, s2, v2):
        out = St()
        # interval hull for ids known on both sides; ids of one side are kept
        out.iv = dict(s1.iv)
        oiv = out.iv
        for k, r2 in s2.iv.items():
            r1 = oiv.get(k)
            if r1 is None:
                oiv[k] = r2
            elif r1 != r2:
                oiv[k] = (r1[0] if r1[0] < r2[0] else r2[0], r1[1] if r1[1] > r2[1] else r2[1])
        b2 = s2.bv
        out.bv = {k: b for k, b in s1.bv.items() if b2.get(k) is b}
        out.rel = s1.rel & s2.rel if s1.rel is not s2.rel else set(s1.rel)
        out.fnn = s1.fnn & s2.fnn
        out.fb = {k: (min(v[0], s2.fb[k][0]), max(v[1], s2.fb[k][1])) for k, v in s1.fb.items() if k in s2.fb}
        memo = {}
        c1, c2 = s1.cells, s2.cells
        oc = dict(c1)
        out.cells = oc
        todo = []
        for c, b in c2.items():
            a_ = oc.get(c)
            if a_ is None:
                oc[c] = b
            elif a_ is not b and a_ != b:
                oc[c] = None
                todo.append(c)
        for c in todo:
            if oc[c] is None:
                oc[c] = self.join_val(out, s1, c1[c], s2, c2[c], memo)
        rv = self.join_val(out, s1, v1, s2, v2, memo) if v1 is not None and v2 is not None else None
        return out, rv

    def join_candidates(self, out, s1, s2):
        """ids of integer cells that are the same value on both sides (few: sizes, bounds, configuration fields)"""
        key = (id(s1), id(s2))
        if getattr(self, '_jc_key', None) != key:
            cands = []
            seen = set()
            for c, v in s1.cells.items():
                if v is not None and v[0] in ('int', 'buf'):
                    w = s2.cells.get(c)
                    vid = v[2] if v[0] == 'int' else v[1]
                    if w is not None and w[0] == v[0] and (w[2] if w[0] == 'int' else w[1]) == vid and vid not in seen:
                        seen.add(vid)
                        cands.append(vid)
            self._jc_key = key
            self._jc = cands[-64:]
        return self._jc

    def join_cell(self, out, s1, c1, s2, c2, memo):
        if c1 == c2:
            if c1 not in out.cells or out.cells[c1] is None:
                a, b = s1.cells.get(c1), s2.cells.get(c2)
                if a is None or b is None:
                    out.cells[c1] = a if a is not None else b
                else:
                    out.cells[c1] = ('top', 'cycle')
                    out.cells[c1] = a if a == b else self.join_val(out, s1, a, s2, b, memo)
            return c1
        k = (c1, c2)
        if k in memo:
            return memo[k]
        n = self.cid()
        memo[k] = n
        out.cells[n] = ('top', 'cycle')
        out.cells[n] = self.join_val(out, s1, s1.cells.get(c1, ('top', '?')), s2, s2.cells.get(c2, ('top', '?')), memo)
        return n

    def join_val(self, out, s1, a, s2, b, memo):
        if a == b:
            return a
        ka, kb = a[0], b[0]
        if ka != kb and not ({ka, kb} <= {'fn', 'fnset'}):
            return ('top', 'join')
        if ka == 'int':
            if a[2] == b[2]:
                return a
            l1, h1 = self.rng(s1, a[2])
            l2, h2 = self.rng(s2, b[2])
            n = self.vid()
            out.iv[n] = (min(l1, l2), max(h1, h2))
            # relations that hold on both sides towards ids that survive the join are kept for the joined value
            u1 = self.upper_set(s1, a[2])
            u2 = self.upper_set(s2, b[2])
            cands = set(u1) | set(u2)
            if cands:
                for X in cands:
                    if X == a[2] or X == b[2]:
                        continue
                    # X must denote the same value on both sides (an id is a fixed mathematical value, so it does)
                    st1 = u1.get(X)
                    st2 = u2.get(X)
                    if st1 is None:
                        st1 = True if self.rng(s1, a[2])[1] < self.rng(s1, X)[0] else (False if self.rng(s1, a[2])[1] <= self.rng(s1, X)[0] else None)
                    if st2 is None:
                        st2 = True if self.rng(s2, b[2])[1] < self.rng(s2, X)[0] else (False if self.rng(s2, b[2])[1] <= self.rng(s2, X)[0] else None)
                    if st1 is None or st2 is None:
                        continue
                    out.rel.add(('lt' if (st1 and st2) else 'le', n, X))
            return ('int', a[1], n)
        if ka == 'bool':
            n = self.vid()
            x, y = s1.bv.get(a[1]), s2.bv.get(b[1])
            if x is not None and x == y:
                out.bv[n] = x
            return ('bool', n)
        if ka == 'float':
            def view(s, v):
                lo, hi, nan = v[1], v[2], v[3]
                if len(v) > 4:
                    if v[4] in s.fnn:
                        nan = False
                    if v[4] in s.fb:
                        lo, hi, nan = max(lo, s.fb[v[4]][0]), min(hi, s.fb[v[4]][1]), False
                return lo, hi, nan
            l1, h1, n1 = view(s1, a)
            l2, h2, n2 = view(s2, b)
            return ('float', min(l1, l2), max(h1, h2), n1 or n2)
        if ka == 'buf':
            if a[1] == b[1]:
                return a
            l1, h1 = self.rng(s1, a[1])
            l2, h2 = self.rng(s2, b[1])
            n = self.vid()
            out.iv[n] = (min(l1, l2), max(h1, h2))
            return ('buf', n)
        if ka == 'ref':
            return ('ref', self.join_cell(out, s1, a[1], s2, b[1], memo))
        if ka == 'tuple':
            if len(a[1]) != len(b[1]):
                return ('top', 'join')
            return ('tuple', tuple(self.join_cell(out, s1, x, s2, y, memo) for x, y in zip(a[1], b[1])))
        if ka == 'adt':
            if a[1] != b[1]:
                return ('top', 'join')
            va = a[2]
            vb = b[2]
            variants = None if (va is None or vb is None) else (va | vb)
            fields = {}
            for vn in set(a[3]) | set(b[3]):
                fa, fb = a[3].get(vn), b[3].get(vn)
                live_a = va is None or vn in va
                live_b = vb is None or vn in vb
                if fa is not None and fb is not None and live_a and live_b:
                    fl = {}
                    for fn in fa:
                        if fn in fb:
                            fl[fn] = self.join_cell(out, s1, fa[fn], s2, fb[fn], memo)
                    fields[vn] = fl
                elif fa is not None and (live_a or fb is None):
                    fields[vn] = fa
                    self.import_cells(out, s1, fa.values())
                elif fb is not None:
                    fields[vn] = fb
                    self.import_cells(out, s2, fb.values())
            return ('adt', a[1], variants, fields)
        if ka == 'closure':
            return a if a[1] == b[1] else ('top', 'join')
        if ka in ('fn', 'fnset'):
            # function values: the set of functions the pointer may denote
            sa = a[1] if ka == 'fnset' else frozenset([a[1]])
            sb = b[1] if kb == 'fnset' else frozenset([b[1]])
            u = sa | sb
            return ('fnset', u) if len(u) <= 64 else ('top', 'join')
        return ('top', 'join')

    def import_cells(self, out, src, cids):
        work = list(cids)
        while work:
            c = work.pop()
            if c in out.cells and out.cells[c] is not None:
                continue
            v = src.cells.get(c)
            if v is None:
                continue
            out.cells[c] = v
            work.extend(child_cells(v))


def child_cells(v):
    k = v[0]
    if k == 'ref':
        return [v[1]]
    if k == 'tuple':
        return list(v[1])
    if k == 'adt':
        out = []
        for fl in v[3].values():
            out.extend(fl.values())
        return out
    if k == 'closure':
        return list(v[2])
    return []


def subst(tyj, sub):
    if not sub:
        return tyj
    t = tyj['t']
    if t == 'param':
        return sub.get(tyj['n'], tyj)
    if t == 'adt':
        return dict(tyj, args=[subst(a, sub) for a in tyj['args']])
    if t in ('ref', 'ptr'):
        return dict(tyj, to=subst(tyj['to'], sub))
    if t in ('slice', 'array'):
        return dict(tyj, of=subst(tyj['of'], sub))
    if t == 'tuple':
        return dict(tyj, of=[subst(a, sub) for a in tyj['of']])
    return tyj
