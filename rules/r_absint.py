"""Rules built on the abstract interpreter:
A01  constructor-like entry points reach no panic for any parameter value (+ documented too-small lengths give Err)
A02  next() of successfully initialised instances: no config-determined panic (empty-window push, window index, integer overflow)
A03  default configurations validate and initialise"""
import re
import time

from engine import RuleResult, Broken
from model import Model, T_METHOD, T_CONFIG, T_MACTOR, T_INSTANCE
from absint import St, Budget, INT_RANGE
from absexec import Exec
from mir import Body, strip_generics

# obligations discharged by a recorded argument outside the abstract domain: (kind, function, detail) -> argument
def shape(detail):
    """operand names erased: the recorded argument is about the operation, not about how locals are called"""
    return re.sub(r'\b[a-z_][A-Za-z0-9_.]*\b', '_', detail)


ABSINT_MANUAL = {
    ('overflow', '<methods::lin_reg::LinReg as core::method::Method>::new', 'Sub(Mul(_, _), Mul(_, _))'):
        'n*sum(i^2) - (sum i)^2 = n^2 (n^2-1)/12 >= 0 for the sums over 0..n-1 (Cauchy-Schwarz); interval arithmetic cannot relate the two products',
}

# documented panics of the public Window constructors (`# Panics` sections): not violations of C01
DOCUMENTED_PANICS = {
    ('core::window::Window', 'new', 'debug_assert'): 'doc: "may panic if size is equal to PeriodType::MAX" (development mode)',
    ('core::window::Window', 'from_parts', 'assert'): 'doc: "will panic if length of the slice is >= PeriodType::MAX" / "index >= slice length"',
    ('core::window::Window', 'from', 'assert'): 'From<Vec>/From<Box<[T]>> forward to from_parts(.., 0): documented there',
}


def entry_points(m):
    f = m.f
    out = []   # (group, label, body id)

    def mono(def_path, allow_generic=False):
        ms = f.mono_bodies_of(def_path)
        if ms:
            return ms[0]['id']
        if allow_generic and f.generic_body(def_path):
            return 'G:' + def_path
        return None

    for i in m.method_impls:
        p = m.impl_fn_path(i, 'new')
        mid = mono(p)
        if mid:
            out.append(('method-new', m.short(i) + '::new', mid))
    mtypes = m.types_implementing(T_METHOD)
    for fp, fn in sorted(f.fns.items()):
        if fn['name'] == 'new' and fn['parent_kind'] == 'impl' and fn['vis'] == 'pub' and not fp.startswith('<'):
            owner = fp.rsplit('::', 1)[0]
            base = owner.split('::<')[0]
            if base in mtypes:
                mid = mono(fp)
                if mid:
                    out.append(('method-new', base.rsplit('::', 1)[-1] + '::new(inherent)', mid))
    for ci in m.config_impls:
        for fn in ('init', 'validate', 'set'):
            mid = mono(m.impl_fn_path(ci, fn))
            if mid:
                out.append(('config-' + fn, m.short(ci) + '::' + fn, mid))
    for i in f.impls:
        if i['trait'] == T_MACTOR and i['self_tyj']['t'] == 'adt' and i['self_tyj']['def'] in f.adts:
            mid = mono(m.impl_fn_path(i, 'init'))
            if mid:
                out.append(('ma-init', 'MA::init', mid))
        if i['trait'] in ('std::str::FromStr', 'std::convert::TryFrom') and i['self_tyj']['t'] == 'adt' and i['self_tyj']['def'] in f.adts:
            for it in i['items']:
                if it['kind'] == 'Fn':
                    mid = mono(it['path'])
                    if mid:
                        out.append(('parser', '%s::%s [%s]' % (m.short(i), it['name'], i['trait_ref']), mid))
    # Window public constructors and conversions
    for fp, fn in sorted(f.fns.items()):
        if fp.startswith('core::window::Window::<T>::') and fn['name'] in ('new', 'from_parts', 'empty') and fn['vis'] == 'pub':
            mid = mono(fp)
            if mid:
                out.append(('window-ctor', 'Window::' + fn['name'], mid))
    for i in f.impls:
        if i['self_tyj'].get('def') == 'core::window::Window' and i['trait'] == 'std::convert::From':
            for it in i['items']:
                if it['kind'] == 'Fn':
                    mid = mono(it['path'])
                    if mid:
                        out.append(('window-ctor', 'Window::from [%s]' % i['trait_ref'], mid))
    # hand-written Deserialize impls (generic over the deserializer: analysed on the generic body)
    for i in f.impls:
        if (i.get('trait_crate') or '').startswith('serde') and i['trait_name'] == 'Deserialize' and not i['derived'] and i['self_tyj']['t'] == 'adt' \
                and i['self_tyj']['def'] in f.adts:
            for it in i['items']:
                if it['kind'] == 'Fn' and it['name'] == 'deserialize':
                    mid = mono(it['path'], allow_generic=True)
                    if mid:
                        out.append(('deserialize', m.short(i) + '::deserialize', mid))
    return out


def initial_args(ex, st, body, pins=None):
    args = []
    for i in range(1, body.arg_count + 1):
        v = ex.top_of(st, body.locals[i]['tyj'])
        if pins and i in pins:
            v = pin_value(ex, st, v, pins[i])
        args.append(v)
    return args


def pin_value(ex, st, v, pin):
    """pin: int (whole value) or {tuple index: int}"""
    if isinstance(pin, dict):
        if v[0] == 'tuple':
            for idx, val in pin.items():
                c = v[1][idx]
                cv = st.cells[c]
                if cv[0] == 'int':
                    st.iv[cv[2]] = (val, val)
        return v
    if v[0] == 'int':
        st.iv[v[2]] = (pin, pin)
    elif v[0] == 'buf':
        st.iv[v[1]] = (pin, pin)
    return v


def run_entry(f, body_id, pins=None, max_states=60000, args_fn=None, setup=None):
    ex = Exec(f, max_states=max_states)
    if setup:
        setup(ex)
    b = ex.body(body_id)
    st = St()
    args = args_fn(ex, st, b) if args_fn else initial_args(ex, st, b, pins)
    t0 = time.time()
    try:
        outs = ex.run_fn(b, st, args, [body_id])
        status = 'ok'
    except Budget as e:
        outs = []
        status = 'budget: %s' % e
    return ex, outs, status, time.time() - t0


def ret_variants(ex, outs):
    vs = set()
    for s, v in outs:
        if v[0] == 'adt' and v[2] is not None:
            vs |= set(v[2])
        elif v[0] == 'bool':
            vs.add(str(s.bv.get(v[1])))
        else:
            vs.add(v[0])
    return sorted(vs)


def chain_str(chain):
    out = []
    for c in chain[-4:]:
        c2 = re.sub(r'<[^<>]*>', '', c)
        out.append('::'.join(c2.split('::')[-2:]) if '::' in c2 else c2)
    return ' > '.join(out)


def report(r, label, ex, documented=None):
    """Turn the undischarged obligations of one entry into violations (or table / documented discharges)."""
    seen = set()
    nman = ndoc = 0
    for ob in ex.obligations:
        key = '%s|%s' % (label, ob.key())
        if key in seen:
            continue
        seen.add(key)
        mk = (ob.kind, ob.fn, shape(ob.detail))
        if mk in ABSINT_MANUAL:
            nman += 1
            continue
        if documented:
            fnbase = strip_generics(ob.fn)
            hit = None
            for (ty, fname, kind), why in DOCUMENTED_PANICS.items():
                # the documented panic may be written as assert!/debug_assert! or as an explicit call of a diverging (cold) helper: any
                # *explicit* panic of the documented function is the documented one; bounds / overflow / unwrap failures never are
                if (ob.kind == kind or ob.kind == 'panic') and re.sub(r'::<[^>]*>', '', ob.fn).startswith(ty) and re.sub(r'::<[^>]*>', '', ob.fn).endswith('::' + fname):
                    hit = why
            if hit:
                ndoc += 1
                continue
        r.violate(key, '%s can reach a %s in %s: %s [%s] via %s' % (label, ob.kind, ob.fn, ob.detail, '; '.join(ob.operands), chain_str(ob.chain)),
                  ob.file, ob.line, {'chain': ob.chain, 'operands': ob.operands})
    return nman, ndoc


def a01_constructors(ctx, groups=None, rule_id='A01', title=None, labels=None, min_entries=1, fs='default'):
    f = ctx.facts(fs)
    m = Model(f)
    r = RuleResult(rule_id, title or 'constructor-like entry points (method constructors, MA::init, indicator init/validate/set, parsers, window '
                            'constructors, hand-written deserialize) reach no panic / overflow / failed assertion for ANY parameter value')
    eps = entry_points(m)
    n = 0
    undec = {}
    foreign = {}
    loops = {}
    tot_discharged = tot_manual = tot_doc = 0
    kinds = {}
    per_group = {}
    for group, label, bid in eps:
        if groups and group not in groups:
            continue
        if labels and not any(l in label for l in labels):
            continue
        n += 1
        per_group[group] = per_group.get(group, 0) + 1
        ex, outs, status, dt = run_entry(f, bid)
        r.inst(label, bool(ex.obligations) or ex.discharged > 0)
        b = ex.body(bid)
        if status != 'ok':
            r.violate(label + '|undecided|budget', 'analysis budget exceeded for %s (%s)' % (label, status), b.file, b.line)
            continue
        tot_discharged += ex.discharged
        for k, v in ex.discharge_kinds.items():
            kinds[k] = kinds.get(k, 0) + v
        for k, v in ex.undecided_callees.items():
            undec.setdefault(k, label)
        for k, v in getattr(ex, 'foreign_unmodelled', {}).items():
            foreign.setdefault(k, label)
        for k, v in ex.undecided_loops.items():
            loops.setdefault(k, label)
        nman, ndoc = report(r, label, ex, documented=(group == 'window-ctor'))
        tot_manual += nman
        tot_doc += ndoc
        if len(r.samples) < 10 and (ex.discharged or outs):
            r.sample({'entry': label, 'returns': ret_variants(ex, outs), 'panic sites refuted': ex.discharged,
                      'undischarged': len(ex.obligations), 'functions interpreted': len(ex.visited_fns), 'seconds': round(dt, 2)})
        # panics always/never: an entry that can return nothing at all
        if not outs and not ex.obligations:
            r.violate(label + '|no-return', '%s has no feasible returning path in the abstract semantics' % label, b.file, b.line)
    r.info.update({'entries': n, 'entries_by_group': per_group, 'panic_sites_refuted': tot_discharged, 'refuted_by_kind': kinds,
                   'discharged_by_recorded_argument': tot_manual, 'documented_panics_accepted': tot_doc,
                   'recorded_arguments': {'|'.join(k): v for k, v in ABSINT_MANUAL.items()}})
    for k, lab in sorted(foreign.items()):
        r.undecided.append('std function without a summary, over-approximated (any result, no panic assumed): %s, first met in %s' % (k, lab))
    if undec:
        raise Broken('abstract interpreter met callees without a summary: %s' % sorted(undec.items())[:8])
    if loops:
        raise Broken('abstract interpreter met a loop it does not summarise: %s' % sorted(loops.items())[:8])
    r.floor('entry points', 170 if not groups and not labels else min_entries, n)
    return r


def a01t_parser_truncation(ctx):
    """C18: a text parser that narrows a parsed number with a lossy `as` cast accepts texts that are not the text form of any value
    (`sma-261` read as SMA(5))."""
    f = ctx.facts('default')
    m = Model(f)
    r = RuleResult('A01t', 'no FromStr / TryFrom<&str|String> parser narrows a number it parsed with a lossy `as` cast (out-of-range text must be an error, not another value)')
    n = 0
    seen = set()
    for group, label, bid in entry_points(m):
        if group != 'parser':
            continue
        n += 1
        ex, outs, status, dt = run_entry(f, bid)
        r.inst(label)
        for fn, src_ty, to, rng in ex.truncations:
            key = '%s|%s->%s' % (strip_inst_(fn), src_ty, to)
            if key in seen:
                continue
            seen.add(key)
            b = ex.body(bid)
            r.violate(key, '%s narrows a %s in [%s, %s] to %s with `as`: values outside %s wrap silently instead of being rejected (reached from %s)' % (
                fn, src_ty, rng[0], rng[1], to, to, label), b.file, None)
        if not ex.truncations:
            r.sample({'parser': label, 'lossy casts': 0})
    r.floor('parsers', 4, n)
    return r


def strip_inst_(fn):
    import re as _re
    return _re.sub(r'::<[^<>]*>', '', fn)


def a01s_saturated_capacity(ctx, fs='default'):
    """C20: a saturating addition whose result can sit at the capacity of its integer type and is then used as a number (converted, added,
    stored) gives a width-dependent value: 255 on the default build where the wide builds compute 256."""
    f = ctx.facts(fs)
    m = Model(f)
    r = RuleResult('A01s', 'no constructor / init / validate uses, as a number, the result of a saturating addition that can have saturated at the '
                           'integer type\'s capacity for an accepted parameter (comparing it in order to reject the parameter is fine)')
    n = nsat = 0
    seen = set()
    for group, label, bid in entry_points(m):
        if group not in ('method-new', 'ma-init', 'config-init', 'window-ctor'):
            continue
        n += 1
        ex, outs, status, dt = run_entry(f, bid)
        r.inst(label, bool(getattr(ex, 'saturations', None)))
        nsat += len(set(getattr(ex, 'saturations', []) or []))
        for fn, what, how, file_ in getattr(ex, 'saturated_uses', []) or []:
            short = fn.split(' as ')[0].lstrip('<').rsplit('::', 1)[-1] if fn.startswith('<') else fn.rsplit('::', 2)[-2]
            key = '%s|saturating_add|%s' % (fn, how.split(' ')[0])
            if key in seen:
                continue
            seen.add(key)
            r.violate(key, '%s: %s can have saturated at the capacity of its type for an accepted parameter and is then %s: the value depends on the PeriodType width '
                           '(reached from %s)' % (fn, what, how, label), file_, None)
    r.info['saturating additions that can saturate (all only compared)'] = nsat
    r.floor('entry points', 90, n)
    return r


# ---------------------------------------------------------------------------------------
# clause (c): documented too-small lengths give Err

DOC_RX = re.compile(r'`(\w+)`(?:[^`\n]*?)\s(?:should|must) be > `?(\d+)`?')


def a01c_too_small(ctx):
    f = ctx.facts('default')
    m = Model(f)
    r = RuleResult('A01c', 'a length the constructor documents as too small ("should be > N") makes it return Err for every value of the '
                           'other parameters')
    n = 0
    for i in m.method_impls:
        adt = m.adt_of_impl(i)
        if adt is None:
            continue
        reqs = DOC_RX.findall(adt.get('doc') or '')
        if not reqs:
            continue
        ms = f.mono_bodies_of(m.impl_fn_path(i, 'new'))
        if not ms:
            continue
        b = Body(ms[0])
        short = m.short(i)
        pty = b.locals[1]['tyj']
        # distinct (param, N) in order of first appearance
        seen = []
        for nm, nn in reqs:
            if (nm, int(nn)) not in seen:
                seen.append((nm, int(nn)))
        for pos, (nm, N) in enumerate(seen):
            if pty['t'] == 'int' or (pty['t'] == 'adt' and pty['def'] == 'std::vec::Vec'):
                if pos > 0:
                    continue
                pins_list = [{1: v} for v in range(0, N + 1)]
            elif pty['t'] == 'tuple' and pos < len(pty['of']) and pty['of'][pos]['t'] == 'int' and len(seen) == len(pty['of']):
                pins_list = [{1: {pos: v}} for v in range(0, N + 1)]
            else:
                continue
            for pins in pins_list:
                n += 1
                ex, outs, status, dt = run_entry(f, ms[0]['id'], pins=pins)
                val = list(pins.values())[0]
                val = val if isinstance(val, int) else list(val.values())[0]
                key = '%s::new|%s=%d' % (short, nm, val)
                r.inst(key)
                vs = ret_variants(ex, outs)
                if status != 'ok':
                    r.violate(key + '|budget', 'budget exceeded', b.file, b.line)
                elif vs != ['Err']:
                    r.violate(key + '|accepted', '%s::new with %s = %d (documented "%s should be > %d") can return %s%s' % (
                        short, nm, val, nm, N, vs or 'nothing', ' and can panic: ' + ex.obligations[0].key() if ex.obligations else ''), b.file, b.line)
                else:
                    r.sample({'constructor': short + '::new', 'pinned': '%s = %d' % (nm, val), 'returns': vs})
    r.floor('pinned runs', 30, n)
    return r


# ---------------------------------------------------------------------------------------
# A03 defaults


def finite_floats(ex, st, v, depth=0):
    """A *valid* input value: every float component finite and not NaN."""
    FM = 1.7976931348623157e308
    if depth > 6:
        return v
    if v[0] == 'float':
        return ('float', -FM, FM, False)
    if v[0] == 'ref':
        st.cells[v[1]] = finite_floats(ex, st, st.cells[v[1]], depth + 1)
        return v
    if v[0] == 'adt':
        for fl in v[3].values():
            for c in fl.values():
                st.cells[c] = finite_floats(ex, st, st.cells[c], depth + 1)
        return v
    if v[0] == 'tuple':
        for c in v[1]:
            st.cells[c] = finite_floats(ex, st, st.cells[c], depth + 1)
    return v


def a03_defaults(ctx):
    f = ctx.facts('default')
    m = Model(f)
    r = RuleResult('A03', 'the Default configuration of every indicator validates and initialises (abstract run with the default literals)')
    n = 0
    for ci in m.config_impls:
        cname = m.short(ci)
        adtp = m.adt_path_of_impl(ci)
        dimpl = [i for i in f.impls if i['trait'] == 'std::default::Default' and i['self_tyj'].get('def') == adtp]
        key = cname + '|default'
        if not dimpl:
            r.inst(key, False)
            r.violate(key + '|no-default', '%s has no Default impl' % cname, ci['file'], ci['line'])
            continue
        dp = m.impl_fn_path(dimpl[0], 'default')
        dms = f.mono_bodies_of(dp)
        ims = f.mono_bodies_of(m.impl_fn_path(ci, 'init'))
        vms = f.mono_bodies_of(m.impl_fn_path(ci, 'validate'))
        if not dms or not ims or not vms:
            raise Broken('no monomorphic body for default/init/validate of %s' % cname)
        n += 1
        ex = Exec(f)
        st = St()
        try:
            douts = ex.run_fn(ex.body(dms[0]['id']), st, [], [dms[0]['id']])
        except Budget:
            douts = []
        r.inst(key)
        if len(douts) != 1:
            r.violate(key + '|default-undecided', 'Default::default of %s has %d abstract outcomes' % (cname, len(douts)), dimpl[0]['file'], dimpl[0]['line'])
            continue
        s1, cfg = douts[0]
        # validate(&default)
        vb = ex.body(vms[0]['id'])
        s2 = s1.copy()
        vouts = ex.run_fn(vb, s2, [('ref', ex.alloc(s2, ex.copy_val(s2, cfg)))], [vms[0]['id']])
        vvals = set()
        for s, v in vouts:
            vvals.add(s.bv.get(v[1]) if v[0] == 'bool' else None)
        if vvals != {True}:
            r.violate(key + '|invalid', 'validate() of the default %s configuration is not provably true (abstract value %s)' % (cname, sorted(map(str, vvals))), vb.file, vb.line)
        # init(default, candle)
        ib = ex.body(ims[0]['id'])
        s3 = s1.copy()
        ex.obligations = []
        candle = finite_floats(ex, s3, ex.top_of(s3, ib.locals[2]['tyj']))
        iouts = ex.run_fn(ib, s3, [ex.copy_val(s3, cfg), candle], [ims[0]['id']])
        vs = ret_variants(ex, iouts)
        # Err(InvalidCandles) depends on the candle (non-finite derived value), not on the configuration
        errs = set()
        for s_, v_ in iouts:
            if v_[0] == 'adt' and v_[2] is not None and 'Err' in v_[2]:
                ev = s_.cells[v_[3]['Err']['0']] if '0' in v_[3].get('Err', {}) else ('top',)
                if ev[0] == 'adt' and ev[2] is not None:
                    errs |= set(ev[2])
                else:
                    errs.add('?')
        cfg_errs = sorted(e for e in errs if e != 'InvalidCandles')
        if 'Ok' not in vs or cfg_errs:
            r.violate(key + '|init-not-ok', 'init() of the default %s configuration can return Err(%s)' % (cname, '/'.join(cfg_errs) or '?'), ib.file, ib.line)
        report(r, cname + '::init(default)', ex)
        r.sample({'config': cname, 'validate(default)': sorted(map(str, vvals)), 'init(default)': vs, 'error kinds (candle-dependent only)': sorted(errs)})
    r.floor('default configurations', 37, n)
    return r


# ---------------------------------------------------------------------------------------
# A02 next() with instance facts

A02_KINDS = ('debug_assert', 'overflow', 'panic', 'unwrap', 'expect', 'divisionbyzero', 'remainderbyzero')


def fields_written_outside_constructors(f):
    """(adt path, field) written through `self` in any function that is not constructor-like."""
    from mir import self_field_of_place
    out = set()
    ctor = ('new', 'init', 'from_parts', 'empty', 'default', 'deserialize', 'from', 'from_str', 'try_from', 'clone')
    for bid, bj in f.bodies.items():
        if not bj['generic']:
            continue
        fname = bj['def'].rsplit('::', 1)[-1]
        if fname in ctor or bj['arg_count'] < 1:
            continue
        if fname == 'set' and 'IndicatorConfig>::set' in bj['def']:
            # set() edits a configuration value before init(); an instance owns a private copy reachable only through &Config
            continue
        l1 = bj['locals'][1]['tyj']
        if l1['t'] != 'ref' or not l1.get('mut'):
            continue
        to = l1['to']
        if to['t'] != 'adt':
            continue
        for blk in bj['blocks']:
            for s in blk['stmts']:
                if s['s'] == 'assign':
                    fp = self_field_of_place(s['pl'])
                    if fp:
                        out.add((to['def'], fp[0]))
            t = blk['term']
            if t['t'] == 'call':
                fp = self_field_of_place(t['dest'])
                if fp:
                    out.add((to['def'], fp[0]))
                # &mut self.field handed to a callee
                for a in t['args']:
                    if a['o'] in ('copy', 'move') and not a['pl']['p']:
                        pass
    return out


def havoc_mutable(ex, st, v, written, depth=0, seen=None):
    """Forget everything about fields that some non-constructor function writes (they are not invariants)."""
    if seen is None:
        seen = set()
    if depth > 8:
        return v
    if v[0] == 'adt':
        fields = {}
        for vn, fl in v[3].items():
            nf = {}
            for fn, c in fl.items():
                if c in seen:
                    nf[fn] = c
                    continue
                seen.add(c)
                cv = st.cells[c]
                if (v[1], fn) in written:
                    if cv[0] == 'int':
                        st.cells[c] = ex.mk_int(st, cv[1])
                    elif cv[0] == 'float':
                        st.cells[c] = ('float', float('-inf'), float('inf'), True)
                    elif cv[0] == 'bool':
                        st.cells[c] = ex.mk_bool(st)
                    elif cv[0] == 'adt' and cv[2] is not None and cv[1] in ('std::option::Option',):
                        st.cells[c] = ('top', cv[1])
                    elif cv[0] in ('adt', 'tuple'):
                        st.cells[c] = havoc_mutable(ex, st, cv, written, depth + 1, seen)
                    # buffers keep their ghost length (Box<[T]> is never reallocated by a field write of its contents)
                else:
                    if cv[0] in ('adt', 'tuple'):
                        st.cells[c] = havoc_mutable(ex, st, cv, written, depth + 1, seen)
                nf[fn] = c
            fields[vn] = nf
        return ('adt', v[1], v[2], fields)
    if v[0] == 'tuple':
        for c in v[1]:
            if c not in seen:
                seen.add(c)
                st.cells[c] = havoc_mutable(ex, st, st.cells[c], written, depth + 1, seen)
        return v
    return v


def normalise_windows(ex, st, v, depth=0, seen=None):
    """Re-impose the representation invariant of Window (proved inductive by rule A04) on every window inside an instance whose
    mutable fields were forgotten: buf.len == size, s_1 == size.saturating_sub(1), index <= s_1."""
    if seen is None:
        seen = set()
    if depth > 8 or v[0] not in ('adt', 'tuple'):
        return
    if v[0] == 'tuple':
        for c in v[1]:
            if c not in seen:
                seen.add(c)
                normalise_windows(ex, st, st.cells[c], depth + 1, seen)
        return
    import wroles
    WR = wroles.window_roles(ex.f)
    if v[1] == 'core::window::Window' and WR.variant in v[3]:
        fl = v[3][WR.variant]
        size = st.cells[fl[WR.size]]
        if size[0] == 'int':
            lo, hi = ex.rng(st, size[2])
            one = ex.mk_const_int(st, size[1], 1)
            s1 = ex.mk_int(st, size[1], max(lo - 1, 0), max(hi - 1, 0))
            ex.idef[s1[2]] = ('sat_sub', size[2], one[2])
            ex.dec_of.setdefault(size[2], []).append(s1[2])
            st.rel.add(('le', s1[2], size[2]))
            idx = ex.mk_int(st, size[1], 0, max(hi - 1, 0))
            st.rel.add(('le', idx[2], s1[2]))
            st.cells[fl[WR.last]] = s1
            st.cells[fl[WR.cursor]] = idx
            st.cells[fl[WR.buf]] = ('buf', size[2])
        return
    for vn, fs in v[3].items():
        for fn, c in fs.items():
            if c not in seen:
                seen.add(c)
                normalise_windows(ex, st, st.cells[c], depth + 1, seen)
    if v[1] in ('methods::highest_lowest_index::HighestIndex', 'methods::highest_lowest_index::LowestIndex'):
        # invariant proved inductive by rule A06: the age kept by the arg-extremum methods is < their window's length
        mr = WR.index_method(ex.f, v[1])
        for vn, fs in v[3].items():
            if mr and mr['age'] in fs and mr['window'] in fs:
                w = st.cells[fs[mr['window']]]
                if w[0] == 'adt' and WR.variant in w[3]:
                    size = st.cells[w[3][WR.variant][WR.size]]
                    if size[0] == 'int' and ex.rng(st, size[2])[0] >= 1:
                        age = ex.mk_int(st, size[1], 0, max(ex.rng(st, size[2])[1] - 1, 0))
                        st.rel.add(('lt', age[2], size[2]))
                        st.cells[fs[mr['age']]] = age


# overflow sites outside the generic decided kinds that the invariants now reach (function, prefix of the operation)
DECIDED_SITES = [
    ('indicators::aroon::AroonInstance', 'Sub(self.cfg.period, '),      # period - age: age < window length == period (A06)
]


def a02_next_with_facts(ctx, only=None, strict_module=None, rule_id='A02'):
    """strict_module: obligations located in functions of that module are violations whatever their kind (except
    assertions on the validity of inputs)."""
    f = ctx.facts('default')
    m = Model(f)
    r = RuleResult(rule_id, 'next() of every successfully initialised instance: with the integer facts init()/validate() establish as '
                          'invariants, no empty-window push, out-of-range window index, or integer overflow on configuration fields is reachable')
    written = fields_written_outside_constructors(f)
    n = 0
    not_decided = {}
    targets = []
    for ci in m.config_impls:
        ii = m.instance_impl_for_config(ci)
        if ii is None:
            continue
        ims = f.mono_bodies_of(m.impl_fn_path(ci, 'init'))
        nms = f.mono_bodies_of(m.impl_fn_path(ii, 'next'))
        if ims and nms:
            targets.append((m.short(ci), ims[0]['id'], nms[0]['id']))
    for i in m.method_impls:
        ims = f.mono_bodies_of(m.impl_fn_path(i, 'new'))
        nms = f.mono_bodies_of(m.impl_fn_path(i, 'next'))
        if ims and nms:
            targets.append((m.short(i), ims[0]['id'], nms[0]['id']))
    for label, init_id, next_id in targets:
        if only and label not in only:
            continue
        ex = Exec(f)
        st = St()
        ib = ex.body(init_id)
        try:
            outs = ex.run_fn(ib, st, initial_args(ex, st, ib), [init_id])
        except Budget as e:
            r.violate(label + '|init-budget', 'budget exceeded while computing instance facts', ib.file, ib.line)
            continue
        oks = []
        for s, v in outs:
            if v[0] == 'adt' and v[2] is not None and 'Ok' in v[2]:
                oks.append((s, s.cells[v[3]['Ok']['0']]))
        key = label + '|next'
        r.inst(key, bool(oks))
        if not oks:
            continue
        n += 1
        s0, inst = ex.join_outcomes(oks) if len(oks) > 1 else oks[0]
        s0 = s0.copy()
        inst = havoc_mutable(ex, s0, inst, written)
        normalise_windows(ex, s0, inst)
        nb = ex.body(next_id)
        ex.obligations = []
        ex.discharged = 0
        ex.split_bool_casts = ('core::window::',)      # the branchless cursor arithmetic of the ring buffer is evaluated per truth value
        args = [('ref', ex.alloc(s0, inst))]
        for k in range(2, nb.arg_count + 1):
            # C10 speaks of streams of valid finite inputs: every float component of the input is finite
            args.append(finite_floats(ex, s0, ex.top_of(s0, nb.locals[k]['tyj'])))
        try:
            nouts = ex.run_fn(nb, s0, args, [next_id])
        except Budget as e:
            not_decided[label] = 'budget'
            continue
        if ex.undecided_loops:
            not_decided[label] = 'loop in %s' % sorted(ex.undecided_loops)[0]
        seen = set()
        listed = []
        for ob in ex.obligations:
            k2 = ob.key()
            if k2 in seen:
                continue
            seen.add(k2)
            decided_kind = False
            if ob.kind == 'debug_assert' and 'empty window' in ob.detail:
                decided_kind = True
            elif ob.kind in ('boundscheck', 'overflow') and 'core::window::' in ob.fn:
                decided_kind = True     # ring-buffer accesses: decided with the representation invariant of A04
            elif ob.kind == 'panic' and 'Window' in ob.fn and ('index' in ob.fn or 'Index' in ob.fn):
                decided_kind = True
            elif ob.kind in ('boundscheck', 'overflow') and 'methods::highest_lowest_index::' in ob.fn:
                decided_kind = True     # decided with the age invariant of A06
            elif ob.kind == 'overflow' and any(site_fn in ob.fn and ob.detail.startswith(pref) for site_fn, pref in DECIDED_SITES):
                decided_kind = True
            elif ob.kind in ('unwrap', 'expect') and 'window' in ob.fn.lower():
                decided_kind = True
            elif ob.kind == 'overflow':
                # pure configuration arithmetic: every variable operand is a field of self.cfg
                names = re.findall(r'[A-Za-z_][A-Za-z_0-9.]*', re.sub(r'\b(Add|Sub|Mul|Div|Rem|Shl|Shr|Neg)\b', '', ob.detail))
                if names and all(nm.startswith('self.cfg.') or nm.startswith('cfg.') for nm in names):
                    decided_kind = True
            if strict_module and strict_module in ob.fn and ob.kind in ('overflow', 'boundscheck', 'panic', 'debug_assert', 'divisionbyzero',
                                                                      'remainderbyzero', 'unwrap', 'expect', 'unreachable'):
                decided_kind = True
            if decided_kind:
                r.violate('%s|%s' % (key, k2), 'an instance of %s accepted by init()/new() can reach a %s in %s during next(): %s [%s] via %s' % (
                    label, ob.kind, ob.fn, ob.detail, '; '.join(ob.operands), chain_str(ob.chain)), ob.file, ob.line)
            else:
                listed.append(k2)
        if len(r.samples) < 8:
            r.sample({'type': label, 'panic sites refuted in next()': ex.discharged, 'sites outside the decided kinds (listed only)': listed[:4]})
        if listed:
            r.info.setdefault('next_panic_sites_not_decided', {})[label] = listed[:12]
    r.info['not_decided'] = not_decided
    r.floor('instances analysed', 1 if only else 70, n)
    return r
