"""C13 / C01 / C09 structural rules: S17 serde coverage, S02 writer/reader tables, S10 state purity."""
import re

from engine import RuleResult, Broken
from facts import serde_attrs_of
from model import Model, T_METHOD, T_CONFIG, T_INSTANCE, T_MACTOR
from mir import Body, callee_def, callee_id, walk_tree, tree_str, self_field_of_place

FORBIDDEN_SERDE = ('skip', 'skip_serializing', 'skip_deserializing', 'skip_serializing_if', 'default', 'with',
                   'serialize_with', 'deserialize_with', 'flatten', 'from', 'try_from', 'into', 'getter', 'remote', 'other')


def state_roots(m):
    roots = {}
    for tr, impls in ((T_METHOD, m.method_impls), (T_INSTANCE, m.instance_impls), (T_CONFIG, m.config_impls),
                      (T_MACTOR, [i for i in m.f.impls if i['trait'] == T_MACTOR])):
        for i in impls:
            p = m.adt_path_of_impl(i)
            if p:
                roots.setdefault(p, set()).add(tr.rsplit('::', 1)[-1])
    return roots


def adts_in_ty(tj, out):
    t = tj['t']
    if t == 'adt':
        out.append(tj)
        for a in tj['args']:
            adts_in_ty(a, out)
    elif t in ('ref', 'ptr'):
        adts_in_ty(tj['to'], out)
    elif t in ('slice', 'array'):
        adts_in_ty(tj['of'], out)
    elif t == 'tuple':
        for a in tj['of']:
            adts_in_ty(a, out)


def field_closure(f, roots):
    """All local ADTs reachable through fields from the root ADTs. Returns {adt path: via}"""
    seen = {}
    work = [(r, r) for r in roots]
    while work:
        p, via = work.pop()
        if p in seen or p not in f.adts:
            continue
        seen[p] = via
        for v in f.adts[p]['variants']:
            for fl in v['fields']:
                out = []
                adts_in_ty(fl['tyj'], out)
                for a in out:
                    if a['def'] in f.adts and a['def'] not in seen:
                        work.append((a['def'], via))
    return seen


def _untagged_ambiguity(f, r, adt, short, tattrs, vattrs):
    """An untagged enum is restored as the FIRST variant that accepts the data. For variants wrapping structs (unknown fields are ignored by
    derived Deserialize) an earlier variant whose wire fields are a subset of a later one's swallows the later one: the snapshot of B comes
    back as an A. Also: two variants (or two fields) renamed to the same wire name."""
    words = set()
    for a in tattrs:
        inner = a[a.index('(') + 1:a.rindex(')')] if '(' in a else ''
        for part in split_top(inner):
            words.add(part.split('=')[0].split('(')[0].strip())
    variants = adt['variants']
    if 'untagged' in words and len(variants) > 1:
        wire = []
        for v in variants:
            names = None
            if len(v['fields']) == 1 and v['fields'][0]['tyj'].get('t') == 'adt' and v['fields'][0]['tyj'].get('def') in f.adts:
                inner_adt = f.adts[v['fields'][0]['tyj']['def']]
                ia = serde_attrs_of(f, inner_adt)
                deny = bool(ia) and any('deny_unknown_fields' in x for x in ia[0])
                if len(inner_adt['variants']) == 1 and not deny:
                    names = set(serde_field_names(f, inner_adt).values())
            elif len(v['fields']) > 1 or (v['fields'] and not v['fields'][0]['name'].isdigit()):
                names = {fl['name'] for fl in v['fields']}
            wire.append((v['name'], names))
        for i, (va_, na) in enumerate(wire):
            for vb_, nb in wire[i + 1:]:
                r.inst('%s|untagged|%s<%s' % (short, va_, vb_))
                if na is None or nb is None:
                    r.undecided.append('%s: untagged variants %s / %s are not both struct-like; whether their serialized forms can be told apart is not decided' % (short, va_, vb_))
                elif na <= nb:
                    r.violate('%s|untagged|%s-swallows-%s' % (short, va_, vb_), '%s is #[serde(untagged)]: a serialized %s (fields %s) is accepted by the earlier variant %s (fields %s, unknown '
                              'fields ignored) and restored as a different kind of state' % (short, vb_, sorted(nb), va_, sorted(na)), adt['file'], adt['line'])
    # wire-name collisions introduced by rename
    if len(variants) > 1:
        seen = {}
        for v in variants:
            nm = v['name']
            for a in vattrs.get(v['name'], []):
                mm = re.search(r'rename\s*=\s*"([^"]*)"', a)
                if mm:
                    nm = mm.group(1)
            if nm in seen:
                r.violate('%s|variant-names-collide|%s' % (short, nm), 'variants %s and %s of %s are both serialized as "%s"' % (seen[nm], v['name'], short, nm), adt['file'], adt['line'])
            seen[nm] = v['name']


def s17_serde_coverage(ctx):
    f = ctx.facts('default')
    m = Model(f)
    r = RuleResult('S17', 'every method / indicator instance / configuration type and every crate type in its field closure has '
                          'Serialize and Deserialize impls; derived ones carry no field-dropping or value-altering serde attribute')
    roots = state_roots(m)
    clo = field_closure(f, roots)
    ser = {}
    de = {}
    for i in f.impls:
        if i.get('trait_crate') and i['trait_crate'].startswith('serde') and i['self_tyj']['t'] == 'adt':
            if i['trait_name'] == 'Serialize':
                ser[i['self_tyj']['def']] = i
            elif i['trait_name'] == 'Deserialize':
                de[i['self_tyj']['def']] = i
    n_derived = 0
    for p in sorted(clo):
        adt = f.adts[p]
        short = p.rsplit('::', 1)[-1]
        kinds = ','.join(sorted(roots.get(p, ['field of ' + clo[p].rsplit('::', 1)[-1]])))
        r.inst(p)
        for what, table in (('Serialize', ser), ('Deserialize', de)):
            if p not in table:
                r.violate('%s|no-%s' % (short, what), '%s (%s) has no %s impl: its snapshots cannot be %s' % (
                    short, kinds, what, 'taken' if what == 'Serialize' else 'restored'), adt['file'], adt['line'])
        derived = (p in ser and ser[p]['derived']) or (p in de and de[p]['derived'])
        if derived:
            n_derived += 1
            at = serde_attrs_of(f, adt)
            if at is None:
                raise Broken('no AST record for derived-serde type %s' % p)
            tattrs, vattrs, fattrs = at
            def scan(where, attrs):
                for a in attrs:
                    inner = a[a.index('(') + 1:a.rindex(')')] if '(' in a else ''
                    for part in split_top(inner):
                        word = part.split('=')[0].split('(')[0].strip()
                        if word in FORBIDDEN_SERDE:
                            r.violate('%s|%s|serde(%s)' % (short, where, word), 'derived serde impl of %s carries #[serde(%s)] on %s: the '
                                      'serialized form is no longer field-complete / symmetric' % (short, part.strip(), where), adt['file'], adt['line'])
            scan('<type>', tattrs)
            _untagged_ambiguity(f, r, adt, short, tattrs, vattrs)
            for vn, va in vattrs.items():
                scan('variant ' + vn, va)
            for (vn, fn), fa in fattrs.items():
                scan('field ' + fn, fa)
            r.sample({'type': short, 'role': kinds, 'serde': 'derived', 'type_attrs': tattrs})
        else:
            if p in ser and p in de:
                r.sample({'type': short, 'role': kinds, 'serde': 'hand-written (checked by S02/S03)'})
    r.floor('root types', 47 + 37 + 37 + 1 - 3, len(roots))
    r.floor('types in field closure', 120, len(clo))
    r.info.update({'roots': len(roots), 'closure': len(clo), 'derived': n_derived})
    return r


def split_top(s):
    out, depth, cur = [], 0, ''
    for ch in s:
        if ch in '([':
            depth += 1
        elif ch in ')]':
            depth -= 1
        if ch == ',' and depth == 0:
            out.append(cur)
            cur = ''
        else:
            cur += ch
    if cur.strip():
        out.append(cur)
    return out


def serde_field_names(f, adt):
    """Serialized names of the fields of a derive(Deserialize/Serialize) struct, honouring rename."""
    at = serde_attrs_of(f, adt)
    names = {}
    v = adt['variants'][0]
    for fl in v['fields']:
        nm = fl['name']
        if at:
            for a in at[2].get((v['name'], fl['name']), []):
                mm = re.search(r'rename\s*=\s*"([^"]*)"', a)
                if mm:
                    nm = mm.group(1)
        names[fl['name']] = nm
    return names


def _reader_landing(f, db, adt_path, helper):
    """wire name -> field of the rebuilt value that receives what the helper decoded under that name (through crate-local constructors)"""
    import r_window
    hnames = serde_field_names(f, helper)
    direct, derived = {}, {}
    for fields, line in r_window._agg_fields_through_helpers(f, db, adt_path):
        for fld, tree in fields.items():
            t = tree
            while isinstance(t, tuple) and t and t[0] in ('ref', 'deref'):
                t = t[1]
            if isinstance(t, tuple) and t and t[0] == 'field' and t[2] in hnames:
                direct.setdefault(hnames[t[2]], set()).add(fld)         # the decoded value itself is stored there
                continue
            hs = {x[2] for x in walk_tree(tree) if isinstance(x, tuple) and x and x[0] == 'field' and x[2] in hnames}
            if len(hs) == 1:
                derived.setdefault(hnames[next(iter(hs))], set()).add(fld)
    out = {}
    for wire in set(direct) | set(derived):
        c = direct.get(wire) or derived.get(wire)
        if len(c) == 1:
            out[wire] = next(iter(c))
    return out


def s02_manual_serde_tables(ctx, only=None):
    f = ctx.facts('default')
    m = Model(f)
    r = RuleResult('S02', 'hand-written Serialize impls write exactly the fields (by name, each from the same-named field of self) '
                          'that the matching hand-written Deserialize reads through its helper struct')
    manual_ser = [i for i in f.impls if i.get('trait_crate', '') and i['trait_crate'].startswith('serde') and i['trait_name'] == 'Serialize'
                  and not i['derived'] and i['self_tyj']['t'] == 'adt' and i['self_tyj']['def'] in f.adts]
    manual_de = {i['self_tyj']['def']: i for i in f.impls if i.get('trait_crate', '') and i['trait_crate'].startswith('serde')
                 and i['trait_name'] == 'Deserialize' and not i['derived'] and i['self_tyj']['t'] == 'adt'}
    n = 0
    for si in manual_ser:
        p = si['self_tyj']['def']
        short = p.rsplit('::', 1)[-1]
        if only and short not in only:
            continue
        n += 1
        sb = m.body(m.impl_fn_path(si, 'serialize'), prefer_mono=False)
        if sb is None:
            raise Broken('no body for %s::serialize' % short)
        decl_len = None
        written = []
        for bi, t in sb.calls():
            c = t['callee']
            if c.get('name') == 'serialize_struct':
                tr = sb.tree_of_operand(t['args'][-1])
                if tr[0] == 'const':
                    decl_len = tr[2]
            elif c.get('name') == 'serialize_field':
                key = sb.tree_of_operand(t['args'][1])
                val = sb.tree_of_operand(t['args'][2])
                lit = key[1] if key[0] == 'str' else None
                src = None
                vv = val
                while vv[0] in ('ref', 'deref'):
                    vv = vv[1]
                if vv[0] == 'field' and vv[1][0] in ('arg', 'deref') and (vv[1][0] == 'arg' and vv[1][1] == 1 or vv[1][0] == 'deref'):
                    src = vv[2]
                written.append((lit, src, sb.term_line(bi)))
        key = short + '|serialize'
        r.inst(key)
        lits = [w[0] for w in written]
        if decl_len is None or not written:
            r.violate(key + '|shape', 'cannot find serialize_struct/serialize_field calls in the hand-written Serialize impl', sb.file, sb.line)
            continue
        if len(set(lits)) != len(lits) or None in lits:
            r.violate(key + '|duplicate-or-nonliteral-field', 'serialized field names %s are not distinct literals' % lits, sb.file, sb.line)
        if decl_len != len(written):
            r.violate(key + '|len', 'serialize_struct announces %s fields, %d are written' % (decl_len, len(written)), sb.file, sb.line)
        renamed = [(lit, src, line) for lit, src, line in written if src != lit]
        # reader side
        di = manual_de.get(p)
        if di is None:
            r.violate(short + '|no-manual-deserialize', 'hand-written Serialize without hand-written Deserialize', sb.file, sb.line)
            continue
        db = m.body(m.impl_fn_path(di, 'deserialize'), prefer_mono=False)
        helper = None
        for bi, t in db.calls():
            c = t['callee']
            if c.get('name') == 'deserialize' and c.get('trait', '') and c['trait'].endswith('Deserialize'):
                # Self type of the call = first generic arg
                base = c['arg_defs'][0] if c.get('arg_defs') else None
                if base in f.adts:
                    helper = f.adts[base]
        r.inst(short + '|deserialize')
        # a written name that differs from the field it is taken from is still the same wiring when the reader puts the value it decodes
        # under that name into exactly that field (a private field renamed while the wire names are kept)
        lands = _reader_landing(f, db, p, helper) if helper is not None and renamed else {}
        for lit, src, line in renamed:
            if src is not None and lands.get(lit) == src:
                continue
            r.violate(key + '|field|%s' % lit, 'field "%s" is serialized from %s (expected self.%s%s)' % (
                lit, 'self.%s' % src if src else 'a non-field expression', lands.get(lit, lit), ', where the reader puts it' if lit in lands else ''), sb.file, line)
        if helper is None:
            r.violate(short + '|deserialize|no-helper', 'the hand-written Deserialize does not read through a derive(Deserialize) helper struct; reader table unknown', db.file, db.line)
            continue
        hnames = serde_field_names(f, helper)
        if set(hnames.values()) != set(lits):
            r.violate(short + '|tables-differ', 'Serialize writes fields %s but Deserialize reads %s (helper %s)' % (
                sorted(x for x in lits if x), sorted(hnames.values()), helper['path'].rsplit('::', 1)[-1]), db.file, db.line)
        else:
            r.sample({'type': short, 'written': lits, 'read_by_helper': helper['path'], 'helper_fields': hnames})
    r.floor('hand-written Serialize impls', 1 if only else 2, n)
    return r


# ---------------------------------------------------------------------------------------
# S10 state purity (C09 determinism / clone independence; premise of C13)

ALLOWED_FOREIGN = ('std::vec::Vec', 'std::boxed::Box', 'std::option::Option', 'std::string::String', 'std::marker::PhantomData',
                   'std::result::Result', 'std::collections::VecDeque', 'std::collections::BTreeMap', 'std::collections::BTreeSet',
                   'std::collections::BinaryHeap', 'std::alloc::Global')
NONDET_PREFIXES = ('std::time::', 'std::env::', 'std::thread::', 'std::fs::', 'std::net::', 'std::process::', 'rand::',
                   'std::collections::hash_map::RandomState', 'std::hash::RandomState', 'std::sync::', 'std::io::stdin')


def impure_component(f, tj, path=''):
    """Return a description of the first component of a type that is not plain owned data."""
    t = tj['t']
    if t in ('bool', 'char', 'int', 'float', 'str', 'never'):
        return None
    if t == 'param':
        return None     # generic parameter: instantiated types are checked where they are concrete
    if t == 'alias':
        return None     # associated type of a parameter (T::Output)
    if t == 'ptr':
        return 'raw pointer'
    if t == 'ref':
        return 'reference (shared or mutable borrow stored in state)'
    if t in ('fnptr', 'dyn', 'closure', 'fndef'):
        return 'function pointer / trait object / closure'
    if t in ('slice', 'array'):
        return impure_component(f, tj['of'])
    if t == 'tuple':
        for a in tj['of']:
            x = impure_component(f, a)
            if x:
                return x
        return None
    if t == 'adt':
        d = tj['def']
        if d in f.adts:
            return None   # local ADT: examined as its own closure member
        if d.startswith('std::cell::') or d.startswith('core::cell::'):
            return 'interior mutability (%s)' % d
        if d.startswith('std::sync::') or d.startswith('std::rc::') or d.startswith('alloc::rc::') or d.startswith('alloc::sync::'):
            return 'shared ownership / synchronisation primitive (%s)' % d
        if d.startswith('std::collections::hash') or d.startswith('std::collections::HashMap') or d.startswith('std::collections::HashSet'):
            return 'hash container with randomised iteration order (%s)' % d
        if d not in ALLOWED_FOREIGN:
            return 'foreign type %s not known to be plain owned data' % d
        for a in tj['args']:
            x = impure_component(f, a)
            if x:
                return x
        return None
    return 'type %s not known to be plain owned data' % tj.get('s', t)


def _manual_clone_not_fieldwise(f, m, ci, adt):
    """None when the hand-written clone() returns, on every path, a literal of Self whose every field is `self.<same field>` copied or passed
    to Clone::clone (private helpers inlined, `*self` destructured); else the reason"""
    if len(adt['variants']) != 1:
        return 'not a struct (variants are not compared)'
    from paths import all_path_facts
    cp = m.impl_fn_path(ci, 'clone')
    b = m.body_inlined(cp, prefer_mono=False) if cp else None
    if b is None:
        return 'no body for clone()'
    names = [x['name'] for x in adt['variants'][0]['fields']]

    def strip(t):
        while isinstance(t, tuple) and t and t[0] in ('ref', 'deref'):
            t = t[1]
        return t

    def same_field(t, nm, depth=0):
        t = strip(t)
        if depth > 4 or not isinstance(t, tuple) or not t:
            return False
        if t[0] == 'field' and t[2] == nm and strip(t[1])[:2] == ('arg', 1):
            return True
        if t[0] == 'call' and t[2] and (t[4].endswith('Clone::clone') or t[4].endswith('::clone') or t[4].endswith('::to_owned') or t[4].endswith('::into_boxed_slice')
                                        or t[4].endswith('::to_vec') or t[4].endswith('::into')):
            return same_field(t[2][0], nm, depth + 1)
        return False
    seen = 0
    for pf in all_path_facts(b):
        if not pf.returns:
            continue
        rt = pf.ret
        if not (rt and rt[0] == 'agg' and rt[1] == 'adt' and rt[2] == adt['path']):
            # `*self` of a Copy type
            if rt is not None and strip(rt)[:2] == ('arg', 1):
                seen += 1
                continue
            return 'clone() does not return a literal of the type'
        seen += 1
        got = dict(zip(rt[4], rt[3]))
        for nm in names:
            if nm not in got:
                return 'field `%s` is not set' % nm
            if not same_field(got[nm], nm):
                return 'field `%s` is built from %s' % (nm, tree_str(got[nm])[:60])
    if not seen:
        return 'no returning path'
    # an overridden clone_from must leave self equal to the source on every path: the whole value replaced by a clone of the source, or
    # every field assigned from the same field of the source
    cf = m.impl_fn_path(ci, 'clone_from')
    if cf:
        b2 = m.body_inlined(cf, prefer_mono=False)
        if b2 is None:
            return 'no body for clone_from()'

        def from_source(t, nm, depth=0):
            t = strip(t)
            if depth > 4 or not isinstance(t, tuple) or not t:
                return False
            if nm is None and t[:2] == ('arg', 2):
                return True
            if nm is not None and t[0] == 'field' and t[2] == nm and strip(t[1])[:2] == ('arg', 2):
                return True
            if t[0] == 'call' and t[2] and (t[4].endswith('::clone') or t[4].endswith('::to_owned') or t[4].endswith('::into_boxed_slice')
                                            or t[4].endswith('::to_vec') or t[4].endswith('::into')):
                return from_source(t[2][0], nm, depth + 1)
            return False
        for pf in all_path_facts(b2):
            if not pf.returns:
                continue
            done = set()
            for pl, tree, line in pf.stores:
                fp = self_field_of_place(pl)
                if fp == [] and from_source(tree, None):
                    done = set(names)
                elif fp and len(fp) == 1 and from_source(tree, fp[0]):
                    done.add(fp[0])
            for blk, ctree, t in pf.calls:
                # `self.f.clone_from(&source.f)` / `self.f.clone_from_slice(&source.f)` / copy_from_slice
                if ctree[4].endswith('::clone_from') or ctree[4].endswith('::clone_from_slice') or ctree[4].endswith('::copy_from_slice'):
                    def root_field(x, depth=0):
                        """(argument number, field) of the self / source field an expression points into (Box / Vec derefs, slices seen through)"""
                        x = strip(x)
                        while depth < 12 and isinstance(x, tuple) and x:
                            depth += 1
                            if x[0] == 'cast':
                                x = strip(x[2])
                            elif x[0] == 'call' and x[2] and x[4].rsplit('::', 1)[-1] in ('deref', 'deref_mut', 'as_ref', 'as_mut', 'index', 'index_mut', 'as_slice', 'as_mut_slice', 'borrow', 'borrow_mut'):
                                x = strip(x[2][0])
                            elif x[0] == 'field':
                                base = strip(x[1])
                                if isinstance(base, tuple) and base[:1] == ('arg',) and base[1] in (1, 2):
                                    return base[1], x[2]
                                x = base
                            else:
                                return None
                        return None
                    if len(ctree[2]) == 2:
                        r0, r1 = root_field(ctree[2][0]), root_field(ctree[2][1])
                        if r0 and r1 and r0[0] == 1 and r1[0] == 2 and r0[1] == r1[1]:
                            done.add(r0[1])
            # a field the path has tested equal to the source's needs no copy
            for d, vals, blk, allv in pf.decisions:
                if isinstance(d, tuple) and d and d[0] == 'bin' and d[1] in ('Eq', 'Ne'):
                    is_true = not (vals != 'otherwise' and 0 in vals)
                    if (d[1] == 'Eq') == is_true:
                        x, y = strip(d[2]), strip(d[3])
                        for p_, q_ in ((x, y), (y, x)):
                            if p_[0] == 'field' and q_[0] == 'field' and p_[2] == q_[2] and strip(p_[1])[:2] == ('arg', 1) and strip(q_[1])[:2] == ('arg', 2):
                                done.add(p_[2])
            if adt['path'] == 'core::window::Window':
                # the last-slot field is a function of the size in every window (S03 / A04): equal sizes give equal last slots
                import wroles
                wr = wroles.window_roles(f)
                if wr.size in done:
                    done.add(wr.last)
            missing = [nm for nm in names if nm not in done]
            if missing:
                return 'clone_from() has a path that does not take field(s) %s from the source: the target is then not a copy of the source' % ', '.join('`%s`' % x for x in missing)
    return None


def s10c_clone_is_copy(ctx, only_prefix=None, rule_id='S10c'):
    """Clone / clone_from of the given types produce a field-by-field copy (derived, or hand-written and checked)."""
    f = ctx.facts('default')
    m = Model(f)
    r = RuleResult(rule_id, 'Clone of %s: derived, or hand-written with clone() returning a literal whose every field is the clone of the same field of self '
                            'and clone_from() taking every field from the source on every path' % (only_prefix or 'every crate type'))
    n = 0
    for i in f.impls:
        if i['trait'] != 'std::clone::Clone' or i['self_tyj']['t'] != 'adt' or i['self_tyj']['def'] not in f.adts:
            continue
        p = i['self_tyj']['def']
        if only_prefix and not p.startswith(only_prefix):
            continue
        n += 1
        short = p.rsplit('::', 1)[-1]
        r.inst(short + '|Clone', not i['derived'])
        if not i['derived']:
            why_not = _manual_clone_not_fieldwise(f, m, i, f.adts[p])
            if why_not:
                r.violate(short + '|manual-Clone', '%s implements Clone by hand and the copy is not field-wise: %s' % (short, why_not), i['file'], i['line'])
            else:
                r.sample({'type': short, 'Clone': 'hand-written, field-wise'})
        elif len(r.samples) < 4:
            r.sample({'type': short, 'Clone': 'derived'})
    r.floor('Clone impls examined', 1, n)
    return r


def s10_state_purity(ctx):
    f = ctx.facts('default')
    m = Model(f)
    r = RuleResult('S10', 'instance/config state is plain owned data with derived Clone: no interior mutability, pointers, borrows, '
                          'shared ownership, fn objects; no mutable statics; no call into a non-determinism source')
    roots = state_roots(m)
    clo = field_closure(f, roots)
    clone_impls = {}
    for i in f.impls:
        if i['trait'] == 'std::clone::Clone' and i['self_tyj']['t'] == 'adt':
            clone_impls[i['self_tyj']['def']] = i
    for p in sorted(clo):
        adt = f.adts[p]
        short = p.rsplit('::', 1)[-1]
        for v in adt['variants']:
            for fl in v['fields']:
                key = '%s.%s' % (short, fl['name'])
                r.inst(key, fl['tyj']['t'] not in ('int', 'float', 'bool'))
                why = impure_component(f, fl['tyj'])
                if why:
                    r.violate(key + '|impure', 'field %s: %s is %s -- instances are no longer a deterministic function of their inputs / clones '
                              'are no longer independent' % (key, fl['ty'], why), adt['file'], adt['line'])
        ci = clone_impls.get(p)
        r.inst(short + '|Clone')
        if ci is None:
            r.violate(short + '|no-Clone', '%s has no Clone impl' % short, adt['file'], adt['line'])
        elif not ci['derived']:
            why_not = _manual_clone_not_fieldwise(f, m, ci, adt)
            if why_not:
                r.violate(short + '|manual-Clone', '%s implements Clone by hand and the copy is not field-wise: %s' % (short, why_not), ci['file'], ci['line'])
            else:
                r.sample({'type': short, 'Clone': 'hand-written, every field is the clone / copy of the same field of self'})
    for st in f.statics:
        r.inst('static|' + st['path'])
        if st['mutable']:
            r.violate('static|%s|mut' % st['path'], 'static mut %s' % st['path'], st['file'], st['line'])
        elif 'Cell' in st['ty'] or 'Mutex' in st['ty'] or 'Atomic' in st['ty'] or 'Lock' in st['ty']:
            r.violate('static|%s|interior' % st['path'], 'static %s: %s has interior mutability' % (st['path'], st['ty']), st['file'], st['line'])
    ncalls = 0
    seen_defs = set()
    for bid, b in f.bodies.items():
        if not b['generic']:
            continue
        if '::tests::' in b['def'] or b['def'].startswith('helpers::RandomCandles') or 'helpers::RandomCandles' in b['def']:
            continue
        for blk in b['blocks']:
            t = blk['term']
            if t['t'] != 'call' or t['callee'].get('def') is None:
                continue
            ncalls += 1
            d = callee_def(t['callee'])
            for pre in NONDET_PREFIXES:
                if d.startswith(pre) or ('<' + pre) in d:
                    k = 'nondet|%s|%s' % (b['def'], d)
                    if k not in seen_defs:
                        seen_defs.add(k)
                        r.violate(k, '%s calls %s (non-determinism source)' % (b['def'], d), b['file'], blk['sp']['l'])
    r.instances += ncalls
    r.info.update({'closure_types': len(clo), 'call_sites_scanned': ncalls, 'statics': len(f.statics)})
    r.sample({'types': len(clo), 'example': 'methods::ema::EMA{alpha: f64, value: f64}: plain'})
    r.floor('types in field closure', 120, len(clo))
    r.floor('call sites scanned', 1500, ncalls)
    return r
