"""Execution engine of the abstract interpreter: MIR transfer functions, std summaries, obligations."""
import math

from absint import (Interp, St, Infeasible, Budget, Obligation, INT_RANGE, INF, STD_ENUMS, STD_ENUM_FIELDS, ORDERING_DISCR,
                    child_cells)
from mir import Body, callee_def, callee_id, scalar_value

NOT_OP = {'Lt': 'Ge', 'Le': 'Gt', 'Gt': 'Le', 'Ge': 'Lt', 'Eq': 'Ne', 'Ne': 'Eq'}
DIVERGING = ('std::rt::panic_fmt', 'core::panicking::panic', 'core::panicking::panic_fmt', 'std::rt::begin_panic',
             'core::panicking::panic_bounds_check', 'core::result::unwrap_failed', 'core::option::unwrap_failed',
             'core::option::expect_failed', 'core::panicking::panic_explicit', 'core::panicking::unreachable_display',
             'core::panicking::panic_display', 'core::panicking::assert_failed', 'std::process::abort',
             'core::slice::index::slice_index_fail', 'core::panicking::panic_nounwind', 'core::panicking::panic_const')


def signed_of(ty, bits):
    r = INT_RANGE.get(ty)
    if r and r[0] < 0:
        width = {'i8': 8, 'i16': 16, 'i32': 32, 'i64': 64, 'isize': 64, 'i128': 128}[ty]
        if bits >= 1 << (width - 1):
            return bits - (1 << width)
    return bits


def tyj_of_str(s):
    s = s.strip()
    if s in INT_RANGE:
        return {'t': 'int', 'n': s}
    if s in ('f64', 'f32'):
        return {'t': 'float', 'n': s}
    if s == 'bool':
        return {'t': 'bool'}
    if s == '()':
        return {'t': 'tuple', 'of': []}
    if s.startswith('&'):
        inner = s[1:].strip()
        if inner.startswith('mut '):
            inner = inner[4:]
        if inner.startswith("'"):
            inner = inner.split(' ', 1)[1] if ' ' in inner else inner
        if inner == 'str':
            return {'t': 'ref', 'mut': False, 'to': {'t': 'str'}}
        return {'t': 'ref', 'mut': False, 'to': tyj_of_str(inner)}
    if s.startswith('[') and s.endswith(']'):
        return {'t': 'slice', 'of': {'t': 'other', 's': s}}
    if '<' not in s and '::' in s:
        return {'t': 'adt', 'def': s, 'args': [], 's': s}
    return {'t': 'other', 's': s}


class Fork(Exception):
    def __init__(self, vid):
        self.vid = vid


class Frame:
    __slots__ = ('body', 'locals', 'fn')

    def __init__(self, body):
        self.body = body
        self.locals = {}
        self.fn = body.id


class Exec(Interp):
    _const_depth = 0
    split_bool_casts = False

    # ---- cells / places ---------------------------------------------------------------------------
    def local_cell(self, st, fr, l):
        c = fr.locals.get(l)
        if c is None:
            c = self.alloc(st, self.top_of(st, fr.body.locals[l]['tyj']))
            fr.locals[l] = c
        return c

    def top_of_tystr(self, st, s):
        return self.top_of(st, tyj_of_str(s))

    def place_cell(self, st, fr, p, for_write=False):
        cur = self.local_cell(st, fr, p['l'])
        variant = None
        for e in p['p']:
            k = e['p']
            v = st.cells[cur]
            if k == 'deref':
                if v[0] == 'ref':
                    cur = v[1]
                elif v[0] == 'buf':
                    pass
                else:
                    n = self.alloc(st, ('lazy', {}))
                    st.cells[cur] = ('ref', n)
                    cur = n
            elif k == 'downcast':
                variant = e['variant']
            elif k == 'field':
                name = e['name']
                if v[0] == 'buf':
                    continue    # Box/Vec internals (.0.pointer ...) alias the buffer itself
                if v[0] == 'tuple':
                    i = e['i']
                    if i < len(v[1]):
                        cur = v[1][i]
                        variant = None
                        continue
                if v[0] == 'closure':
                    i = e['i']          # captured variables are the fields of the closure value
                    if i < len(v[2]):
                        cur = v[2][i]
                        variant = None
                        continue
                if v[0] == 'adt':
                    vn = variant
                    if vn is None:
                        vn = next(iter(v[3])) if len(v[3]) == 1 else None
                    if vn is not None and vn in v[3] and name in v[3][vn]:
                        cur = v[3][vn][name]
                        variant = None
                        continue
                    # materialise missing field
                    if vn is not None:
                        fields = dict(v[3])
                        fl = dict(fields.get(vn, {}))
                        n = self.alloc(st, self.top_of_tystr(st, e['ty']))
                        fl[name] = n
                        fields[vn] = fl
                        st.cells[cur] = ('adt', v[1], v[2], fields)
                        cur = n
                        variant = None
                        continue
                if v[0] == 'lazy':
                    key = (variant, name)
                    d = v[1]
                    if key not in d:
                        d = dict(d)
                        d[key] = self.alloc(st, self.top_of_tystr(st, e['ty']))
                        st.cells[cur] = ('lazy', d)
                    cur = st.cells[cur][1][key]
                    variant = None
                    continue
                # unknown aggregate: turn into lazy
                d = {(variant, name): self.alloc(st, self.top_of_tystr(st, e['ty']))}
                st.cells[cur] = ('lazy', d)
                cur = d[(variant, name)]
                variant = None
            elif k in ('index', 'cindex', 'subslice'):
                # element of a buffer: contents are not tracked
                n = self.alloc(st, self.top_of_tystr(st, p['ty']) if e is p['p'][-1] else ('lazy', {}))
                cur = n
            else:
                pass
        return cur

    def store(self, st, fr, p, val):
        """Write a whole value to a place; a whole-local write needs no materialisation of the old content."""
        if not p['p']:
            c = fr.locals.get(p['l'])
            if c is None:
                fr.locals[p['l']] = self.alloc(st, val)
            else:
                st.cells[c] = val
            return
        c = self.place_cell(st, fr, p, True)
        st.cells[c] = val

    def copy_val(self, st, v):
        k = v[0]
        if k == 'tuple':
            return ('tuple', tuple(self.alloc(st, self.copy_val(st, st.cells[c])) for c in v[1]))
        if k == 'adt':
            fields = {}
            shared = {}
            for vn, fl in v[3].items():
                nf = {}
                for fn, c in fl.items():
                    if c not in shared:
                        shared[c] = self.alloc(st, self.copy_val(st, st.cells[c]))
                    nf[fn] = shared[c]
                fields[vn] = nf
            return ('adt', v[1], v[2], fields)
        if k == 'lazy':
            return ('lazy', {kk: self.alloc(st, self.copy_val(st, st.cells[c])) for kk, c in v[1].items()})
        return v

    def const_val(self, st, c):
        k = c['c']
        if k == 'scalar':
            ty = c['ty']
            if ty in INT_RANGE:
                return self.mk_const_int(st, ty, signed_of(ty, c['bits']))
            if ty == 'bool':
                return self.mk_bool(st, bool(c['bits']))
            if ty in ('f64', 'f32'):
                return self.f_const(scalar_value(c))
            if ty == 'char':
                return self.mk_const_int(st, 'u32', c['bits'])
            return ('top', ty)
        if k == 'str':
            return ('ref', self.alloc(st, ('strlit', c['v'])))
        if k == 'fn':
            d = c['def']
            a = c.get('args') or []
            if a and self.body(d) is None and self.body('G:' + d) is None and '::' in d:
                # a trait method named through the trait (`Self::from` as a function value): select the impl by the written type arguments
                tr, meth = d.rsplit('::', 1)
                cand = '<%s as %s%s>::%s' % (a[0], tr, ('<' + ', '.join(a[1:]) + '>') if len(a) > 1 else '', meth)
                if self.body(cand) is not None or self.body('G:' + cand) is not None:
                    return ('fn', cand)
            return ('fn', d)
        if k in ('promoted', 'constitem'):
            # interpret the tiny body of the promoted constant / const item
            bid = ('P:%s:%d' % (c['of'], c['index'])) if k == 'promoted' else ('C:' + c['def'])
            cb = self.body(bid)
            if cb is not None and self._const_depth < 4:
                self._const_depth += 1
                try:
                    outs = self.run_fn(cb, st, [], [bid], 0)
                finally:
                    self._const_depth -= 1
                if len(outs) == 1:
                    s2, v = outs[0]
                    # constants have no side effects on the caller's state; adopt the cells they allocated
                    st.cells.update(s2.cells)
                    st.iv.update(s2.iv)
                    st.bv.update(s2.bv)
                    return v
            return ('top', c.get('ty', '?'))
        if k == 'zst':
            ty = c['ty']
            if ty == '()':
                return ('tuple', ())
            return ('top', ty)
        return ('top', c.get('ty', '?'))

    def operand(self, st, fr, o):
        k = o['o']
        if k in ('copy', 'move'):
            c = self.place_cell(st, fr, o['pl'])
            return self.fview(st, self.copy_val(st, st.cells[c]))
        if k == 'const':
            return self.const_val(st, o['v'])
        return self.mk_bool(st)     # runtime checks flag

    # ---- rvalues ---------------------------------------------------------------------------------
    def deref_val(self, st, v, depth=0):
        while v[0] == 'ref' and depth < 6:
            v = st.cells[v[1]]
            depth += 1
        return self.fview(st, v)

    def fview(self, st, v):
        """a float value seen through what the state knows about its id (not NaN)"""
        if v[0] == 'float' and len(v) > 4:
            lo, hi, nan = v[1], v[2], v[3]
            if v[4] in st.fb:
                b = st.fb[v[4]]
                lo, hi, nan = max(lo, b[0]), min(hi, b[1]), False
            elif nan and v[4] in st.fnn:
                nan = False
            if (lo, hi, nan) != (v[1], v[2], v[3]):
                return ('float', lo, hi, nan, v[4])
        return v

    def rvalue(self, st, fr, r):
        k = r['r']
        if k == 'use':
            return self.operand(st, fr, r['a'])
        if k in ('ref', 'rawptr'):
            return ('ref', self.place_cell(st, fr, r['pl']))
        if k == 'cast':
            return self.cast(st, fr, r)
        if k == 'bin':
            return self.binop(st, fr, r['op'], self.operand(st, fr, r['a']), self.operand(st, fr, r['b']), r['ty'])
        if k == 'un':
            return self.unop(st, fr, r['op'], self.operand(st, fr, r['a']), r['ty'])
        if k == 'discr':
            c = self.place_cell(st, fr, r['pl'])
            v = st.cells[c]
            if v[0] == 'adt' and v[2] is not None:
                names = self.variant_names(v[1])
                if names:
                    idx = [self.variant_discr(v[1], n, names) for n in v[2]]
                    iv = self.mk_int(st, 'isize', min(idx), max(idx))
                    self.idef[iv[2]] = ('discr', c, v[1])
                    return iv
            iv = self.mk_int(st, 'isize')
            self.idef[iv[2]] = ('discr', c, v[1] if v[0] == 'adt' else None)
            return iv
        if k == 'agg':
            kind = r['kind']
            ops = [self.operand(st, fr, x) for x in r['ops']]
            if kind == 'adt':
                for x in ops:
                    self.note_saturated_use(st, fr, x, 'stored in %s' % r.get('def'))
            if kind == 'tuple':
                return ('tuple', tuple(self.alloc(st, x) for x in ops))
            if kind == 'array':
                return ('buf', self.mk_const_int(st, 'usize', len(ops))[2])
            if kind == 'adt':
                fl = {n: self.alloc(st, x) for n, x in zip(r['fields'], ops)}
                return ('adt', r['def'], frozenset([r['variant']]), {r['variant']: fl})
            if kind == 'closure':
                return ('closure', r['id'], tuple(self.alloc(st, x) for x in ops))
            return ('top', 'agg')
        if k == 'repeat':
            n = r.get('n')
            return ('buf', (self.mk_const_int(st, 'usize', n) if n is not None else self.mk_int(st, 'usize'))[2])
        return ('top', k)

    def variant_names(self, d):
        if d in STD_ENUMS:
            return STD_ENUMS[d]
        adt = self.f.adts.get(d)
        if adt:
            return [v['name'] for v in adt['variants']]
        return None

    def variant_discr(self, d, name, names):
        if d == 'std::cmp::Ordering':
            return ORDERING_DISCR[name]
        return names.index(name)

    def note_saturated_use(self, st, fr, v, how):
        """a value produced by a saturating addition that may still sit at the type's capacity is used as a number (not merely compared)"""
        sv = self.__dict__.get('sat_vids')
        if sv and v[0] == 'int' and v[2] in sv and self.rng(st, v[2])[1] >= sv[v[2]][0]:
            self.__dict__.setdefault('saturated_uses', []).append((strip_inst(fr.fn), sv[v[2]][1], how, fr.body.file))

    def cast(self, st, fr, r):
        v = self.operand(st, fr, r['a'])
        kind = r['kind'].split('(')[0]
        to = r['to']
        if kind in ('IntToFloat', 'IntToInt'):
            self.note_saturated_use(st, fr, v, 'converted to %s' % to)
        if kind == 'IntToInt':
            if v[0] == 'bool':
                b = st.bv.get(v[1])
                if b is None and (self.split_bool_casts is True or (self.split_bool_casts and any(p in fr.fn for p in self.split_bool_casts))):
                    raise Fork(v[1])        # branchless code: evaluate the statement once per truth value
                iv = self.mk_int(st, to, 0 if b is None else int(b), 1 if b is None else int(b))
                self.idef[iv[2]] = ('boolcast', v[1])
                return iv
            if v[0] != 'int' or to not in INT_RANGE:
                return self.top_of_tystr(st, to)
            lo, hi = self.rng(st, v[2])
            tl, th = INT_RANGE[to]
            if lo >= tl and hi <= th:
                return ('int', to, v[2])       # lossless: same mathematical value
            self.truncations.append((fr.fn, v[1], to, (lo, hi)))
            tv = self.mk_int(st, to)
            self.idef[tv[2]] = ('trunc', v[2], to)
            self.trunc_of.setdefault(v[2], []).append(tv[2])
            return tv
        if kind == 'IntToFloat':
            if v[0] == 'int':
                lo, hi = self.rng(st, v[2])
                return ('float', float(lo), float(hi), False)
            return ('float', -INF, INF, True)
        if kind == 'FloatToInt':
            if v[0] == 'float' and to in INT_RANGE:
                tl, th = INT_RANGE[to]
                lo = tl if v[1] == -INF else max(tl, min(th, int(math.floor(v[1])) if v[1] >= 0 else int(math.ceil(v[1]))))
                hi = th if v[2] == INF else max(tl, min(th, int(math.floor(v[2])) if v[2] >= 0 else int(math.ceil(v[2]))))
                if v[3]:
                    lo, hi = min(lo, 0), max(hi, 0)     # NaN casts to 0
                return self.mk_int(st, to, lo, hi)
            return self.top_of_tystr(st, to)
        if kind == 'FloatToFloat':
            return v if v[0] == 'float' else ('float', -INF, INF, True)
        # pointer coercions, transmutes of Box internals etc.: the abstract value is unchanged
        return v

    def binop(self, st, fr, op, a, b, ty):
        if ty in ('f64', 'f32') or a[0] == 'float' or b[0] == 'float':
            return self.float_bin(st, op, a, b)
        if a[0] == 'bool' and b[0] == 'bool':
            if op in ('Eq', 'Ne', 'BitAnd', 'BitOr', 'BitXor'):
                x, y = st.bv.get(a[1]), st.bv.get(b[1])
                if x is not None and y is not None:
                    val = {'Eq': x == y, 'Ne': x != y, 'BitAnd': x and y, 'BitOr': x or y, 'BitXor': x != y}[op]
                    return self.mk_bool(st, val)
                return self.mk_bool(st, None, ('boolop', op, a[1], b[1]))
        if a[0] != 'int' or b[0] != 'int':
            if op in ('Eq', 'Ne', 'Lt', 'Le', 'Gt', 'Ge'):
                return self.mk_bool(st)
            if op.endswith('WithOverflow'):
                return ('tuple', (self.alloc(st, self.top_of_tystr(st, ty)), self.alloc(st, self.mk_bool(st))))
            return self.top_of_tystr(st, ty)
        x, y = a[2], b[2]
        if op in ('Eq', 'Ne', 'Lt', 'Le', 'Gt', 'Ge'):
            val = self.eval_cmp(st, op, x, y)
            return self.mk_bool(st, val, ('cmp', op, x, y))
        self.note_saturated_use(st, fr, a, 'operand of ' + op)
        self.note_saturated_use(st, fr, b, 'operand of ' + op)
        la, ha = self.rng(st, x)
        lb, hb = self.rng(st, y)
        tl, th = INT_RANGE.get(ty, (-(2 ** 127), 2 ** 127))
        base = op.replace('WithOverflow', '').replace('Unchecked', '')
        # identities keep the value id (and with it every relation known about the operand)
        ident = None
        if base == 'Mul':
            if (la, ha) == (1, 1):
                ident = y
            elif (lb, hb) == (1, 1):
                ident = x
            elif (la, ha) == (0, 0) or (lb, hb) == (0, 0):
                ident = self.mk_const_int(st, ty, 0)[2]
        elif base == 'Add':
            if (la, ha) == (0, 0):
                ident = y
            elif (lb, hb) == (0, 0):
                ident = x
        elif base == 'Sub' and (lb, hb) == (0, 0):
            ident = x
        if ident is not None:
            if op.endswith('WithOverflow'):
                return ('tuple', (self.alloc(st, ('int', ty, ident)), self.alloc(st, self.mk_bool(st, False))))
            return ('int', ty, ident)
        lo = hi = None
        if base == 'Add':
            lo, hi = la + lb, min(ha + hb, self.sum_upper(st, x, y))
        elif base == 'Sub':
            lo, hi = la - hb, ha - lb
            if self.prove_le(st, y, x):
                lo = max(lo, 0)
            if self.prove_lt(st, y, x):
                lo = max(lo, 1)
            if x == y:
                lo = hi = 0
        elif base == 'Mul':
            cs = [la * lb, la * hb, ha * lb, ha * hb]
            lo, hi = min(cs), max(cs)
        elif base == 'Div':
            if lb > 0:
                lo, hi = la // hb if la >= 0 else -((-la) // lb), ha // lb if ha >= 0 else -((-ha) // hb)
                if la >= 0:
                    lo, hi = la // hb, ha // lb
                else:
                    lo, hi = tl, th
            else:
                lo, hi = tl, th
        elif base == 'Rem':
            if lb > 0 and la >= 0:
                lo, hi = 0, min(ha, hb - 1)
            else:
                lo, hi = tl, th
        elif base in ('BitAnd',):
            if la >= 0 and lb >= 0:
                lo, hi = 0, min(ha, hb)
            else:
                lo, hi = tl, th
        elif base in ('Shr',):
            if la >= 0 and lb >= 0:
                lo, hi = 0, ha >> lb if lb < 200 else 0
            else:
                lo, hi = tl, th
        else:
            lo, hi = tl, th
        fits = lo >= tl and hi <= th
        if op.endswith('WithOverflow'):
            res = self.vid()
            if fits:
                st.iv[res] = (lo, hi)
                flag = self.mk_bool(st, False)
            else:
                st.iv[res] = (tl, th)
                flag = self.mk_bool(st, None, ('ovf', base, x, y, res, ty, (lo, hi)))
            self.idef[res] = ('arith', base, x, y)
            self.note_rel(st, base, res, x, y)
            return ('tuple', (self.alloc(st, ('int', ty, res)), self.alloc(st, flag)))
        res = self.vid()
        if fits:
            st.iv[res] = (lo, hi)
        else:
            st.iv[res] = (tl, th)       # wraps (release arithmetic) / unchecked
        self.idef[res] = ('arith', base, x, y)
        if fits:
            self.note_rel(st, base, res, x, y)
        return ('int', ty, res)

    def note_rel(self, st, base, res, x, y):
        if base == 'Add':
            for p, q in ((x, y), (y, x)):
                if self.rng(st, q) == (1, 1):
                    # p < c  =>  p + 1 <= c
                    for c, strict in self.upper_set(st, p).items():
                        if strict and c != res:
                            st.rel.add(('le', res, c))
        if base == 'Sub' and self.rng(st, y) == (1, 1):
            # x - 1 < x
            st.rel.add(('lt', res, x))
            for r_ in list(st.rel):
                if r_[0] in ('lt', 'le') and r_[1] == x:
                    st.rel.add(('lt', res, r_[2]))
        if base == 'Sub' and self.rng(st, y)[0] >= 0:
            st.rel.add(('le', res, x))
        if base == 'Div' and self.rng(st, y)[0] >= 1 and self.rng(st, x)[0] >= 0:
            st.rel.add(('le', res, x))
        if base == 'Add' and self.rng(st, y)[0] >= 1 and self.rng(st, x)[0] >= 0:
            st.rel.add(('lt', x, res))
        if base == 'Add' and self.rng(st, x)[0] >= 1 and self.rng(st, y)[0] >= 0:
            st.rel.add(('lt', y, res))
        if base == 'Rem' and self.rng(st, y)[0] >= 1:
            st.rel.add(('lt', res, y))

    def float_bin(self, st, op, a, b):
        if op in ('Eq', 'Ne', 'Lt', 'Le', 'Gt', 'Ge') and a[0] == 'float' and b[0] == 'float':
            # comparison of an identified float with a constant: remember it so that a branch can refine the bounds
            fc = None
            if len(a) > 4 and not b[3] and b[1] == b[2]:
                fc = ('fcmp', op, a[4], b[1])
            elif len(b) > 4 and not a[3] and a[1] == a[2]:
                fc = ('fcmp', {'Lt': 'Gt', 'Le': 'Ge', 'Gt': 'Lt', 'Ge': 'Le', 'Eq': 'Eq', 'Ne': 'Ne'}[op], b[4], a[1])
            if fc is not None:
                r0 = self.float_bin_plain(st, op, a, b)
                if st.bv.get(r0[1]) is None:
                    self.idef[r0[1]] = fc
                return r0
        return self.float_bin_plain(st, op, a, b)

    def float_bin_plain(self, st, op, a, b):
        if op in ('Eq', 'Ne', 'Lt', 'Le', 'Gt', 'Ge'):
            if any(v[0] == 'float' and v[3] and v[1] > v[2] for v in (a, b)):
                return self.mk_bool(st, op == 'Ne')         # an operand that is certainly NaN: every ordered comparison is false
            if a[0] == 'float' and b[0] == 'float' and not a[3] and not b[3]:
                if op == 'Lt' and a[2] < b[1]:
                    return self.mk_bool(st, True)
                if op == 'Lt' and a[1] >= b[2]:
                    return self.mk_bool(st, False)
                if op == 'Le' and a[2] <= b[1]:
                    return self.mk_bool(st, True)
                if op == 'Le' and a[1] > b[2]:
                    return self.mk_bool(st, False)
                if op == 'Gt' and a[1] > b[2]:
                    return self.mk_bool(st, True)
                if op == 'Gt' and a[2] <= b[1]:
                    return self.mk_bool(st, False)
                if op == 'Ge' and a[1] >= b[2]:
                    return self.mk_bool(st, True)
                if op == 'Ge' and a[2] < b[1]:
                    return self.mk_bool(st, False)
                if op == 'Eq' and a[1] == a[2] == b[1] == b[2]:
                    return self.mk_bool(st, True)
                if op == 'Ne' and a[1] == a[2] == b[1] == b[2]:
                    return self.mk_bool(st, False)
                if op == 'Eq' and (a[2] < b[1] or b[2] < a[1]):
                    return self.mk_bool(st, False)
                if op == 'Ne' and (a[2] < b[1] or b[2] < a[1]):
                    return self.mk_bool(st, True)
            return self.mk_bool(st)
        if a[0] == 'float' and b[0] == 'float' and not a[3] and not b[3] and not (a[1] == a[2] and b[1] == b[2]) \
                and all(abs(x) < 1e300 for x in (a[1], a[2], b[1], b[2])):
            lo = hi = None
            if op == 'Add':
                lo, hi = a[1] + b[1], a[2] + b[2]
            elif op == 'Sub':
                lo, hi = a[1] - b[2], a[2] - b[1]
            elif op == 'Mul':
                cs = [a[1] * b[1], a[1] * b[2], a[2] * b[1], a[2] * b[2]]
                lo, hi = min(cs), max(cs)
            elif op == 'Div' and (b[1] > 0 or b[2] < 0):
                cs = [a[1] / b[1], a[1] / b[2], a[2] / b[1], a[2] / b[2]]
                lo, hi = min(cs), max(cs)
            if lo is not None:
                slack = 1e-12 * max(1.0, abs(lo), abs(hi))
                return ('float', lo - slack, hi + slack, False)
        if a[0] == 'float' and b[0] == 'float' and not a[3] and not b[3] and a[1] == a[2] and b[1] == b[2]:
            try:
                x, y = a[1], b[1]
                val = {'Add': x + y, 'Sub': x - y, 'Mul': x * y, 'Div': x / y if y != 0 else float('nan'), 'Rem': math.fmod(x, y) if y != 0 else float('nan')}.get(op)
                if val is not None:
                    return self.f_const(val)
            except (OverflowError, ValueError):
                pass
        return ('float', -INF, INF, True)

    def unop(self, st, fr, op, a, ty):
        if op == 'Not':
            if a[0] == 'bool':
                x = st.bv.get(a[1])
                return self.mk_bool(st, None if x is None else (not x), ('not', a[1]))
            return self.top_of_tystr(st, ty)
        if op == 'Neg':
            if a[0] == 'int':
                lo, hi = self.rng(st, a[2])
                return self.mk_int(st, a[1], -hi, -lo)
            if a[0] == 'float':
                return ('float', -a[2], -a[1], a[3])
            return self.top_of_tystr(st, ty)
        if op == 'PtrMetadata':
            v = self.deref_val(st, a)
            if v[0] == 'buf':
                return ('int', 'usize', v[1])
            return self.mk_int(st, 'usize')
        return self.top_of_tystr(st, ty)

    # ---- assumptions -------------------------------------------------------------------------------
    def assume_bool(self, st, vid, truth, depth=0):
        cur = st.bv.get(vid)
        if cur is not None and cur != truth:
            raise Infeasible()
        st.bv[vid] = truth
        d = self.idef.get(vid)
        if not d or depth > 8:
            return
        if d[0] == 'cmp':
            self.assume_cmp(st, d[1], d[2], d[3], truth)
        elif d[0] == 'not':
            self.assume_bool(st, d[1], not truth, depth + 1)
        elif d[0] == 'ovf' and truth is False:
            _, base, x, y, res, ty, (lo, hi) = d
            tl, th = INT_RANGE.get(ty, (-(2 ** 127), 2 ** 127))
            lo, hi = max(lo, tl), min(hi, th)
            if lo > hi:
                raise Infeasible()
            st.iv[res] = (lo, hi)
            if base == 'Sub':
                st.rel.add(('le', y, x))
            elif base == 'Add':
                st.rel.add(('sumle', x, y, th))
            self.note_rel(st, base, res, x, y)
        elif d[0] == 'fcmp':
            _, op, fid, c = d
            if not truth:
                if fid not in st.fnn and fid not in st.fb:
                    return          # the comparison may be false because the value is NaN
                op = {'Lt': 'Ge', 'Le': 'Gt', 'Gt': 'Le', 'Ge': 'Lt', 'Eq': 'Ne', 'Ne': 'Eq'}[op]
            lo, hi = st.fb.get(fid, (-INF, INF))
            if op == 'Gt':
                lo = max(lo, math.nextafter(c, INF))
            elif op == 'Ge':
                lo = max(lo, c)
            elif op == 'Lt':
                hi = min(hi, math.nextafter(c, -INF))
            elif op == 'Le':
                hi = min(hi, c)
            elif op == 'Eq':
                lo, hi = max(lo, c), min(hi, c)
            if lo > hi:
                raise Infeasible()
            if op != 'Ne':
                st.fb[fid] = (lo, hi)
        elif d[0] == 'irange':
            _, x, lo, hi, incl, ge, lt = d
            if truth:
                self.assume_cmp(st, 'Le', lo, x, True)
                self.assume_cmp(st, 'Le' if incl else 'Lt', x, hi, True)
            elif ge is True:
                self.assume_cmp(st, 'Le' if incl else 'Lt', x, hi, False)      # the lower bound holds anyway: the upper one failed
            elif lt is True:
                self.assume_cmp(st, 'Le', lo, x, False)
        elif d[0] == 'frange':
            if truth:
                lo, hi = st.fb.get(d[1], (-INF, INF))
                lo, hi = max(lo, d[2]), min(hi, d[3])
                if lo > hi:
                    raise Infeasible()
                st.fb[d[1]] = (lo, hi)
        elif d[0] == 'isnan':
            if truth is False:
                st.fnn.add(d[1])
        elif d[0] == 'isfinite':
            if truth is True:
                st.fnn.add(d[1])
        elif d[0] == 'boolop':
            _, op, p, q = d
            if op == 'BitAnd' and truth:
                self.assume_bool(st, p, True, depth + 1)
                self.assume_bool(st, q, True, depth + 1)
            elif op == 'BitOr' and not truth:
                self.assume_bool(st, p, False, depth + 1)
                self.assume_bool(st, q, False, depth + 1)

    # ---- obligations -------------------------------------------------------------------------------
    def oblige(self, kind, fr, detail, operands, line, chain):
        ob = Obligation(kind, strip_inst(fr.fn), detail, operands, fr.body.file, line, list(chain))
        self.obligations.append(ob)

    def discharge(self, kind):
        self.discharged += 1
        self.discharge_kinds[kind] = self.discharge_kinds.get(kind, 0) + 1

    def shape_of(self, st, v, depth=0):
        """structural abstract description of a value (ranges, variants), for fixpoint detection"""
        if depth > 6 or not isinstance(v, tuple) or not v:
            return ('?',)
        if v[0] == 'int':
            return ('int', v[1]) + tuple(self.rng(st, v[2])) + (tuple(sorted(X for X, strict in self.upper_set(st, v[2]).items() if strict)),)
        if v[0] == 'float':
            fv = self.fview(st, v)
            return ('float', fv[1], fv[2], fv[3])
        if v[0] == 'bool':
            return ('bool', st.bv.get(v[1]))
        if v[0] == 'tuple':
            return ('tuple',) + tuple(self.shape_of(st, st.cells.get(c, ('top',)), depth + 1) for c in v[1])
        if v[0] == 'adt':
            return ('adt', v[1], tuple(sorted(v[2])) if v[2] else None) + tuple(
                (vn, fn, self.shape_of(st, st.cells.get(c, ('top',)), depth + 1)) for vn in sorted(v[3]) for fn, c in sorted(v[3][vn].items()))
        if v[0] == 'buf':
            return ('buf',) + tuple(self.rng(st, v[1]))
        return (v[0],)

    def describe(self, st, v):
        if v[0] == 'int':
            lo, hi = self.rng(st, v[2])
            return '%s in [%d, %d]' % (v[1], lo, hi) if lo != hi else '%s = %d' % (v[1], lo)
        if v[0] == 'bool':
            return 'bool %s' % st.bv.get(v[1], '?')
        if v[0] == 'float':
            return 'float [%s, %s]%s' % (v[1], v[2], ' or NaN' if v[3] else '')
        if v[0] == 'buf':
            lo, hi = self.rng(st, v[1])
            return 'buffer of length [%d, %d]' % (lo, hi)
        if v[0] == 'adt':
            return '%s{%s}' % (v[1].rsplit('::', 1)[-1], ','.join(sorted(v[2])) if v[2] else '?')
        return v[0]

    # ---- function execution --------------------------------------------------------------------------
    def run_fn(self, body, st, args, chain, depth=0):
        """Returns list of (state, return value). Path-sensitive inside; caller may join."""
        self.visited_fns.add(body.id)
        fr = Frame(body)
        for i, a in enumerate(args):
            if a[0] == 'float' and len(a) == 4:
                a = a + (self.vid(),)       # a float parameter is one value: tests on it (is_nan, comparisons) refine its later uses
            fr.locals[i + 1] = self.alloc(st, a)
        outs = []
        work = [(st, 0, fr.locals, (), 0)]
        heads = body.loop_heads() if body.has_loop() else ()
        inv = {}        # loop head -> [state, locals, rounds]: the abstract invariant reached so far (joined over every arrival)
        while work:
            s, bb, locs, trail, start = work.pop()
            if start == 0 and bb in heads:
                if bb not in inv:
                    inv[bb] = [s.copy(), dict(locs), 0]
                else:
                    s0, l0, rounds = inv[bb]
                    try:
                        sj, lj = self.join_frames(s0, l0, s, locs)
                    except RecursionError:
                        sj = None
                    if sj is None or rounds >= 10:
                        self.undecided_loops[body.id] = self.undecided_loops.get(body.id, 0) + 1
                        continue
                    if self.frame_shape(sj, lj) == self.frame_shape(s0, l0):
                        continue                    # this arrival is covered by the invariant already explored from this head
                    if rounds >= 3:
                        self.widen_frame(sj, lj, s0, l0, body)
                    inv[bb] = [sj.copy(), dict(lj), rounds + 1]
                    s, locs = sj, dict(lj)
                    trail = ()
            elif start == 0 and trail.count(bb) >= 12:
                self.undecided_loops[body.id] = self.undecided_loops.get(body.id, 0) + 1
                continue
            self.steps += 1
            if self.steps > self.max_states * 50:
                raise Budget('step budget exceeded in %s' % body.id)
            f2 = Frame(body)
            f2.locals = locs
            try:
                nxt = self.run_block(s, f2, bb, chain, depth, outs, start)
            except Infeasible:
                continue
            tr2 = trail + (bb,) if (body.has_loop() and start == 0) else trail
            for item in nxt:
                s2, b2 = item[0], item[1]
                st2 = item[2] if len(item) > 2 else 0
                work.append((s2, b2, dict(f2.locals) if len(nxt) > 1 else f2.locals, tr2 if st2 == 0 else trail, st2))
            if len(work) > 4000:
                raise Budget('too many pending paths in %s' % body.id)
        return outs

    # ---- loops: join / convergence / widening of whole frames ---------------------------------------------------
    def join_frames(self, s0, l0, s1, l1):
        keys = sorted(k for k in l0 if k in l1 and isinstance(k, int))
        v0 = ('tuple', tuple(l0[k] for k in keys))
        v1 = ('tuple', tuple(l1[k] for k in keys))
        out, rv = self.join2(s0, v0, s1, v1)
        lj = dict(l1)
        lj.update({k: v for k, v in l0.items() if k not in lj})
        if rv[0] != 'tuple':
            return None, None
        for k, c in zip(keys, rv[1]):
            lj[k] = c
        return out, lj

    def deep_shape(self, st, v, depth=0, seen=None):
        if seen is None:
            seen = set()
        if depth > 7 or not isinstance(v, tuple) or not v:
            return ('?',)
        k = v[0]
        if k == 'ref':
            if v[1] in seen:
                return ('ref', 'cycle')
            seen = seen | {v[1]}
            return ('ref', self.deep_shape(st, st.cells.get(v[1], ('top',)), depth + 1, seen))
        if k == 'tuple':
            return ('tuple',) + tuple(self.deep_shape(st, st.cells.get(c, ('top',)), depth + 1, seen) for c in v[1])
        if k == 'adt':
            return ('adt', v[1], tuple(sorted(v[2])) if v[2] else None) + tuple(
                (vn, fn, self.deep_shape(st, st.cells.get(c, ('top',)), depth + 1, seen)) for vn in sorted(v[3]) for fn, c in sorted(v[3][vn].items()))
        if k == 'int':
            return ('int', v[1]) + tuple(self.rng(st, v[2])) + (tuple(sorted(X for X, strict in self.upper_set(st, v[2]).items() if strict and X != v[2])[:6]),)
        if k == 'top':
            return ('top',) + tuple(v[1:2])
        return self.shape_of(st, v, depth)

    def frame_shape(self, st, locs):
        return tuple((k, self.deep_shape(st, st.cells.get(c, ('top',)))) for k, c in sorted((k, c) for k, c in locs.items() if isinstance(k, int)))

    def widen_frame(self, sj, lj, s0, l0, body):
        """everything that still changes after three rounds is forgotten (the top of its type): the ascending chain is cut"""
        seen = set()

        def widen_cell(c, c0, depth=0):
            if c in seen or depth > 8:
                return
            seen.add(c)
            v = sj.cells.get(c)
            v0 = s0.cells.get(c0) if c0 is not None else None
            if v is None:
                return
            same = v0 is not None and self.deep_shape(sj, v) == self.deep_shape(s0, v0)
            if same:
                return
            k = v[0]
            if k == 'int':
                sj.cells[c] = self.mk_int(sj, v[1])
            elif k == 'float':
                sj.cells[c] = ('float', -INF, INF, True)
            elif k == 'bool':
                sj.cells[c] = self.mk_bool(sj)
            elif k == 'buf':
                sj.cells[c] = ('buf', self.mk_int(sj, 'usize')[2])
            elif k == 'ref':
                widen_cell(v[1], v0[1] if v0 is not None and v0[0] == 'ref' else None, depth + 1)
            elif k == 'tuple':
                for i, cc in enumerate(v[1]):
                    widen_cell(cc, v0[1][i] if v0 is not None and v0[0] == 'tuple' and i < len(v0[1]) else None, depth + 1)
            elif k == 'adt':
                if v0 is None or v0[0] != 'adt' or v0[2] != v[2]:
                    sj.cells[c] = ('adt', v[1], None, v[3])
                for vn, fl in v[3].items():
                    for fn, cc in fl.items():
                        c00 = v0[3].get(vn, {}).get(fn) if v0 is not None and v0[0] == 'adt' else None
                        widen_cell(cc, c00, depth + 1)
        for k, c in lj.items():
            if isinstance(k, int):
                widen_cell(c, l0.get(k))

    def run_block(self, st, fr, bb, chain, depth, outs, start=0):
        body = fr.body
        blk = body.blocks[bb]
        for si, s in enumerate(blk['stmts']):
            if si < start:
                continue
            if s['s'] == 'assign':
                try:
                    val = self.rvalue(st, fr, s['rv'])
                except Fork as fk:
                    res = []
                    for truth in (False, True):
                        s2 = st.copy()
                        try:
                            self.assume_bool(s2, fk.vid, truth)
                        except Infeasible:
                            continue
                        res.append((s2, bb, si))
                    return res
                self.store(st, fr, s['pl'], val)
            elif s['s'] == 'setdiscr':
                c = self.place_cell(st, fr, s['pl'], True)
                v = st.cells[c]
                if v[0] == 'adt':
                    names = self.variant_names(v[1])
                    if names and s['vi'] < len(names):
                        st.cells[c] = ('adt', v[1], frozenset([names[s['vi']]]), v[3])
        t = blk['term']
        k = t['t']
        if k == 'goto':
            return [(st, t['target'])]
        if k == 'return':
            c = fr.locals.get(0)
            rv = st.cells[c] if c is not None else ('tuple', ())
            outs.append((st, rv))
            return []
        if k in ('unreachable', 'resume', 'terminate'):
            return []
        if k == 'drop':
            return [(st, t['target'])]
        if k == 'switch':
            return self.do_switch(st, fr, t)
        if k == 'assert':
            return self.do_assert(st, fr, bb, t, chain)
        if k == 'call':
            return self.do_call(st, fr, bb, t, chain, depth)
        return []

    def do_switch(self, st, fr, t):
        v = self.operand(st, fr, t['discr'])
        res = []
        if v[0] == 'bool':
            known = st.bv.get(v[1])
            zero = [b for val, b in t['targets'] if val == 0]
            ftarget = zero[0] if zero else t['otherwise']
            ttarget = t['otherwise'] if zero else None
            if ttarget is None:
                one = [b for val, b in t['targets'] if val == 1]
                ttarget = one[0] if one else t['otherwise']
            for truth, tgt in ((False, ftarget), (True, ttarget)):
                if known is not None and known != truth:
                    continue
                s2 = st.copy() if known is None else st
                try:
                    self.assume_bool(s2, v[1], truth)
                except Infeasible:
                    continue
                res.append((s2, tgt))
            return res
        if v[0] == 'int':
            ty = t.get('ty') if t.get('ty') in INT_RANGE else v[1]      # raw switch values are written in the discriminant's own type (255 = -1i8)
            vid = v[2]
            lo, hi = self.rng(st, vid)
            d = self.idef.get(vid)
            listed = []
            for raw, tgt in t['targets']:
                val = signed_of(ty, raw)
                listed.append(val)
                if val < lo or val > hi:
                    continue
                s2 = st.copy()
                try:
                    self.refine(s2, vid, val, val)
                    if d and d[0] == 'discr':
                        self.refine_variant(s2, d, [val], keep=True)
                    elif d and d[0] == 'boolcast':
                        self.assume_bool(s2, d[1], bool(val))
                    self.derive_from_defs(s2, vid, upper=val)
                except Infeasible:
                    continue
                res.append((s2, tgt))
            # otherwise
            s2 = st.copy()
            try:
                l2, h2 = lo, hi
                ls = set(listed)
                while l2 in ls and l2 <= h2:
                    l2 += 1
                while h2 in ls and h2 >= l2:
                    h2 -= 1
                if l2 > h2:
                    raise Infeasible()
                s2.iv[vid] = (l2, h2)
                for val in listed:
                    if l2 <= val <= h2:
                        cv = self.mk_const_int(s2, ty, val)
                        s2.rel.add(('ne', vid, cv[2]))
                if d and d[0] == 'discr':
                    self.refine_variant(s2, d, listed, keep=False)
                self.derive_from_defs(s2, vid, upper=h2)
                res.append((s2, t['otherwise']))
            except Infeasible:
                pass
            return res
        # unknown discriminant: all successors
        seen = []
        for raw, tgt in t['targets']:
            if tgt not in seen:
                seen.append(tgt)
        if t['otherwise'] not in seen:
            seen.append(t['otherwise'])
        return [(st.copy(), b) for b in seen]

    def refine_variant(self, st, d, vals, keep):
        _, cid, defp = d
        v = st.cells.get(cid)
        if v is None or v[0] != 'adt' or v[2] is None:
            return
        names = self.variant_names(v[1])
        if not names:
            return
        chosen = {n for n in names if self.variant_discr(v[1], n, names) in vals}
        nv = (v[2] & chosen) if keep else (v[2] - chosen)
        if not nv:
            raise Infeasible()
        st.cells[cid] = ('adt', v[1], frozenset(nv), v[3])

    def do_assert(self, st, fr, bb, t, chain):
        v = self.operand(st, fr, t['cond'])
        expected = t['expected']
        kind = t['kind']
        line = fr.body.blocks[bb]['sp']['l']
        if kind in ('Misaligned', 'NullPtr', 'InvalidEnum'):
            return [(st, t['target'])]       # compiler-inserted debug checks on references: not panics of the source program
        if v[0] != 'bool':
            self.oblige('assert:' + kind, fr, 'cond-unknown', [], line, chain)
            return [(st, t['target'])]
        known = st.bv.get(v[1])
        if known is None:
            # try evaluating through the definition
            d = self.idef.get(v[1])
            if d and d[0] == 'cmp':
                known = self.eval_cmp(st, d[1], d[2], d[3])
        if known is not None and known == expected:
            self.discharge(kind.split(':')[0])
            return [(st, t['target'])]
        ops = [self.describe(st, self.operand(st, fr, o)) for o in t['ops']]
        names = [op_name(fr.body, o) for o in t['ops']]
        detail = '%s(%s)' % (kind.replace('Overflow:', ''), ', '.join(names)) if kind.startswith('Overflow') else '%s(%s)' % (kind, ', '.join(names))
        if known is not None and known != expected:
            self.oblige(('overflow' if kind.startswith('Overflow') else kind.lower()), fr, detail + '|always', ops, line, chain)
            return []
        self.oblige(('overflow' if kind.startswith('Overflow') else kind.lower()), fr, detail, ops, line, chain)
        s2 = st
        try:
            self.assume_bool(s2, v[1], expected)
        except Infeasible:
            return []
        return [(s2, t['target'])]

    # ---- calls -----------------------------------------------------------------------------------------
    def do_call(self, st, fr, bb, t, chain, depth):
        c = t['callee']
        body = fr.body
        line = body.blocks[bb]['sp']['l']
        sp = body.blocks[bb]['sp']
        d = callee_def(c) or ''
        name = c.get('name') or ''
        args = [self.operand(st, fr, a) for a in t['args']]
        # diverging calls: a reached panic
        if t.get('target') is None:
            macros = sp.get('m') or []
            kind = 'panic'
            for mname in ('debug_assert', 'debug_assert_eq', 'debug_assert_ne'):
                if mname in macros:
                    kind = 'debug_assert'
            if kind == 'panic':
                for mname in ('assert', 'assert_eq', 'assert_ne', '$crate::assert'):
                    if mname in macros:
                        kind = 'assert'
            if 'unreachable' in macros:
                kind = 'unreachable'
            if 'unimplemented' in macros or 'todo' in macros:
                kind = 'unimplemented'
            msg = fr.locals.get('__msg')
            self.oblige(kind, fr, fr_msg(fr) or 'panic', [], line, chain)
            return []
        dest_c = None

        def ret(s, val):
            self.store(s, fr, t['dest'], val)
            return (s, t['target'])

        if c.get('def') is None and c.get('fn_op') is not None:
            # call through a function pointer: the callee is whatever function values reach the operand
            fnv = self.operand(st, fr, c['fn_op'])
            if fnv[0] not in ('fn', 'fnset', 'closure') and c.get('indirect'):
                # the pointer's value is not tracked (loaded from a table, ...): every crate function and variant constructor of that
                # exact type may be the callee (type-based resolution of the indirect call)
                cands = self.fn_candidates(c['indirect'])
                if cands:
                    fnv = ('fnset', frozenset(cands)) if len(cands) > 1 else ('fn', cands[0])
            if fnv[0] in ('fn', 'fnset', 'closure'):
                res_ = self.call_value(st, fnv, args, chain, depth)
                if res_ is not None:
                    return self.merge_outcomes(res_, fr, t)
        res = c.get('res')
        ov = getattr(self, 'callee_overrides', None)
        if ov and c.get('def') in ov:
            # a rule supplies the abstract result of this (external) callee, e.g. what a derived Deserialize hands back
            return [ret(st, ov[c['def']](self, st, fr, t))]
        if res is None and c.get('def') is not None and c['def'] in getattr(self, 'abstract_trait_fns', {}):
            # required trait method of the type parameter, given an abstract value by the rule (e.g. the price accessors of T: OHLCV)
            return [ret(st, self.abstract_trait_fns[c['def']])]
        # crate-local callee with a body: interpret
        if res and res.get('local') and res['kind'] == 'Item':
            cb = self.body(res['id'])
            if cb is None and res.get('def'):
                cb = self.body('G:' + res['def'])      # generic caller: the callee's generic body
            if cb is not None:
                if depth >= self.max_depth or chain.count(res['id']) >= 3:
                    self.undecided_callees[res['id']] = 'recursion/depth'
                    return [ret(st, self.top_of(st, body.locals[t['dest']['l']]['tyj']) if not t['dest']['p'] else self.top_of_tystr(st, t['dest']['ty']))]
                outs = self.run_fn(cb, st, args, chain + [res['id']], depth + 1)
                return self.merge_outcomes(outs, fr, t)
        if res and res.get('kind') == 'ClosureOnceShim' or (res and res.get('closure')):
            pass
        sm = self.summary(st, fr, t, c, d, name, args, line, chain, depth)
        if sm is not None:
            return [ret(s, v) for (s, v) in sm]
        if res is None and c.get('def') is not None and (c.get('trait') or not c.get('local')):
            # trait method of a type parameter (generic body): behaviour belongs to the caller's instantiation
            self.generic_callees[c['def']] = fr.fn
            return [ret(st, self.dest_top(st, fr, t))]
        # unknown callee: a crate function without a body is a hole in the analysis (the rule reports exit 2); a std / core function without
        # a summary is over-approximated (any result of its type, everything reachable through a mutable argument forgotten) and listed --
        # the functions whose panics matter to the properties (indexing, unwrap, copy_from_slice, rotate, division ...) all have summaries
        if c.get('local') or not d:
            self.undecided_callees[d or name or '?'] = fr.fn
        else:
            self.foreign_unmodelled[d] = fr.fn
        for a in args:
            self.havoc_mut(st, a)
        val = self.top_of(st, body.locals[t['dest']['l']]['tyj']) if not t['dest']['p'] else self.top_of_tystr(st, t['dest']['ty'])
        return [ret(st, val)]

    def find_from_impl(self, T, U):
        key = (T, U)
        cache = self.__dict__.setdefault('_from_cache', {})
        if key not in cache:
            found = None
            cands = ('<%s as std::convert::From<%s>>::from' % (U, T),)
            for bid in self.f.bodies:
                if bid in cands or (bid.endswith('>::from') and ('impl std::convert::From<%s> for %s>' % (T, U)) in bid):
                    found = bid
                    break
            cache[key] = found
        return self.body(cache[key]) if cache[key] else None

    def fn_candidates(self, fty):
        """crate functions / tuple-variant constructors whose type is exactly the function pointer type `fty` ("fn(A, B) -> R")"""
        cache = self.__dict__.setdefault('_fn_cands', {})
        if fty in cache:
            return cache[fty]
        want = fty.replace(' ', '')
        out = []
        for d_, fn in self.f.fns.items():
            sig = (fn.get('sig') or '').replace(' ', '')
            if sig == want and (self.body(d_) is not None or self.body('G:' + d_) is not None):
                out.append(d_)
        if '->' in want:
            argstr, ret = want[3:].rsplit(')->', 1)
            adt = self.f.adts.get(ret)
            if adt is not None:
                argl = [a for a in argstr.split(',') if a]
                for v_ in adt['variants']:
                    if len(v_['fields']) == len(argl) and all((fd['tyj'].get('n') or fd['tyj'].get('def') or fd['tyj'].get('s')) == a for fd, a in zip(v_['fields'], argl)):
                        out.append('%s::%s' % (ret, v_['name']))
        cache[fty] = sorted(out)[:64]
        return cache[fty]

    def call_value(self, st, fnv, args, chain, depth):
        """Call a function item or closure value with already evaluated arguments; None if its body is not available."""
        if fnv[0] == 'fnset':
            outs = []
            for d_ in sorted(fnv[1]):
                res_ = self.call_value(st.copy(), ('fn', d_), args, chain, depth)
                if res_ is None:
                    return None
                outs.extend(res_)
            return outs
        if fnv[0] == 'fn':
            cb = self.body(fnv[1]) or self.body('G:' + fnv[1])
            if cb is not None and cb.arg_count == len(args) and chain.count(cb.id) < 3:
                return self.run_fn(cb, st, args, chain + [cb.id], depth + 1)
            # a tuple-variant / tuple-struct constructor used as a function: builds the value, cannot fail
            sa_ = self.f.adts.get(fnv[1])
            if sa_ is not None and len(sa_['variants']) == 1 and len(sa_['variants'][0]['fields']) == len(args):
                v_ = sa_['variants'][0]         # tuple struct used as a function (`.map(Self)`)
                fl = {fd['name']: self.alloc(st, a) for fd, a in zip(v_['fields'], args)}
                return [(st, ('adt', fnv[1], frozenset([v_['name']]), {v_['name']: fl}))]
            if '::' in fnv[1]:
                ap, vn = fnv[1].rsplit('::', 1)
                adt = self.f.adts.get(ap)
                if adt is not None:
                    for v_ in adt['variants']:
                        if v_['name'] == vn and len(v_['fields']) == len(args):
                            fl = {fd['name']: self.alloc(st, a) for fd, a in zip(v_['fields'], args)}
                            return [(st, ('adt', ap, frozenset([vn]), {vn: fl}))]
            return None
        if fnv[0] == 'closure':
            cb = self.body(fnv[1])
            if cb is not None and chain.count(cb.id) < 3:
                return self.run_fn(cb, st, [fnv] + args, chain + [cb.id], depth + 1)
        return None

    def havoc_mut(self, st, v, depth=0):
        # conservative: data behind references handed to an unknown callee becomes unknown
        if v[0] == 'ref' and depth < 3:
            tgt = st.cells.get(v[1])
            if tgt is not None and tgt[0] in ('int',):
                st.cells[v[1]] = self.mk_int(st, tgt[1])
            elif tgt is not None and tgt[0] == 'buf':
                st.cells[v[1]] = ('buf', self.mk_int(st, 'usize')[2])

    def merge_outcomes(self, outs, fr, t):
        """Join callee outcomes per returned variant signature, then continue in the caller."""
        groups = {}
        for s, v in outs:
            sig = 'any'
            if v[0] == 'adt' and v[2] is not None and len(v[2]) == 1:
                sig = next(iter(v[2]))
            elif v[0] == 'bool':
                sig = s.bv.get(v[1])
            groups.setdefault(sig, []).append((s, v))
        res = []
        for sig, lst in groups.items():
            if len(lst) == 1:
                s, v = lst[0]
            else:
                s, v = self.join_outcomes(lst)
            self.store(s, fr, t['dest'], v)
            res.append((s, t['target']))
        return res

    # ---- std summaries ------------------------------------------------------------------------------------
    def mk_result(self, st, ok=None, err=None, d='std::result::Result'):
        names = STD_ENUMS[d]
        variants = set()
        fields = {}
        for vn, val in zip(names, (ok, err)):
            if val is not None:
                variants.add(vn)
                fields[vn] = {'0': self.alloc(st, val)}
        return ('adt', d, frozenset(variants), fields)

    def mk_option(self, st, some=None, none=False):
        variants = set()
        fields = {'None': {}}
        if some is not None:
            variants.add('Some')
            fields['Some'] = {'0': self.alloc(st, some)}
        if none:
            variants.add('None')
        return ('adt', 'std::option::Option', frozenset(variants), fields)

    def dest_payload_top(self, st, fr, t):
        tj = fr.body.locals[t['dest']['l']]['tyj'] if not t['dest']['p'] else tyj_of_str(t['dest']['ty'])
        if tj.get('t') == 'adt' and tj.get('args'):
            return self.top_of(st, tj['args'][0])
        return ('top', '?')

    def dest_top(self, st, fr, t):
        if not t['dest']['p']:
            return self.top_of(st, fr.body.locals[t['dest']['l']]['tyj'])
        return self.top_of_tystr(st, t['dest']['ty'])

    def summary(self, st, fr, t, c, d, name, args, line, chain, depth):
        tr = c.get('trait') or ''
        A = args
        dv = lambda v: self.deref_val(st, v)
        if name == 'into_iter' and A and (A[0][0] == 'top' and len(A[0]) >= 4 or A[0][0] == 'adt' and A[0][1].endswith(('::WindowIterator', '::ReversedWindowIterator'))):
            return [(st, A[0])]         # IntoIterator for an iterator is the identity
        if name == 'next' and 'Iterator' in (tr or d) and A and A[0][0] == 'ref':
            itv = st.cells.get(A[0][1])
            if itv is not None and itv[0] == 'top' and len(itv) >= 4:
                # next() of a length-preserving adaptor chain over a window iterator: None, or Some(item) whose enumerate index is < n
                nvid, en = itv[2], itv[3]
                outs_ = []
                resv = self.dest_top(st, fr, t)
                if resv[0] == 'adt' and 'Some' in resv[3]:
                    s_some = st.copy()
                    item_c = resv[3]['Some']['0']
                    item = s_some.cells.get(item_c)
                    if en and item is not None and item[0] == 'tuple':
                        hi = self.rng(s_some, nvid)[1]
                        idx = self.mk_int(s_some, 'usize', 0, max(hi - 1, 0))
                        s_some.rel.add(('lt', idx[2], nvid))
                        s_some.cells[item[1][0]] = idx
                    if self.rng(st, nvid)[1] >= 1:
                        outs_.append((s_some, ('adt', resv[1], frozenset(['Some']), resv[3])))
                    outs_.append((st.copy(), ('adt', resv[1], frozenset(['None']), resv[3])))
                    return outs_
        if d.startswith('core::fmt::') or d.startswith('std::fmt::') or d.startswith('alloc::fmt::') or d == 'std::fmt::format':
            if name == 'from_str' and 'Arguments' in d and A:
                v = dv(A[0])
                if v[0] == 'strlit':
                    fr.locals['__msg'] = v[1]
            return [(st, self.dest_top(st, fr, t))]
        if d == 'std::hint::must_use' and A:
            return [(st, A[0])]
        if d.startswith('std::ops::RangeInclusive::<') and name == 'new' and len(A) == 2:
            return [(st, ('adt', 'std::ops::RangeInclusive', None, {'RangeInclusive': {'start': self.alloc(st, A[0]), 'end': self.alloc(st, A[1])}}))]
        if name == 'contains' and (d.startswith('std::ops::RangeInclusive::<') or d.startswith('std::ops::Range::<')) and len(A) == 2:
            rv = dv(A[0])
            x = dv(A[1])
            incl = 'Inclusive' in d
            if rv[0] == 'adt' and x[0] == 'int':
                fl = next(iter(rv[3].values()))
                lo = st.cells[fl['start']] if 'start' in fl else None
                hi = st.cells[fl['end']] if 'end' in fl else None
                if lo and hi and lo[0] == 'int' and hi[0] == 'int':
                    ge = self.eval_cmp(st, 'Le', lo[2], x[2])
                    lt = self.eval_cmp(st, 'Le' if incl else 'Lt', x[2], hi[2])
                    if ge is True and lt is True:
                        return [(st, self.mk_bool(st, True))]
                    if ge is False or lt is False:
                        return [(st, self.mk_bool(st, False))]
                    return [(st, self.mk_bool(st, None, ('irange', x[2], lo[2], hi[2], incl, ge, lt)))]
            if rv[0] == 'adt' and x[0] == 'float':
                fl = next(iter(rv[3].values()))
                lo = self.fview(st, st.cells[fl['start']]) if 'start' in fl else None
                hi = self.fview(st, st.cells[fl['end']]) if 'end' in fl else None
                if lo and hi and lo[0] == 'float' and hi[0] == 'float' and not lo[3] and not hi[3]:
                    if not x[3] and x[1] >= lo[2] and (x[2] <= hi[1] if incl else x[2] < hi[1]):
                        return [(st, self.mk_bool(st, True))]
                    if not x[3] and (x[2] < lo[1] or (x[1] > hi[2] if incl else x[1] >= hi[2])):
                        return [(st, self.mk_bool(st, False))]
                    if len(x) > 4 and lo[1] == lo[2] and hi[1] == hi[2]:
                        return [(st, self.mk_bool(st, None, ('frange', x[4], lo[1], hi[1] if incl else math.nextafter(hi[1], -INF))))]
            return [(st, self.mk_bool(st))]
        # ---- Try / ? -------------------------------------------------------------------------------------
        if name == 'branch' and tr.endswith('Try'):
            v = dv(A[0])
            if v[0] == 'adt' and v[1] in ('std::result::Result', 'std::option::Option') and v[2] is not None:
                outs = []
                is_res = v[1].endswith('Result')
                for vn in sorted(v[2]):
                    s2 = st.copy() if len(v[2]) > 1 else st
                    if vn in ('Ok', 'Some'):
                        pay = s2.cells[v[3][vn]['0']]
                        val = ('adt', 'std::ops::ControlFlow', frozenset(['Continue']), {'Continue': {'0': self.alloc(s2, pay)}, 'Break': {}})
                    else:
                        if is_res:
                            inner = ('adt', v[1], frozenset(['Err']), {'Err': {'0': v[3]['Err']['0']}})
                        else:
                            inner = ('adt', v[1], frozenset(['None']), {'None': {}})
                        val = ('adt', 'std::ops::ControlFlow', frozenset(['Break']), {'Break': {'0': self.alloc(s2, inner)}, 'Continue': {}})
                    outs.append((s2, val))
                return outs
            return [(st, self.dest_top(st, fr, t))]
        if name == 'from_residual':
            dt = fr.body.locals[t['dest']['l']]['tyj'] if not t['dest']['p'] else tyj_of_str(t['dest']['ty'])
            if dt.get('t') == 'adt' and dt['def'] == 'std::result::Result':
                # `?` on a Result whose error type equals the caller's: the error value is passed through
                errv = ('top', 'err')
                rv = dv(A[0]) if A else None
                if rv and rv[0] == 'adt' and rv[1] == 'std::result::Result' and 'Err' in rv[3] and '0' in rv[3]['Err']:
                    ev = st.cells[rv[3]['Err']['0']]
                    want = dt['args'][1] if len(dt.get('args', [])) > 1 else None
                    if ev[0] == 'adt' and want and want.get('t') == 'adt' and want['def'] == ev[1]:
                        errv = ev
                return [(st, self.mk_result(st, None, errv))]
            if dt.get('t') == 'adt' and dt['def'] == 'std::option::Option':
                return [(st, self.mk_option(st, None, True))]
            return [(st, self.dest_top(st, fr, t))]
        # ---- integer intrinsics ------------------------------------------------------------------------------
        if d.startswith('core::num::<impl ') and len(A) >= 1 and A[0][0] == 'int':
            ty = A[0][1]
            tl, th = INT_RANGE.get(ty, (0, 2 ** 64))
            x = A[0][2]
            la, ha = self.rng(st, x)
            if len(A) == 2 and A[1][0] == 'int':
                y = A[1][2]
                lb, hb = self.rng(st, y)
                if name == 'saturating_add':
                    if self.sum_upper(st, x, y) > th:
                        self.__dict__.setdefault('saturations', []).append((strip_inst(fr.fn), name, ty, '%s + %s' % (self.describe(st, A[0]), self.describe(st, A[1])), fr.body.file, line))
                    r = self.mk_int(st, ty, min(la + lb, th), min(self.sum_upper(st, x, y), th))
                    self.idef[r[2]] = ('sat_add', x, y, th)
                    if self.sum_upper(st, x, y) > th:
                        self.__dict__.setdefault('sat_vids', {})[r[2]] = (th, 'saturating_add(%s, %s)' % (self.describe(st, A[0]), self.describe(st, A[1])))
                    return [(st, r)]
                if name == 'saturating_sub':
                    lo, hi = max(la - hb, tl), max(ha - lb, tl)
                    if self.prove_lt(st, y, x):
                        lo = max(lo, 1)
                    r = self.mk_int(st, ty, lo, hi)
                    self.idef[r[2]] = ('sat_sub', x, y)
                    if (lb, hb) == (1, 1):
                        self.dec_of.setdefault(x, []).append(r[2])
                    st.rel.add(('le', r[2], x))
                    return [(st, r)]
                if name == 'saturating_mul':
                    if ha * hb > th:
                        self.__dict__.setdefault('saturations', []).append((strip_inst(fr.fn), name, ty, '%s * %s' % (self.describe(st, A[0]), self.describe(st, A[1])), fr.body.file, line))
                    r = self.mk_int(st, ty, min(la * lb, th), min(ha * hb, th))
                    if ha * hb > th:
                        # like a saturated sum: a product clamped at the capacity of its type is a width-dependent number
                        self.__dict__.setdefault('sat_vids', {})[r[2]] = (th, 'saturating_mul(%s, %s)' % (self.describe(st, A[0]), self.describe(st, A[1])))
                    return [(st, r)]
                if name in ('checked_sub', 'checked_add', 'checked_mul'):
                    outs = []
                    if name == 'checked_sub':
                        can_some = not self.prove_lt(st, x, y)
                        can_none = not self.prove_le(st, y, x)
                        if can_some:
                            s2 = st.copy()
                            try:
                                self.assume_cmp(s2, 'Le', y, x, True)
                                l2, h2 = self.rng(s2, x)
                                l3, h3 = self.rng(s2, y)
                                r = self.mk_int(s2, ty, max(l2 - h3, 0), h2 - l3)
                                s2.rel.add(('le', r[2], x))
                                outs.append((s2, self.mk_option(s2, r, False)))
                            except Infeasible:
                                pass
                        if can_none:
                            s2 = st.copy()
                            try:
                                self.assume_cmp(s2, 'Lt', x, y, True)
                                outs.append((s2, self.mk_option(s2, None, True)))
                            except Infeasible:
                                pass
                        return outs
                    return [(st, self.mk_option(st, self.mk_int(st, ty), True))]
                if name in ('min', 'max'):
                    if name == 'min':
                        r = self.mk_int(st, ty, min(la, lb), min(ha, hb))
                        st.rel.add(('le', r[2], x)); st.rel.add(('le', r[2], y))
                    else:
                        r = self.mk_int(st, ty, max(la, lb), max(ha, hb))
                        st.rel.add(('le', x, r[2])); st.rel.add(('le', y, r[2]))
                    return [(st, r)]
                if name in ('wrapping_add', 'wrapping_sub', 'wrapping_mul', 'pow', 'abs_diff', 'rem_euclid', 'div_euclid'):
                    return [(st, self.mk_int(st, ty))]
            if name in ('abs', 'wrapping_abs', 'unsigned_abs', 'saturating_abs', 'signum') and len(A) == 1:
                if name == 'signum':
                    return [(st, self.mk_int(st, ty, -1 if la < 0 else (0 if la == 0 else 1), 1 if ha > 0 else (0 if ha == 0 else -1)))]
                if name == 'abs' and la == tl and tl < 0:
                    # |MIN| does not fit: `abs` inherits the caller's overflow checks
                    self.oblige('overflow', fr, 'abs(%s)' % op_name(fr.body, t['args'][0]), [self.describe(st, A[0])], line, chain)
                    la = la + 1
                lo = 0 if la <= 0 <= ha else min(abs(la), abs(ha))
                hi = max(abs(la), abs(ha))
                rty = ty if name != 'unsigned_abs' else 'u' + ty[1:]
                hi = min(hi, INT_RANGE.get(rty, (0, hi))[1])
                return [(st, self.mk_int(st, rty, lo, hi))]
            if name in ('is_power_of_two',):
                return [(st, self.mk_bool(st))]
            if name in ('count_ones', 'leading_zeros', 'trailing_zeros'):
                return [(st, self.mk_int(st, 'u32', 0, 128))]
        if name in ('min', 'max') and tr.endswith('cmp::Ord') and len(A) == 2 and A[0][0] == 'int' and A[1][0] == 'int':
            x, y = A[0][2], A[1][2]
            la, ha = self.rng(st, x)
            lb, hb = self.rng(st, y)
            if name == 'min':
                r = self.mk_int(st, A[0][1], min(la, lb), min(ha, hb))
                st.rel.add(('le', r[2], x)); st.rel.add(('le', r[2], y))
            else:
                r = self.mk_int(st, A[0][1], max(la, lb), max(ha, hb))
                st.rel.add(('le', x, r[2])); st.rel.add(('le', y, r[2]))
            return [(st, r)]
        # ---- floats ------------------------------------------------------------------------------------------------
        if ('::<impl f64>::' in d or '::<impl f32>::' in d):
            a0 = A[0] if A and A[0][0] == 'float' else ('float', -INF, INF, True)
            fid = a0[4] if len(a0) > 4 else None
            if name in ('is_finite', 'is_nan', 'is_infinite', 'is_normal', 'is_sign_negative', 'is_sign_positive'):
                if name == 'is_finite' and not a0[3] and a0[1] > -INF and a0[2] < INF:
                    return [(st, self.mk_bool(st, True))]
                if a0[3] and a0[1] > a0[2]:
                    # certainly NaN
                    return [(st, self.mk_bool(st, name == 'is_nan'))] if name in ('is_nan', 'is_finite', 'is_infinite', 'is_normal') else [(st, self.mk_bool(st))]
                if name in ('is_finite', 'is_infinite') and not a0[3] and (a0[1] == INF or a0[2] == -INF):
                    return [(st, self.mk_bool(st, name == 'is_infinite'))]
                if name == 'is_nan' and not a0[3]:
                    return [(st, self.mk_bool(st, False))]
                if name == 'is_nan' and fid is not None and fid == getattr(self, 'force_nan', None):
                    return [(st, self.mk_bool(st, True))]
                if name == 'is_nan' and fid is not None:
                    return [(st, self.mk_bool(st, None, ('isnan', fid)))]
                if name == 'is_finite' and fid is not None:
                    return [(st, self.mk_bool(st, None, ('isfinite', fid)))]
                if name in ('is_sign_negative', 'is_sign_positive') and not a0[3]:
                    neg = name == 'is_sign_negative'
                    if a0[2] < 0:
                        return [(st, self.mk_bool(st, neg))]
                    if a0[1] > 0:
                        return [(st, self.mk_bool(st, not neg))]
                return [(st, self.mk_bool(st))]
            if name == 'clamp' and len(A) == 3 and A[1][0] == 'float' and A[2][0] == 'float' and A[1][1] == A[1][2] and A[2][1] == A[2][2]:
                return [(st, ('float', max(a0[1], A[1][1]), min(a0[2], A[2][1]), a0[3]))]
            if name in ('min', 'max') and len(A) == 2 and A[1][0] == 'float':
                b0 = A[1]
                if name == 'max':
                    return [(st, ('float', max(a0[1], b0[1]), max(a0[2], b0[2]), a0[3] and b0[3]))]
                return [(st, ('float', min(a0[1], b0[1]), min(a0[2], b0[2]), a0[3] and b0[3]))]
            if name == 'sqrt':
                if not a0[3] and a0[1] >= 0:
                    return [(st, ('float', math.sqrt(a0[1]) * (1 - 1e-15), math.sqrt(a0[2]) * (1 + 1e-15) if a0[2] < INF else INF, False))]
                return [(st, ('float', -INF, INF, True))]
            if name == 'abs':
                if not a0[3]:
                    lo = 0.0 if a0[1] <= 0 <= a0[2] else min(abs(a0[1]), abs(a0[2]))
                    return [(st, ('float', lo, max(abs(a0[1]), abs(a0[2])), False))]
                return [(st, ('float', 0.0, INF, True))]
            if name == 'to_bits':
                return [(st, self.mk_int(st, 'u64'))]
            if name in ('floor', 'ceil', 'round', 'trunc') and not a0[3] and a0[1] > -1e300 and a0[2] < 1e300:
                fn = {'floor': math.floor, 'ceil': math.ceil, 'round': round, 'trunc': math.trunc}[name]
                return [(st, ('float', float(fn(a0[1])), float(fn(a0[2])), False))]
            if name == 'recip' and not a0[3] and a0[1] > 0:
                return [(st, ('float', (1.0 / a0[2]) * (1 - 1e-15) if a0[2] < INF else 0.0, (1.0 / a0[1]) * (1 + 1e-15), False))]
            return [(st, ('float', -INF, INF, True))]
        if tr.endswith('OHLCV') and (c.get('res') or {}).get('kind') in ('Virtual', None):
            return [(st, self.dest_top(st, fr, t))]
        if d.startswith('core::bool::<impl bool>::') and name in ('then', 'then_some') and len(A) == 2 and A[0][0] == 'bool':
            # Some(f()) / Some(v) when the flag holds, None otherwise
            outs = []
            tv = st.bv.get(A[0][1])
            if tv is not False:
                s2 = st.copy()
                try:
                    self.assume_bool(s2, A[0][1], True)
                    if name == 'then_some':
                        outs.append((s2, self.mk_option(s2, some=A[1])))
                    else:
                        res2 = self.call_value(s2, A[1], [], chain, depth)
                        if res2 is None:
                            outs.append((s2, self.dest_top(s2, fr, t)))
                        else:
                            for s3, rv3 in res2:
                                outs.append((s3, self.mk_option(s3, some=rv3)))
                except Infeasible:
                    pass
            if tv is not True:
                s2 = st.copy()
                try:
                    self.assume_bool(s2, A[0][1], False)
                    outs.append((s2, self.mk_option(s2, none=True)))
                except Infeasible:
                    pass
            return outs
        # ---- Option / Result combinators ----------------------------------------------------------------------------------
        if d.startswith('std::result::Result::<') or d.startswith('std::option::Option::<'):
            v = dv(A[0]) if A else None
            if name in ('unwrap', 'expect') and v and v[0] == 'adt' and v[2] is not None:
                good = 'Ok' if v[1].endswith('Result') else 'Some'
                bad = [x for x in v[2] if x != good]
                if bad:
                    self.oblige(name, fr, '%s on %s' % (name, '/'.join(sorted(v[2]))), [self.describe(st, v)], line, chain)
                else:
                    self.discharge(name)
                if good in v[2]:
                    return [(st, st.cells[v[3][good]['0']])]
                return []
            if name in ('unwrap', 'expect'):
                self.oblige(name, fr, name + ' on unknown', [], line, chain)
                return [(st, self.dest_top(st, fr, t))]
            if name in ('or',) and v and v[0] == 'adt' and v[2] is not None and len(A) == 2:
                alt = dv(A[1])
                outs = []
                good = 'Ok' if v[1].endswith('Result') else 'Some'
                if good in v[2]:
                    s2 = st.copy()
                    outs.append((s2, ('adt', v[1], frozenset([good]), {good: v[3][good]})))
                if v[2] - {good}:
                    s2 = st.copy()
                    outs.append((s2, alt if alt[0] == 'adt' else self.dest_top(s2, fr, t)))
                return outs
            if name in ('ok_or', 'ok_or_else') and v and v[0] == 'adt' and v[2] is not None:
                outs = []
                if 'Some' in v[2]:
                    s2 = st.copy()
                    outs.append((s2, self.mk_result(s2, s2.cells[v[3]['Some']['0']], None)))
                if 'None' in v[2]:
                    s2 = st.copy()
                    outs.append((s2, self.mk_result(s2, None, ('top', 'err'))))
                return outs
            if name in ('map_err', 'or_else') and v and v[0] == 'adt' and v[2] is not None and v[1].endswith('Result'):
                outs = []
                if 'Ok' in v[2]:
                    s2 = st.copy()
                    outs.append((s2, self.mk_result(s2, s2.cells[v[3]['Ok']['0']], None)))
                if 'Err' in v[2]:
                    s2 = st.copy()
                    outs.append((s2, self.mk_result(s2, None, ('top', 'err'))))
                return outs
            if name == 'map_or' and v and v[0] == 'adt' and v[2] is not None and len(A) == 3:
                outs = []
                good = 'Ok' if v[1].endswith('Result') else 'Some'
                if v[2] - {good}:
                    outs.append((st.copy(), A[1]))
                if good in v[2]:
                    s2 = st.copy()
                    res2 = self.call_value(s2, A[2], [s2.cells[v[3][good]['0']]], chain, depth)
                    if res2 is None:
                        outs.append((s2, self.dest_top(s2, fr, t)))
                    else:
                        outs.extend(res2)
                return outs
            if name == 'unwrap_or' and v and v[0] == 'adt' and v[2] is not None and len(A) == 2:
                outs = []
                good = 'Ok' if v[1].endswith('Result') else 'Some'
                if good in v[2]:
                    outs.append((st.copy(), st.cells[v[3][good]['0']]))
                if v[2] - {good}:
                    outs.append((st.copy(), A[1]))
                return outs
            if name in ('map', 'and_then') and v and v[0] == 'adt' and v[2] is not None and len(A) == 2 and A[1][0] in ('fn', 'fnset', 'closure'):
                # apply the function to the payload on the good variant, pass the other variant through unchanged
                is_res = v[1].endswith('Result')
                good = 'Ok' if is_res else 'Some'
                outs = []
                decided = True
                if good in v[2]:
                    s2 = st.copy()
                    res2 = self.call_value(s2, A[1], [s2.cells[v[3][good]['0']]], chain, depth)
                    if res2 is None:
                        decided = False
                    else:
                        for s3, rv3 in res2:
                            if name == 'and_then':
                                outs.append((s3, rv3))
                            else:
                                outs.append((s3, self.mk_result(s3, rv3, None) if is_res else self.mk_option(s3, some=rv3)))
                if decided:
                    if v[2] - {good}:
                        s2 = st.copy()
                        if is_res:
                            outs.append((s2, self.mk_result(s2, None, s2.cells[v[3]['Err']['0']]) if 'Err' in v[3] and '0' in v[3]['Err'] else self.mk_result(s2, None, ('top', 'err'))))
                        else:
                            outs.append((s2, self.mk_option(s2, none=True)))
                    return outs
            if name == 'filter' and v and v[0] == 'adt' and v[2] is not None and len(A) == 2 and not v[1].endswith('Result') and A[1][0] in ('fn', 'fnset', 'closure'):
                outs = []
                decided = True
                if 'Some' in v[2]:
                    s2 = st.copy()
                    pc = v[3]['Some']['0']
                    res2 = self.call_value(s2, A[1], [('ref', pc)], chain, depth)
                    if res2 is None:
                        decided = False
                    else:
                        for s3, rv3 in res2:
                            tv = s3.bv.get(rv3[1]) if rv3[0] == 'bool' else None
                            if tv is not False:
                                s4 = s3.copy()
                                try:
                                    if rv3[0] == 'bool':
                                        self.assume_bool(s4, rv3[1], True)
                                    outs.append((s4, self.mk_option(s4, some=s4.cells[pc])))
                                except Infeasible:
                                    pass
                            if tv is not True:
                                s4 = s3.copy()
                                try:
                                    if rv3[0] == 'bool':
                                        self.assume_bool(s4, rv3[1], False)
                                    outs.append((s4, self.mk_option(s4, none=True)))
                                except Infeasible:
                                    pass
                if decided:
                    if 'None' in v[2]:
                        s2 = st.copy()
                        outs.append((s2, self.mk_option(s2, none=True)))
                    return outs
            if name in ('unwrap_or_else', 'map', 'and_then', 'unwrap_or_default', 'is_some', 'is_none', 'is_ok', 'is_err', 'take', 'cloned', 'copied',
                        'as_ref', 'as_mut', 'ok', 'err', 'filter'):
                if name in ('is_some', 'is_ok', 'is_none', 'is_err') and v and v[0] == 'adt' and v[2] is not None:
                    good = 'Ok' if v[1].endswith('Result') else 'Some'
                    pos = name in ('is_some', 'is_ok')
                    if v[2] == {good}:
                        return [(st, self.mk_bool(st, pos))]
                    if good not in v[2]:
                        return [(st, self.mk_bool(st, not pos))]
                    return [(st, self.mk_bool(st))]
                if name == 'unwrap_or_default' and v and v[0] == 'adt' and v[2] is not None and len(A) == 1:
                    # Some(x) -> x; None / Err -> Default::default() of the payload type (0 for the numeric types)
                    outs = []
                    good = 'Ok' if v[1].endswith('Result') else 'Some'
                    dty = fr.body.local_ty(t['dest']['l']) if not t['dest']['p'] else None
                    if good in v[2]:
                        outs.append((st.copy(), st.cells[v[3][good]['0']]))
                    if v[2] - {good}:
                        s2 = st.copy()
                        if dty in INT_RANGE:
                            outs.append((s2, self.mk_const_int(s2, dty, 0)))
                        elif dty in ('f64', 'f32'):
                            outs.append((s2, self.f_const(0.0)))
                        elif dty == 'bool':
                            outs.append((s2, self.mk_bool(s2, False)))
                        else:
                            outs.append((s2, self.dest_top(s2, fr, t)))
                    return outs
                if name == 'unwrap_or_else' and v and v[0] == 'adt' and v[2] is not None and len(A) == 2:
                    outs = []
                    good = 'Ok' if v[1].endswith('Result') else 'Some'
                    if good in v[2]:
                        outs.append((st.copy(), st.cells[v[3][good]['0']]))
                    if v[2] - {good}:
                        clo = A[1]
                        if clo[0] == 'closure':
                            cb = self.body(clo[1])
                            if cb is not None:
                                s2 = st.copy()
                                cargs = [clo] + ([('top', 'err')] if cb.arg_count > 1 else [])
                                for (s3, rv) in self.run_fn(cb, s2, cargs, chain + [clo[1]], depth + 1):
                                    outs.append((s3, rv))
                            else:
                                outs.append((st.copy(), self.dest_top(st, fr, t)))
                        else:
                            outs.append((st.copy(), self.dest_top(st, fr, t)))
                    return outs
                return [(st, self.dest_top(st, fr, t))]
        # ---- collections ------------------------------------------------------------------------------------------------------
        if d == 'std::vec::from_elem' and len(A) == 2 and A[1][0] == 'int':
            return [(st, ('buf', A[1][2]))]
        if d.startswith('std::vec::Vec::<') and name in ('new', 'with_capacity'):
            return [(st, ('buf', self.mk_const_int(st, 'usize', 0)[2]))]
        if name == 'len' and A:
            v = dv(A[0])
            if v[0] == 'buf':
                return [(st, ('int', 'usize', v[1]))]
            return [(st, self.mk_int(st, 'usize'))]
        if name == 'is_empty' and A:
            v = dv(A[0])
            if v[0] == 'buf':
                z = self.mk_const_int(st, 'usize', 0)
                val = self.eval_cmp(st, 'Eq', v[1], z[2])
                return [(st, self.mk_bool(st, val, ('cmp', 'Eq', v[1], z[2])))]
            return [(st, self.mk_bool(st))]
        if name in ('into', 'from', 'into_boxed_slice', 'to_vec', 'to_owned', 'into_vec', 'as_slice', 'as_mut_slice', 'as_ref', 'as_mut', 'borrow',
                    'borrow_mut', 'deref', 'deref_mut', 'clone', 'as_ptr', 'as_mut_ptr', 'iter', 'iter_mut', 'into_iter') and A:
            v = dv(A[0])
            if v[0] == 'buf':
                if name in ('deref', 'deref_mut', 'as_slice', 'as_mut_slice', 'as_ref', 'as_mut', 'borrow', 'borrow_mut') and A[0][0] == 'ref':
                    # reference to the same buffer cell
                    cur = A[0]
                    while st.cells[cur[1]][0] == 'ref':
                        cur = st.cells[cur[1]]
                    return [(st, cur)]
                if name in ('iter', 'iter_mut', 'into_iter', 'as_ptr', 'as_mut_ptr'):
                    return [(st, ('top', 'iter'))]
                return [(st, v)]
            if name == 'clone':
                return [(st, self.copy_val(st, v))]
            if name == 'into_iter' and v[0] == 'adt' and v[1] in ('std::ops::Range', 'core::ops::Range'):
                return [(st, v)]            # `impl<I: Iterator> IntoIterator for I`: the range itself
            if name in ('deref', 'deref_mut', 'as_ref', 'as_mut', 'borrow', 'borrow_mut'):
                return [(st, A[0] if A[0][0] == 'ref' else self.dest_top(st, fr, t))]
            if name == 'into' and tr.endswith('convert::Into') and len(c.get('args', [])) == 2:
                # blanket `impl<T, U: From<T>> Into<U> for T`: run the crate's own From impl if it has one
                T, U = c['args']
                cb = self.find_from_impl(T, U)
                if cb is not None and chain.count(cb.id) < 3:
                    return self.run_fn(cb, st, [A[0]], chain + [cb.id], depth + 1)
            if name in ('into', 'from') and not c.get('local'):
                # std's numeric From impls are lossless: the same mathematical value in the destination type
                dty = fr.body.local_ty(t['dest']['l']) if not t['dest']['p'] else None
                if v[0] == 'int' and dty in INT_RANGE:
                    lo, hi = self.rng(st, v[2])
                    if INT_RANGE[dty][0] <= lo and hi <= INT_RANGE[dty][1]:
                        return [(st, ('int', dty, v[2]))]
                if v[0] == 'bool' and dty in INT_RANGE:
                    b = st.bv.get(v[1])
                    iv = self.mk_int(st, dty, 0 if b is None else int(b), 1 if b is None else int(b))
                    self.idef[iv[2]] = ('boolcast', v[1])
                    return [(st, iv)]
                if v[0] == 'int' and dty in ('f64', 'f32'):
                    lo, hi = self.rng(st, v[2])
                    return [(st, ('float', float(lo), float(hi), False))]
                if v[0] == 'float' and dty in ('f64', 'f32') and (dty == 'f64' or v == dv(A[0])):
                    return [(st, v)]
            if name in ('into', 'from'):
                # identity conversions and simple wrappers are not modelled: top of destination
                return [(st, self.dest_top(st, fr, t))]
            return [(st, self.dest_top(st, fr, t))]
        if d == 'std::mem::replace' and len(A) == 2 and A[0][0] == 'ref':
            old = st.cells[A[0][1]]
            st.cells[A[0][1]] = A[1]
            return [(st, old)]
        if d in ('std::mem::take',) and A and A[0][0] == 'ref':
            old = st.cells[A[0][1]]
            return [(st, old)]
        # ---- strings / parsing / formatting ---------------------------------------------------------------------------------------
        if name == 'parse' and d.startswith('core::str::'):
            ty = c['args'][0] if c.get('args') else None
            ok = self.top_of(st, tyj_of_str(ty)) if ty else ('top', '?')
            return [(st, self.mk_result(st, ok, ('top', 'err')))]
        if name in ('eq', 'ne') and 'PartialEq' in d and A and len(A) == 2:
            x, y = dv(A[0]), dv(A[1])
            if x[0] == 'int' and y[0] == 'int':
                op_ = 'Eq' if name == 'eq' else 'Ne'
                val = self.eval_cmp(st, op_, x[2], y[2])
                return [(st, self.mk_bool(st, val, ('cmp', op_, x[2], y[2])))]
            return [(st, self.mk_bool(st))]
        if name in ('to_string', 'to_ascii_lowercase', 'to_lowercase', 'trim', 'to_owned', 'as_str', 'format', 'from_str', 'new_const', 'new_v1',
                    'new', 'custom') and (d.startswith('std::fmt::') or 'ToString' in d or d.startswith('core::str::') or d.startswith('std::string::')
                                          or d.startswith('alloc::') or 'fmt::Arguments' in d or d.startswith('std::str::')):
            if name == 'from_str' and 'fmt::Arguments' in d and A:
                v = dv(A[0])
                if v[0] == 'strlit':
                    fr.locals['__msg'] = v[1]
            return [(st, self.dest_top(st, fr, t))]
        if name == 'split_once' and d.startswith('core::str::'):
            return [(st, self.mk_option(st, ('tuple', (self.alloc(st, ('ref', self.alloc(st, ('top', 'str')))), self.alloc(st, ('ref', self.alloc(st, ('top', 'str')))))), True))]
        if name == 'default' and tr.endswith('Default'):
            ty = c['args'][0] if c.get('args') else ''
            if ty in ('f64', 'f32'):
                return [(st, self.f_const(0.0))]
            if ty in INT_RANGE:
                return [(st, self.mk_const_int(st, ty, 0))]
            if ty == 'bool':
                return [(st, self.mk_bool(st, False))]
        if name == 'get' and d.startswith('core::slice::') and len(A) == 2:
            bufv = dv(A[0])
            if bufv[0] == 'buf' and A[1][0] == 'int':
                if self.prove_lt(st, A[1][2], bufv[1]):
                    return [(st, self.mk_option(st, self.dest_payload_top(st, fr, t), False))]
                if self.prove_le(st, bufv[1], A[1][2]):
                    return [(st, self.mk_option(st, None, True))]
                return [(st, self.mk_option(st, self.dest_payload_top(st, fr, t), True))]
        if name in ('index', 'index_mut') and 'RangeTo<usize>>' in (c.get('res') or {}).get('id', '') and len(A) == 2:
            # base[..n]: requires n <= len; the result is a slice of length n
            bufv = dv(A[0])
            rv = A[1]
            endc = None
            if rv[0] == 'adt' and rv[3]:
                fl = next(iter(rv[3].values()))
                endc = st.cells.get(fl.get('end')) if 'end' in fl else None
            if bufv[0] == 'buf' and endc is not None and endc[0] == 'int':
                if self.prove_le(st, endc[2], bufv[1]):
                    self.discharge('range-index')
                else:
                    self.oblige('range-index', fr, 'base[..n] requires n <= len', [self.describe(st, bufv), self.describe(st, endc)], line, chain)
                return [(st, ('ref', self.alloc(st, ('buf', endc[2]))))]
        if name in ('get_unchecked', 'get_unchecked_mut') and d.startswith('core::slice::') and len(A) == 2:
            # unchecked access: the bound is an obligation of the caller (undefined behaviour otherwise)
            bufv = dv(A[0])
            if bufv[0] == 'buf' and A[1][0] == 'int' and self.prove_lt(st, A[1][2], bufv[1]):
                self.discharge('unchecked-index')
            elif A[1][0] == 'int':
                self.oblige('unchecked-index', fr, '%s(index) requires index < len' % name, [self.describe(st, bufv), self.describe(st, A[1])], line, chain)
            return [(st, self.dest_top(st, fr, t))]
        if name in ('rotate_left', 'rotate_right') and d.startswith('core::slice::') and len(A) == 2:
            bufv = dv(A[0])
            if bufv[0] == 'buf' and A[1][0] == 'int' and self.prove_le(st, A[1][2], bufv[1]):
                self.discharge('rotate')
            else:
                self.oblige('rotate', fr, '%s(mid) requires mid <= len' % name, [self.describe(st, bufv), self.describe(st, A[1])], line, chain)
            return [(st, self.dest_top(st, fr, t))]
        if name in ('reverse', 'fill') and d.startswith('core::slice::'):
            return [(st, self.dest_top(st, fr, t))]
        if name == 'cmp' and len(A) == 2 and not c.get('local') and ('Ord' in (tr or '') or 'cmp::impls' in d):
            x, y = dv(A[0]), dv(A[1])
            if x[0] == 'int' and y[0] == 'int':
                # Ord::cmp on integers: one outcome per ordering that is possible, each refined by the comparison it implies
                outs_ = []
                for vn, op in (('Less', 'Lt'), ('Equal', 'Eq'), ('Greater', 'Gt')):
                    if self.eval_cmp(st, op, x[2], y[2]) is False:
                        continue
                    s2 = st.copy()
                    try:
                        self.assume_cmp(s2, op, x[2], y[2], True)
                    except Infeasible:
                        continue
                    outs_.append((s2, ('adt', 'std::cmp::Ordering', frozenset([vn]), {'Less': {}, 'Equal': {}, 'Greater': {}})))
                if outs_:
                    return outs_
        if name == 'next' and A and A[0][0] == 'ref' and not c.get('local'):
            # `for i in a..b`: Range<int>::next yields the current start while start < end and advances it by one; None otherwise
            cell = A[0][1]
            while st.cells[cell][0] == 'ref':
                cell = st.cells[cell][1]
            rv_ = st.cells[cell]
            if rv_[0] == 'adt' and rv_[1] in ('std::ops::Range', 'core::ops::Range') and rv_[3]:
                fl = next(iter(rv_[3].values()))
                sc, ec = st.cells.get(fl.get('start')), st.cells.get(fl.get('end'))
                if sc is not None and ec is not None and sc[0] == 'int' and ec[0] == 'int':
                    outs_ = []
                    lt_ = self.eval_cmp(st, 'Lt', sc[2], ec[2])
                    if lt_ is not False:
                        s1 = st.copy()
                        try:
                            self.assume_cmp(s1, 'Lt', sc[2], ec[2], True)
                            lo_, hi_ = self.rng(s1, sc[2])
                            nxt = self.mk_int(s1, sc[1], lo_ + 1, hi_ + 1)
                            s1.rel.add(('lt', sc[2], nxt[2]))
                            s1.rel.add(('le', nxt[2], ec[2]))
                            s1.cells[fl['start']] = nxt
                            outs_.append((s1, self.mk_option(s1, some=('int', sc[1], sc[2]))))
                        except Infeasible:
                            pass
                    if lt_ is not True:
                        s2 = st.copy()
                        try:
                            self.assume_cmp(s2, 'Lt', sc[2], ec[2], False)
                            outs_.append((s2, self.mk_option(s2, none=True)))
                        except Infeasible:
                            pass
                    if outs_:
                        return outs_
        if name in ('copied', 'cloned', 'by_ref', 'enumerate') and 'Iterator' in (tr or d) and A:
            # length-preserving adaptors over a window iterator keep its remaining count: ('top', 'iter', n, enumerated)
            v = A[0]
            nvid, en = None, False
            if v[0] == 'adt' and v[1].endswith(('::WindowIterator', '::ReversedWindowIterator')) and v[3]:
                fl = next(iter(v[3].values()))
                import wroles
                cnt_ = (wroles.window_roles(self.f).iters.get(v[1]) or {}).get('count', 'size')      # the remaining-count field, by role
                cc = st.cells.get(fl.get(cnt_)) if cnt_ in fl else None
                if cc is not None and cc[0] == 'int':
                    nvid = cc[2]
            elif v[0] == 'top' and len(v) >= 4:
                nvid, en = v[2], v[3]
            if nvid is not None:
                return [(st, ('top', 'iter', nvid, en or name == 'enumerate'))]
        if name == 'fold' and len(A) == 3 and A[0][0] == 'top' and len(A[0]) >= 4 and A[2][0] == 'closure':
            # fold over n items: abstract fixpoint of the closure on (accumulator, item), the item index of an enumerate() being < n
            nvid, en = A[0][2], A[0][3]
            cb = self.body(A[2][1])
            if cb is not None and cb.arg_count == 3 and chain.count(cb.id) < 2:
                s_acc, acc = st, A[1]
                stable = False
                for _round in range(5):
                    s_it = s_acc.copy()
                    item = self.top_of(s_it, cb.locals[3]['tyj'])
                    if en and item[0] == 'tuple':
                        hi = self.rng(s_it, nvid)[1]
                        idx = self.mk_int(s_it, 'usize', 0, max(hi - 1, 0))
                        s_it.rel.add(('lt', idx[2], nvid))
                        s_it.cells[item[1][0]] = idx
                    try:
                        outs = self.run_fn(cb, s_it, [A[2], acc, item], chain + [cb.id], depth + 1)
                    except Infeasible:
                        outs = []
                    if not outs:
                        stable = True       # the closure never returns normally: the accumulator is the initial one
                        break
                    s_new, v_new = self.join_outcomes([(s_acc, acc)] + outs)
                    if self.shape_of(s_new, v_new) == self.shape_of(s_acc, acc):
                        s_acc, acc = s_new, v_new
                        stable = True
                        break
                    s_acc, acc = s_new, v_new
                if stable:
                    return [(s_acc, acc)]
        if name in ('try_from', 'try_into') and not c.get('local') and A and A[0][0] == 'int':
            # std's checked numeric conversions: Ok(same value) when it fits the destination, Err otherwise
            dtj = fr.body.locals[t['dest']['l']]['tyj'] if not t['dest']['p'] else None
            okty = None
            if dtj and dtj.get('t') == 'adt' and dtj.get('args'):
                a0_ = dtj['args'][0]
                okty = a0_.get('n') if isinstance(a0_, dict) and a0_.get('t') == 'int' else None
            if okty in INT_RANGE:
                lo, hi = self.rng(st, A[0][2])
                tl, th = INT_RANGE[okty]
                outs_ = []
                if hi >= tl and lo <= th:
                    s_ok = st.copy()
                    try:
                        v_ok = ('int', okty, A[0][2])
                        if lo < tl or hi > th:
                            s_ok.iv[A[0][2]] = (max(lo, tl), min(hi, th))
                        outs_.append((s_ok, self.mk_result(s_ok, v_ok, None)))
                    except Infeasible:
                        pass
                if lo < tl or hi > th:
                    s_er = st.copy()
                    outs_.append((s_er, self.mk_result(s_er, None, ('top', 'err'))))
                if outs_:
                    return outs_
        if name in ('find', 'position', 'rposition', 'find_map', 'max_by', 'min_by', 'nth', 'first', 'last', 'split_first', 'split_last') and \
                ('Iterator' in (tr or d) or d.startswith('core::slice::')) and not c.get('local'):
            # searching consumers: any element or none (closures passed to them are assumed not to panic beyond what they would when run alone)
            return [(st, self.dest_top(st, fr, t))]
        if name in ('sum', 'product', 'fold', 'count', 'contains', 'mul_add', 'cmp', 'partial_cmp', 'collect', 'map', 'rev', 'zip', 'enumerate',
                    'next', 'copied', 'cloned', 'skip', 'take', 'all', 'any', 'for_each', 'reduce', 'windows', 'step_by', 'first', 'last',
                    'get', 'get_unchecked', 'get_unchecked_mut', 'sort_unstable_by', 'sort_unstable_by_key', 'sort_by', 'sort_by_key', 'sort_unstable', 'sort',
                    'sort_by_cached_key', 'binary_search_by', 'hash', 'fmt', 'type_name', 'split', 'size_of', 'align_of',
                    'push', 'extend', 'copy_from_slice', 'copy_within', 'serialize_struct', 'serialize_field', 'end', 'deserialize'):
            if name == 'copy_from_slice' and len(A) == 2:
                a, b = dv(A[0]), dv(A[1])
                if a[0] == 'buf' and b[0] == 'buf':
                    if self.eval_cmp(st, 'Eq', a[1], b[1]) is True:
                        self.discharge('copy_from_slice')
                    else:
                        self.oblige('copy_from_slice', fr, 'length mismatch', [self.describe(st, a), self.describe(st, b)], line, chain)
            return [(st, self.dest_top(st, fr, t))]
        return None


def fr_msg(fr):
    return fr.locals.get('__msg')


def op_name(body, o, depth=0):
    """Line-free, local-number-free description of an operand (for obligation keys)."""
    if o['o'] in ('copy', 'move'):
        p = o['pl']
        n = body.local_name(p['l'])
        if n and not p['p']:
            return n
        if 1 <= p['l'] <= body.arg_count and not p['p']:
            return 'arg%d' % p['l']
        sd = body.single_def(p['l'])
        proj = ''.join('.' + e['name'] for e in p['p'] if e['p'] == 'field' and not e['name'].isdigit())
        if sd and depth < 4:
            if sd[2] == 'assign':
                rv = sd[3]['rv']
                if rv['r'] == 'use' and rv['a']['o'] in ('copy', 'move', 'const'):
                    return op_name(body, rv['a'], depth + 1) + proj
                if rv['r'] == 'cast':
                    return op_name(body, rv['a'], depth + 1) + proj
                if rv['r'] == 'bin':
                    return '%s(%s, %s)' % (rv['op'].replace('WithOverflow', ''), op_name(body, rv['a'], depth + 1), op_name(body, rv['b'], depth + 1))
                if rv['r'] in ('ref',):
                    return place_name(body, rv['pl'])
            elif sd[2] == 'call':
                c = sd[3]['callee']
                return '%s(%s)' % (c.get('name') or 'call', ', '.join(op_name(body, a, depth + 1) for a in sd[3]['args']))
        return place_name(body, p)
    if o['o'] == 'const':
        v = o['v']
        if v.get('c') == 'scalar':
            return str(v['bits'])
    return '?'


def place_name(body, p):
    n = body.local_name(p['l'])
    base = n if n else ('arg%d' % p['l'] if 1 <= p['l'] <= body.arg_count else 'tmp')
    for e in p['p']:
        if e['p'] == 'field':
            base += '.' + e['name']
        elif e['p'] == 'deref':
            pass
        elif e['p'] == 'downcast':
            base += ' as ' + e['variant']
        else:
            base += '[..]'
    return base


def strip_inst(s):
    return s
