"""A04: inductive representation invariant of the ring buffer `Window` and of its iterators.

I(w):  buf.len == size,  s_1 == size.saturating_sub(1),  index < size  (or size == 0 and index == 0)
J(it): it.index < window.size,  it.size <= window.size   (window non-empty; an iterator over an empty window has it.size == 0)

Base: every constructor returns a window satisfying I (checked on the abstract return values of new / from_parts / empty and of the
Window built by Deserialize).  Step: assuming I (resp. I and J) at entry, every public method reaches no bounds check, overflow check or
other panic (except the documented ones on an empty window), and every `&mut self` method re-establishes the invariant at exit.
By induction no sequence of API calls on a constructed window can fail a bounds check -- in particular the `get_unchecked` arms of the
unsafe_performance build are in bounds independently of the default build's checks -- and slice_index only ever returns slots < size."""
from engine import RuleResult, Broken
from model import Model
from absint import St, Budget, Infeasible
from absexec import Exec

W = 'core::window::Window'
PT = {'ty': 'u8', 'max': 254}      # PeriodType of the analysed build and the largest window length a constructor accepts (MAX - 1)


class _Roles:
    """names of Window's private fields by role (rules/wroles.py); defaults are today's names"""
    buf, size, cursor, last, slot_fn, variant = 'buf', 'size', 'index', 's_1', 'slice_index', 'Window'
    iters = {}


WR = _Roles()


def set_period_type(f):
    import wroles
    from absint import INT_RANGE
    r = wroles.window_roles(f)
    WR.buf, WR.size, WR.cursor, WR.last, WR.slot_fn, WR.variant, WR.iters = r.buf, r.size, r.cursor, r.last, r.slot_fn, r.variant, r.iters
    WR.roles = r
    PT['ty'] = r.period_ty
    PT['max'] = INT_RANGE[r.period_ty][1] - 1


def mk_window(ex, st, nonempty, max_size=None):
    max_size = PT['max'] if max_size is None else max_size
    size = ex.mk_int(st, PT['ty'], 1 if nonempty else 0, max_size if nonempty else 0)
    one = ex.mk_const_int(st, PT['ty'], 1)
    lo, hi = ex.rng(st, size[2])
    s1 = ex.mk_int(st, PT['ty'], max(lo - 1, 0), max(hi - 1, 0))
    ex.idef[s1[2]] = ('sat_sub', size[2], one[2])
    ex.dec_of.setdefault(size[2], []).append(s1[2])
    st.rel.add(('le', s1[2], size[2]))
    index = ex.mk_int(st, PT['ty'], 0, max(hi - 1, 0))
    if nonempty:
        ex.assume_cmp(st, 'Lt', index[2], size[2], True)
    fields = {WR.buf: ex.alloc(st, ('buf', size[2])), WR.cursor: ex.alloc(st, index), WR.size: ex.alloc(st, size), WR.last: ex.alloc(st, s1)}
    return ('adt', W, frozenset([WR.variant]), {WR.variant: fields}), size[2], index[2], s1[2]


def check_invariant(ex, st, wv, size_vid, s1_vid, strict_nonempty):
    """list of broken invariant clauses for window value wv in state st"""
    bad = []
    fl = wv[3][WR.variant]
    size = st.cells[fl[WR.size]]
    s1 = st.cells[fl[WR.last]]
    idx = st.cells[fl[WR.cursor]]
    buf = st.cells[fl[WR.buf]]
    if size[0] != 'int' or (size_vid is not None and size[2] != size_vid):
        bad.append('size changed')
    if s1[0] != 'int' or (s1_vid is not None and s1[2] != s1_vid):
        bad.append('s_1 changed')
    if buf[0] != 'buf' or (size[0] == 'int' and buf[1] != size[2] and ex.eval_cmp(st, 'Eq', buf[1], size[2]) is not True):
        bad.append('buf.len != size')
    if idx[0] != 'int':
        bad.append('index unknown')
    elif size[0] == 'int':
        if not ex.prove_lt(st, idx[2], size[2]):
            # index == 0 satisfies `index < size or (size == 0 and index == 0)` whatever the size
            if ex.rng(st, idx[2]) != (0, 0):
                bad.append('index < size not re-established (index %s, size %s)' % (ex.describe(st, idx), ex.describe(st, size)))
    return bad


def a04_window_invariant(ctx):
    f = ctx.facts('default')
    set_period_type(f)
    m = Model(f)
    r = RuleResult('A04', 'inductive representation invariant of Window and its iterators: under buf.len == size, s_1 == size-1, index < size '
                          'no public method can fail a bounds / overflow check, &mut methods re-establish the invariant, slice_index returns '
                          'only slots < size; constructors establish it')
    inst = 'core::window::Window::<f64>::'
    methods = {}
    for bid in f.bodies:
        if bid.startswith(inst) and '{closure' not in bid:
            methods[bid[len(inst):]] = bid
    for tr_ in f.bodies:
        if tr_.startswith('<core::window::Window<f64> as std::ops::Index<u') and tr_.endswith('>>::index'):
            methods['Index::index'] = tr_          # Index<PeriodType>: u8 / u16 / u32 / u64 by feature
    SLOT = WR.slot_fn       # the private index -> slot mapping, whatever it is called and wherever it is written (method or free function)
    if SLOT not in methods:
        base_ = WR.roles.slot_fn_path
        for bid_ in f.bodies:
            if bid_.startswith(base_ + '::<f64') or bid_ == base_ + '::<f64>':
                methods[SLOT] = bid_
    needed = ('push', 'newest', 'oldest', SLOT, 'get', 'Index::index', 'is_empty', 'len', 'iter', 'iter_rev', 'new', 'from_parts', 'empty')
    for nme in needed:
        if nme not in methods:
            raise Broken('Window::%s (f64 instance) not found' % nme)
    EMPTY_OK = ('get', 'is_empty', 'len', 'iter', 'iter_rev')      # defined on empty windows (None / documented panic via closure)
    n = 0
    for name in ('push', 'newest', 'oldest', SLOT, 'get', 'Index::index', 'is_empty', 'len', 'iter', 'iter_rev'):
        bid = methods[name]
        for nonempty in (True, False):
            if not nonempty and name not in EMPTY_OK:
                continue
            ex = Exec(f)
            ex.split_bool_casts = True
            st = St()
            b = ex.body(bid)
            wv, size_vid, index_vid, s1_vid = mk_window(ex, st, nonempty)
            wc = ex.alloc(st, wv)
            args = [('ref', wc)]
            for k in range(2, b.arg_count + 1):
                args.append(ex.top_of(st, b.locals[k]['tyj']))
            try:
                outs = ex.run_fn(b, st, args, [bid])
            except Budget as e:
                r.violate('Window::%s|budget' % name, 'analysis budget exceeded', b.file, b.line)
                continue
            n += 1
            key = 'Window::%s|%s' % (name, 'non-empty' if nonempty else 'empty')
            r.inst(key)
            seen = set()
            for ob in ex.obligations:
                k2 = ob.key()
                if k2 in seen:
                    continue
                seen.add(k2)
                if name == 'Index::index' and ob.kind == 'panic' and 'Index<' in ob.fn and '::index' in ob.fn:
                    continue        # the documented explicit panic!("Window index {index} is out of range") for an out-of-range logical index
                                    # (in the function itself or in the closure it hands to unwrap_or_else); bounds / overflow checks are not exempt
                r.violate('%s|%s' % (key, k2), 'under the representation invariant Window::%s can still reach a %s in %s: %s [%s]' % (
                    name, ob.kind, ob.fn, ob.detail, '; '.join(ob.operands)), ob.file, ob.line)
            if ex.undecided_callees:
                raise Broken('A04: callee without summary: %s' % sorted(ex.undecided_callees)[:3])
            # post-conditions
            for s2, rv in outs:
                w2 = s2.cells[wc]
                if name == 'push':
                    bad = check_invariant(ex, s2, w2, size_vid, s1_vid, nonempty)
                    for bmsg in bad:
                        r.violate('%s|invariant|%s' % (key, bmsg.split(' (')[0]), 'Window::push does not re-establish the invariant: %s' % bmsg, b.file, b.line)
                else:
                    # & methods must not change anything
                    if w2 != wv and name not in ('iter', 'iter_rev'):
                        pass
                if name == SLOT:
                    if rv[0] == 'adt' and rv[2] is not None and 'Some' in rv[2]:
                        slot = s2.cells[rv[3]['Some']['0']]
                        if slot[0] != 'int' or not ex.prove_lt(s2, slot[2], size_vid):
                            r.violate(key + '|slot-out-of-range', 'slice_index can return Some(slot) with slot not provably < size (%s)' % ex.describe(s2, slot), b.file, b.line)
                    if not nonempty and rv[0] == 'adt' and rv[2] is not None and 'Some' in rv[2]:
                        r.violate(key + '|some-on-empty', 'slice_index returns Some on an empty window', b.file, b.line)
                if name == 'get' and not nonempty:
                    if not (rv[0] == 'adt' and rv[2] is not None and rv[2] == frozenset(['None'])):
                        r.violate(key + '|some-on-empty', 'get() on an empty window can return Some(..)', b.file, b.line)
            if len(r.samples) < 10:
                r.sample({'method': 'Window::' + name, 'window': 'non-empty' if nonempty else 'empty', 'panic sites refuted': ex.discharged, 'outcomes': len(outs)})
    # ---- base: constructors establish I
    for name in ('new', 'from_parts', 'empty'):
        bid = methods[name]
        ex = Exec(f)
        st = St()
        b = ex.body(bid)
        args = [ex.top_of(st, b.locals[k]['tyj']) for k in range(1, b.arg_count + 1)]
        try:
            outs = ex.run_fn(b, st, args, [bid])
        except Budget:
            outs = []
        key = 'Window::%s|establishes' % name
        r.inst(key)
        n += 1
        if not outs:
            r.violate(key + '|no-return', 'no returning path', b.file, b.line)
        for s2, rv in outs:
            if rv[0] != 'adt' or rv[1] != W:
                r.violate(key + '|value', 'constructor does not return a Window literal', b.file, b.line)
                continue
            fl = rv[3][WR.variant]
            size = s2.cells[fl[WR.size]]
            s1 = s2.cells[fl[WR.last]]
            bad = []
            d = ex.idef.get(s1[2]) if s1[0] == 'int' else None
            lo, hi = ex.rng(s2, size[2]) if size[0] == 'int' else (None, None)
            if not ((d and d[0] == 'sat_sub' and d[1] == size[2] and ex.rng(s2, d[2]) == (1, 1)) or (size[0] == 'int' and (lo, hi) == (0, 0) and ex.rng(s2, s1[2]) == (0, 0))):
                bad.append('s_1 is not size.saturating_sub(1)')
            bad += [x for x in check_invariant(ex, s2, rv, None, None, False) if not x.startswith('s_1')]
            for bmsg in bad:
                r.violate('%s|%s' % (key, bmsg.split(' (')[0]), 'Window::%s returns a window violating the invariant: %s' % (name, bmsg), b.file, b.line)
        r.sample({'constructor': 'Window::' + name, 'establishes': 'buf.len == size, s_1 == size-1, index < size (or empty)'})
    # ---- iterators
    n += check_iterators(ctx, f, r, methods)
    r.floor('method x state cases', 18, n)
    return r


def check_iterators(ctx, f, r, methods):
    n = 0
    if len(WR.iters) != 2:
        raise Broken('expected the two window iterators, found %s' % sorted(WR.iters))
    for it_ty in sorted(WR.iters):
        short = it_ty.rsplit('::', 1)[-1]
        # the Window method that returns this iterator (`iter` / `iter_rev` today), wherever the iterator type lives
        ctors_ = [nm for nm, bid_ in methods.items() if ('-> %s<' % it_ty) in (f.fns.get('core::window::Window::<T>::' + nm, {}).get('sig') or '')]
        ctors_ = sorted(nm for nm in ctors_ if (f.fns.get('core::window::Window::<T>::' + nm, {}).get('sig') or '').split('fn(', 1)[-1].rsplit(') ->', 1)[0].count(',') == 0)     # (&self) only
        if not ctors_:
            raise Broken('no Window method returning %s was found' % short)
        nid = "<%s<'_, f64> as std::iter::Iterator>::next" % it_ty
        if nid not in f.bodies:
            raise Broken('%s::next (f64 instance) not found' % short)
        for nonempty in (True, False):
            ex = Exec(f)
            ex.split_bool_casts = True
            st = St()
            wv, size_vid, index_vid, s1_vid = mk_window(ex, st, nonempty)
            wc = ex.alloc(st, wv)
            # J: it.index < size, it.size <= size (it.size >= 0)
            iidx = ex.mk_int(st, PT['ty'], 0, PT['max'] - 1 if nonempty else 0)
            isize = ex.mk_int(st, PT['ty'], 0, PT['max'] if nonempty else 0)
            try:
                if nonempty:
                    ex.assume_cmp(st, 'Lt', iidx[2], size_vid, True)
                ex.assume_cmp(st, 'Le', isize[2], size_vid, True)
            except Infeasible:
                continue
            ir = WR.iters.get(it_ty)
            if ir is None:
                raise Broken('%s is no longer (window reference, cursor, remaining count)' % short)
            itv = ('adt', it_ty, frozenset([short]), {short: {ir['window']: ex.alloc(st, ('ref', wc)), ir['cursor']: ex.alloc(st, iidx), ir['count']: ex.alloc(st, isize)}})
            ic = ex.alloc(st, itv)
            b = ex.body(nid)
            try:
                outs = ex.run_fn(b, st, [('ref', ic)], [nid])
            except Budget:
                r.violate('%s::next|budget' % short, 'analysis budget exceeded', b.file, b.line)
                continue
            n += 1
            key = '%s::next|%s' % (short, 'non-empty' if nonempty else 'empty')
            r.inst(key)
            seen = set()
            for ob in ex.obligations:
                k2 = ob.key()
                if k2 in seen:
                    continue
                seen.add(k2)
                r.violate('%s|%s' % (key, k2), 'under the iterator invariant %s::next can still reach a %s in %s: %s [%s]' % (
                    short, ob.kind, ob.fn, ob.detail, '; '.join(ob.operands)), ob.file, ob.line)
            for s2, rv in outs:
                it2 = s2.cells[ic]
                fl = it2[3][short]
                ni, ns = s2.cells[fl[ir['cursor']]], s2.cells[fl[ir['count']]]
                if rv[0] == 'adt' and rv[2] is not None and 'Some' in rv[2] and not nonempty:
                    r.violate(key + '|yields-on-empty', '%s::next yields an element of an empty window' % short, b.file, b.line)
                if nonempty:
                    if ni[0] != 'int' or not ex.prove_lt(s2, ni[2], size_vid):
                        r.violate(key + '|invariant|index', '%s::next does not keep its cursor < window.size (%s)' % (short, ex.describe(s2, ni)), b.file, b.line)
                if ns[0] != 'int' or not ex.prove_le(s2, ns[2], size_vid):
                    r.violate(key + '|invariant|size', '%s::next does not keep its remaining count <= window.size' % short, b.file, b.line)
            if len(r.samples) < 14:
                r.sample({'method': short + '::next', 'window': 'non-empty' if nonempty else 'empty', 'panic sites refuted': ex.discharged})
        # every Window method that hands out this iterator establishes J from I
        for ctor in ctors_:
            cid = methods.get(ctor)
            ex = Exec(f)
            st = St()
            wv, size_vid, index_vid, s1_vid = mk_window(ex, st, True)
            wc = ex.alloc(st, wv)
            b = ex.body(cid)
            outs = ex.run_fn(b, st, [('ref', wc)], [cid])
            r.inst('%s|establishes|%s' % (short, ctor))
            n += 1 if ctor == ctors_[0] else 0
            for s2, rv in outs:
                if rv[0] != 'adt':
                    r.violate('%s|establishes|value' % short, 'Window::%s does not return an iterator literal' % ctor, b.file, b.line)
                    continue
                fl = next(iter(rv[3].values()))
                ir = WR.iters[it_ty]
                ni, ns = s2.cells[fl[ir['cursor']]], s2.cells[fl[ir['count']]]
                if ni[0] != 'int' or not ex.prove_lt(s2, ni[2], size_vid):
                    r.violate('%s|establishes|index' % short, 'Window::%s starts its cursor outside the buffer' % ctor, b.file, b.line)
                if ns[0] != 'int' or not ex.prove_le(s2, ns[2], size_vid):
                    r.violate('%s|establishes|size' % short, 'Window::%s starts with a remaining count above the window size' % ctor, b.file, b.line)
    return n


def a06_index_methods(ctx):
    """A06: inductive invariant of HighestIndex / LowestIndex: I(m) = I(m.window) and m.index < m.window.size.
    Base: new() establishes it.  Step: under I and a finite input, next() reaches no panic / overflow, re-establishes I and returns an age < size."""
    f = ctx.facts('default')
    set_period_type(f)
    r = RuleResult('A06', 'HighestIndex / LowestIndex: the age they keep and return is always < window length (inductive: new() establishes it, next() '
                          'preserves it under the Window invariant and reaches no overflow or bounds check on the way)')
    FM = 1.7976931348623157e308
    n = 0
    for ty in ('methods::highest_lowest_index::HighestIndex', 'methods::highest_lowest_index::LowestIndex'):
        short = ty.rsplit('::', 1)[-1]
        nid = '<%s as core::method::Method>::next' % ty
        cid = '<%s as core::method::Method>::new' % ty
        if nid not in f.bodies or cid not in f.bodies:
            raise Broken('%s::next / new (mono) not found' % short)
        adt = f.adts.get(ty)
        if adt is None:
            raise Broken('%s not found' % ty)
        mr = WR.roles.index_method(f, ty)
        if mr is None:
            raise Broken('%s: expected one Window, one integer (age) and one float (extreme value) field' % short)
        F_W, F_AGE, F_VAL = mr['window'], mr['age'], mr['value']
        # ---- step
        ex = Exec(f)
        ex.split_bool_casts = ('core::window::',)
        st = St()
        wv, size_vid, widx, s1_vid = mk_window(ex, st, True)
        age = ex.mk_int(st, PT['ty'], 0, PT['max'] - 1)
        ex.assume_cmp(st, 'Lt', age[2], size_vid, True)
        selfv = ('adt', ty, frozenset([short]), {short: {F_W: ex.alloc(st, wv), F_AGE: ex.alloc(st, age), F_VAL: ex.alloc(st, ('float', -FM, FM, False))}})
        sc = ex.alloc(st, selfv)
        b = ex.body(nid)
        inp = ex.alloc(st, ('float', -FM, FM, False))
        key = '%s|next' % short
        r.inst(key)
        n += 1
        try:
            outs = ex.run_fn(b, st, [('ref', sc), ('ref', inp)], [nid])
        except Budget:
            r.violate(key + '|budget', 'analysis budget exceeded', b.file, b.line)
            continue
        if ex.undecided_callees:
            raise Broken('A06: callee without summary: %s' % sorted(ex.undecided_callees)[:3])
        if ex.undecided_loops:
            raise Broken('A06: loop not summarised: %s' % sorted(ex.undecided_loops)[:3])
        seen = set()
        for ob in ex.obligations:
            k2 = ob.key()
            if k2 in seen:
                continue
            seen.add(k2)
            r.violate('%s|%s' % (key, k2), 'under its invariant and with a finite input %s::next can still reach a %s in %s: %s [%s]' % (
                short, ob.kind, ob.fn, ob.detail, '; '.join(ob.operands)), ob.file, ob.line)
        if not outs:
            r.violate(key + '|no-return', 'no returning path', b.file, b.line)
        for s2, rv in outs:
            me = s2.cells[sc]
            fl = me[3][short]
            w2 = s2.cells[fl[F_W]]
            for bmsg in check_invariant(ex, s2, w2, size_vid, s1_vid, True):
                r.violate('%s|window-invariant|%s' % (key, bmsg.split(' (')[0]), '%s::next leaves its window outside the representation invariant: %s' % (short, bmsg), b.file, b.line)
            a2 = s2.cells[fl[F_AGE]]
            if a2[0] != 'int' or not ex.prove_lt(s2, a2[2], size_vid):
                r.violate(key + '|age-not-below-length', '%s::next can leave its age at %s, not provably < window length (%s): the next step may overflow / Aroon leaves [0, 1]' % (
                    short, ex.describe(s2, a2), ex.describe(s2, s2.cells[w2[3][WR.variant][WR.size]])), b.file, b.line)
            if rv[0] != 'int' or not ex.prove_lt(s2, rv[2], size_vid):
                r.violate(key + '|result-not-below-length', '%s::next can return %s, not provably < window length' % (short, ex.describe(s2, rv)), b.file, b.line)
        r.sample({'method': short + '::next', 'outcomes': len(outs), 'panic sites refuted': ex.discharged, 'post': 'age < window length, result < window length'})
        # ---- base
        ex = Exec(f)
        st = St()
        b = ex.body(cid)
        args = [ex.top_of(st, b.locals[1]['tyj']), ('ref', ex.alloc(st, ex.top_of(st, {'t': 'float', 'n': 'f64', 's': 'f64'})))]
        key = '%s|new' % short
        r.inst(key)
        n += 1
        try:
            outs = ex.run_fn(b, st, args, [cid])
        except Budget:
            outs = []
        ok_seen = False
        for s2, rv in outs:
            if rv[0] == 'adt' and rv[2] is not None and 'Ok' in rv[2]:
                me = s2.cells[rv[3]['Ok']['0']]
                if me[0] != 'adt' or short not in me[3]:
                    r.violate(key + '|value', 'new() does not return the method literal', b.file, b.line)
                    continue
                ok_seen = True
                fl = me[3][short]
                w2 = s2.cells[fl[F_W]]
                a2 = s2.cells[fl[F_AGE]]
                size = s2.cells[w2[3][WR.variant][WR.size]]
                if size[0] != 'int' or ex.rng(s2, size[2])[0] < 1:
                    r.violate(key + '|empty-window', '%s::new can build an instance over an empty window' % short, b.file, b.line)
                elif a2[0] != 'int' or not ex.prove_lt(s2, a2[2], size[2]):
                    r.violate(key + '|age', '%s::new does not establish age < window length' % short, b.file, b.line)
                if size[0] == 'int' and ex.rng(s2, size[2])[1] > PT['max']:
                    r.violate(key + '|length-at-capacity', '%s::new accepts a length at the capacity of PeriodType: age + 1 can overflow' % short, b.file, b.line)
        if not ok_seen:
            r.violate(key + '|no-ok', 'new() has no Ok outcome in the abstract semantics', b.file, b.line)
    r.floor('index methods x {new, next}', 4, n)
    return r


def a07_deserialize_accepts_valid(ctx):
    """C01 / C13: Window::deserialize accepts every well-formed (buffer, oldest-index) pair -- in particular those of the largest window
    new() can build -- and rebuilds exactly that representation.  (A01d shows the other half: malformed data leaves through Err.)"""
    f = ctx.facts('default')
    set_period_type(f)
    r = RuleResult('A07', 'Window::deserialize: for every decoded (buf, index) with 1 <= buf.len() <= PeriodType::MAX - 1 and index < buf.len(), and for the empty window ([], 0), the result is Ok '
                          '(never Err) and the rebuilt window has size == buf.len() and satisfies the representation invariant (that (buf, cursor) denote the decoded sequence is S03\'s from_parts clause)')
    # the impl is found through the impl table (its printed path depends on the module the impl block is written in)
    bid = None
    for i_ in f.impls:
        if i_.get('trait_name') == 'Deserialize' and (i_.get('trait_crate') or '').startswith('serde') and i_['self_tyj'].get('def') == W and not i_.get('derived'):
            for it_ in i_['items']:
                if it_['name'] == 'deserialize' and ('G:' + it_['path']) in f.bodies:
                    bid = 'G:' + it_['path']
    if bid is None:
        raise Broken('Window::deserialize not found')
    b0 = f.bodies[bid]
    helper_def = None
    for bi, t in Body_(b0).calls():
        d = t['callee'].get('def') or ''
        if d.endswith('Deserialize::deserialize'):
            helper_def = d
            dest_ty = t['dest']
            break
    if helper_def is None:
        raise Broken('Window::deserialize does not decode a helper struct')
    n = 0
    for label, lo, hi in (('any valid length', 1, PT['max']), ('largest window new() accepts', PT['max'], PT['max']), ('length 1', 1, 1),
                          ('empty window', 0, 0)):
        ex = Exec(f)
        st = St()
        b = ex.body(bid)
        held = {}

        def supply(ex_, st_, fr, t, lo=lo, hi=hi, held=held):
            resv = ex_.dest_top(st_, fr, t)
            if not (resv[0] == 'adt' and 'Ok' in resv[3]):
                raise Broken('unexpected shape of the decoded helper')
            hv = st_.cells[resv[3]['Ok']['0']]
            if hv[0] != 'adt':
                raise Broken('decoded helper is not a struct')
            fl = next(iter(hv[3].values()))
            hb_ = [k for k, c_ in fl.items() if st_.cells[c_][0] == 'buf' or st_.cells[c_][0] == 'top']
            hi_ = [k for k, c_ in fl.items() if st_.cells[c_][0] == 'int']
            if len(hb_) != 1 or len(hi_) != 1 or len(fl) != 2:
                raise Broken('the decoded helper is not (buffer, index)')
            H_BUF, H_IDX = hb_[0], hi_[0]
            ln = ex_.mk_int(st_, 'usize', lo, hi)
            idx = ex_.mk_int(st_, PT['ty'], 0, max(hi - 1, 0))
            if hi > 0:
                ex_.assume_cmp(st_, 'Lt', idx[2], ln[2], True)      # the empty window is written as (buf = [], index = 0)
            st_.cells[fl[H_BUF]] = ('buf', ln[2])
            st_.cells[fl[H_IDX]] = idx
            held['len'], held['idx'] = ln[2], idx[2]
            return ('adt', resv[1], frozenset(['Ok']), resv[3])
        ex.callee_overrides = {helper_def: supply}
        key = 'Window::deserialize|' + label
        r.inst(key)
        n += 1
        try:
            outs = ex.run_fn(b, st, [ex.top_of(st, b.locals[1]['tyj'])], [bid])
        except Budget:
            r.violate(key + '|budget', 'analysis budget exceeded', b.file, b.line)
            continue
        if not held:
            raise Broken('the helper decode call was not reached')
        variants = set()
        for s2, rv in outs:
            if rv[0] == 'adt' and rv[2] is not None:
                variants |= set(rv[2])
                if 'Ok' in rv[2]:
                    wv = s2.cells[rv[3]['Ok']['0']]
                    if wv[0] == 'adt' and WR.variant in wv[3]:
                        fl = wv[3][WR.variant]
                        size = s2.cells[fl[WR.size]]
                        cur = s2.cells[fl[WR.cursor]]
                        if not (size[0] == 'int' and (size[2] == held['len'] or ex.eval_cmp(s2, 'Eq', size[2], held['len']) is True)):
                            r.violate(key + '|size', 'the rebuilt window does not have size == decoded buffer length', b.file, b.line)
                        # which slot the cursor names (the decoded index, or 0 after a normalising rotation) is the representation clause of S03
                        for bmsg in check_invariant(ex, s2, wv, None, None, hi > 0):
                            if not bmsg.startswith('s_1'):
                                r.violate('%s|invariant|%s' % (key, bmsg.split(' (')[0]), 'the rebuilt window violates the representation invariant: %s' % bmsg, b.file, b.line)
            else:
                variants.add('?')
        if 'Err' in variants or '?' in variants or not variants:
            r.violate(key + '|rejected', 'Window::deserialize can return %s for well-formed window data (%s): a window that new() builds and serialize() writes cannot be restored' % (
                sorted(variants) or 'nothing', label), b.file, b.line)
        else:
            r.sample({'decoded': label, 'result': sorted(variants), 'panic sites refuted': ex.discharged})
        seen = set()
        for ob in ex.obligations:
            if ob.key() in seen:
                continue
            seen.add(ob.key())
            r.violate('%s|%s' % (key, ob.key()), 'Window::deserialize can reach a %s on well-formed data: %s' % (ob.kind, ob.detail), ob.file, ob.line)
    r.floor('well-formed decode cases', 4, n)
    return r


def Body_(bj):
    from mir import Body
    return Body(bj)
