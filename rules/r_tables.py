"""Table-agreement rules: S06 MA dispatch (C05, C18), S18 Source text forms and source() wiring (C18)."""
import re

from engine import RuleResult, Broken
from facts import serde_attrs_of
from model import Model, T_MACTOR, T_METHOD, T_OHLCV
from mir import Body, callee_def, callee_id, callee_is, walk_tree, tree_str, strip_generics
from paths import all_path_facts, TooManyPaths


def _strip(t):
    while t[0] in ('ref', 'deref') or (t[0] == 'cast'):
        t = t[1] if t[0] != 'cast' else t[2]
    return t


def _payload_of(tree):
    """If tree is (x as V).0 (through refs/derefs/copies) return (x, V)."""
    t = _strip(tree)
    if t[0] == 'field' and t[2] == '0':
        a = _strip(t[1])
        if a[0] == 'as':
            return _strip(a[1]), a[2]
    return None


def _try_payload(tree):
    """Strip `?`: (Try::branch(x) as Continue).0 -> x"""
    t = _strip(tree)
    for _ in range(4):
        p = _payload_of(t)
        if p and p[1] == 'Continue' and p[0][0] == 'call' and (p[0][4].endswith('::branch') and 'Try' in p[0][4]):
            t = _strip(p[0][2][0])
        else:
            break
    return t


def _variant_of_self(pf, adt, self_arg=1):
    """Variant name selected on this path by a switch on discriminant(*self)."""
    names = [v['name'] for v in adt['variants']]
    for scrut, vals, allv in pf.variant_decisions():
        s = _strip(scrut)
        if s[0] == 'arg' and s[1] == self_arg:
            if vals == 'otherwise':
                rest = [i for i in range(len(names)) if i not in allv]
                if len(rest) == 1:
                    return names[rest[0]]
                return None
            if len(vals) == 1 and vals[0] < len(names):
                return names[vals[0]]
    return None


def _follow_forwarder(f, body, depth=0):
    """a function that only hands its own arguments to one crate-local function and returns what that returns is that function, for the
    purpose of table extraction (a `match` moved into a private helper)"""
    if body is None or depth >= 3:
        return body
    calls = [(bi, t) for bi, t in body.calls()]
    local_calls = [(bi, t) for bi, t in calls if t['callee'].get('local')]
    if len(calls) != 1 or len(local_calls) != 1:
        return body
    bi, t = local_calls[0]
    args = [_strip(body.tree_of_operand(a)) for a in t['args']]
    if not all(a[0] == 'arg' for a in args) or [a[1] for a in args] != list(range(1, len(args) + 1)) or len(args) != body.arg_count:
        return body
    rets = [pf.ret for pf in all_path_facts(body) if pf.returns]
    if not rets or not all(rt is not None and rt[0] == 'call' and rt[3] == bi for rt in rets):
        return body
    d = callee_def(t['callee'])
    hb = f.generic_body(d) if d else None
    if hb is None:
        return body
    return _follow_forwarder(f, Body(hb), depth + 1)


def _ctor_table_through_helper(f, fb, adt_path):
    """(literal -> {variant}, default rejects, problem or None) when fb looks names up in a crate-local helper returning Option<constructor>"""
    helper = None
    for bi, t in fb.calls():
        if t['callee'].get('local') and t['callee'].get('def') and any('fn(' in str(a) for a in [t['dest'].get('ty', '')] + [fb.local_ty(t['dest']['l'])]):
            helper = (bi, t)
    if helper is None:
        return None
    hbi, ht = helper
    hb = f.generic_body(callee_def(ht['callee']))
    if hb is None:
        return None
    hbody = Body(hb)
    lit2var = {}
    default_none = False
    for pf in all_path_facts(hbody):
        if not pf.returns:
            continue
        sd = pf.str_decisions()
        trues = [l for o, l, t in sd if t]
        ret = pf.ret
        some = ret is not None and ret[0] == 'agg' and str(ret[2]).endswith('Option::Some')
        ctor = None
        if some:
            for x in walk_tree(ret[3][0]):
                if isinstance(x, tuple) and x and x[0] == 'fn' and str(x[1]).startswith(adt_path + '::'):
                    ctor = x[1].rsplit('::', 1)[-1]
        if len(trues) == 1:
            if ctor is None:
                return lit2var, False, 'literal: "%s" does not select a constructor of %s' % (trues[0], adt_path)
            lit2var.setdefault(trues[0], set()).add(ctor)
        elif not trues and sd:
            if some:
                return lit2var, False, 'default: an unknown name selects a constructor'
            default_none = True
    # from_str: Some(c) => Ok(c(parsed period)), None => Err
    applied = False
    default_ok = False
    for pf in all_path_facts(fb):
        if not pf.returns:
            continue
        opt = None
        for d, vals, blk, allv in pf.decisions:
            if d[0] == 'discr' and any(isinstance(x, tuple) and x and x[0] == 'call' and x[3] == hbi for x in walk_tree(d)):
                opt = 'None' if (vals != 'otherwise' and 0 in vals) else 'Some'
        ret = pf.ret
        is_ok = ret is not None and ret[0] == 'agg' and str(ret[2]).endswith('Result::Ok')
        if opt == 'None':
            if is_ok:
                return lit2var, False, 'default: from_str answers Ok when the helper knows no such name'
            default_ok = default_none
        elif opt == 'Some' and is_ok:
            inner = _strip(ret[3][0])
            # an indirect call of the selected constructor with the parsed period
            ok = False
            for bi, t in fb.calls():
                if t['callee'].get('def') is None and t['callee'].get('fn_op') is not None and bi in pf.path:
                    fo = fb.tree_of_operand(t['callee']['fn_op'])
                    from_helper = any(isinstance(x, tuple) and x and x[0] == 'call' and x[3] == hbi for x in walk_tree(fo))
                    arg = fb.tree_of_operand(t['args'][0]) if t['args'] else ('?',)
                    parsed = any(isinstance(x, tuple) and x and x[0] == 'call' and (x[4].endswith('::parse') or x[4].endswith('FromStr::from_str')) for x in walk_tree(arg))
                    if from_helper and parsed:
                        ok = True
            if not ok:
                return lit2var, default_ok, 'period: the selected constructor is not applied to the parsed period'
            applied = True
    if not applied:
        return lit2var, default_ok, 'apply: from_str never applies the selected constructor'
    return lit2var, default_ok, None


def _semantic_ma_init(f, ib, MA, inst_ty, inst_payload, variants):
    """[(variant, problem)] from interpreting MA::init abstractly with self = MA::V(any length); None if the interpreter cannot run it"""
    from absint import St, Budget
    from absexec import Exec
    problems = []
    for V in variants:
        ex = Exec(f)
        st = St()
        b = ex.body(ib.id)
        if b is None:
            return None
        selfv = ex.top_of(st, {'t': 'adt', 'def': MA['path'], 'args': [], 's': MA['path']})
        if selfv[0] != 'adt':
            return None
        selfv = ('adt', selfv[1], frozenset([V]), selfv[3])
        period_cell = selfv[3][V].get('0') if V in selfv[3] else None
        pv = st.cells.get(period_cell) if period_cell is not None else None
        args = [('ref', ex.alloc(st, selfv))]
        for k in range(2, b.arg_count + 1):
            args.append(ex.top_of(st, b.locals[k]['tyj']))
        try:
            outs = ex.run_fn(b, st, args, [ib.id])
        except Budget:
            return None
        if ex.undecided_callees or ex.undecided_loops:
            return None
        ok_seen = False
        for s2, rv in outs:
            if rv[0] != 'adt' or rv[2] is None:
                problems.append((V, 'MA::init(%s) returns a value the analysis cannot classify' % V))
                continue
            if 'Ok' in rv[2]:
                inst = s2.cells.get(rv[3]['Ok']['0'])
                if inst is None or inst[0] != 'adt' or inst[1] != inst_ty or inst[2] is None:
                    problems.append((V, 'MA::%s initialises something that is not an MAInstance variant' % V))
                    continue
                if set(inst[2]) != {V}:
                    problems.append((V, 'MA::%s can initialise MAInstance::%s (expected MAInstance::%s)' % (V, '/'.join(sorted(inst[2])), V)))
                    continue
                pay = s2.cells.get(inst[3][V].get('0')) if V in inst[3] else None
                if pay is None or pay[0] != 'adt' or pay[1] != inst_payload.get(V):
                    problems.append((V, 'MAInstance::%s built by MA::init holds %s (expected %s)' % (V, pay[1] if pay and pay[0] == 'adt' else pay and pay[0], inst_payload.get(V))))
                    continue
                ok_seen = True
        if not ok_seen and not any(v_ == V for v_, _ in problems):
            problems.append((V, 'MA::init has no Ok outcome for variant %s' % V))
    return problems


def _tests_string_literals(f, body, depth=0, seen=None):
    """does the function, or a crate-local function it calls, branch on the comparison of a string with a literal?"""
    if seen is None:
        seen = set()
    if body is None or body.id in seen or depth > 3:
        return False
    seen.add(body.id)
    for pf in all_path_facts(body):
        if pf.str_decisions():
            return True
    for bi, t in body.calls():
        if t['callee'].get('local') and t['callee'].get('def'):
            hb = f.generic_body(callee_def(t['callee']))
            if hb is not None and _tests_string_literals(f, Body(hb), depth + 1, seen):
                return True
    for cid, cbj in f.bodies.items():
        if cbj.get('closure_of') == body.defp and cbj['generic'] == body.b.get('generic'):
            if _tests_string_literals(f, Body(cbj), depth + 1, seen):
                return True
    return False


def s06_ma_dispatch(ctx):
    f = ctx.facts('default')
    m = Model(f)
    r = RuleResult('S06', 'MA enum dispatch: every kind builds, steps, names and parses to its own method with its own period')
    ma_impls = [i for i in f.impls if i['trait'] == T_MACTOR and i['self_tyj']['t'] == 'adt' and i['self_tyj']['def'] in f.adts]
    if len(ma_impls) != 1:
        raise Broken('expected exactly one crate-local MovingAverageConstructor impl, found %d' % len(ma_impls))
    mi = ma_impls[0]
    MA = f.adts[mi['self_tyj']['def']]
    inst_ty = m.impl_assoc_ty(mi, 'Instance')
    MAI = f.adts.get(inst_ty)
    if MAI is None:
        raise Broken('MA instance enum %s not found' % inst_ty)
    variants = [v['name'] for v in MA['variants']]
    inst_payload = {}
    for v in MAI['variants']:
        if len(v['fields']) == 1 and v['fields'][0]['tyj']['t'] == 'adt':
            inst_payload[v['name']] = v['fields'][0]['tyj']['def']
    method_types = m.types_implementing(T_METHOD)
    # structure: one PeriodType payload per variant
    for v in MA['variants']:
        r.inst('MA::%s|shape' % v['name'])
        if len(v['fields']) != 1 or v['fields'][0]['tyj']['t'] != 'int':
            r.violate('MA::%s|shape' % v['name'], 'MA::%s does not carry exactly one integer period' % v['name'], MA['file'], MA['line'])
        if v['name'] not in inst_payload:
            r.violate('MA::%s|no-instance-variant' % v['name'], 'MAInstance has no variant %s' % v['name'], MAI['file'], MAI['line'])
        elif inst_payload[v['name']] not in method_types:
            r.violate('MA::%s|instance-not-method' % v['name'], 'MAInstance::%s holds %s which is not a Method' % (v['name'], inst_payload[v['name']]), MAI['file'], MAI['line'])
    # ---- init
    ib = m.body(m.impl_fn_path(mi, 'init'))
    seen = set()
    n_viol_before_init = len(r.violations)
    for pf in all_path_facts(ib):
        if not pf.returns:
            continue
        V = _variant_of_self(pf, MA)
        if V is None:
            r.violate('MA::init|undecided-path', 'a path of MA::init is not selected by the variant of self', ib.file, ib.line)
            continue
        news = [(b, tr) for b, tr, t in pf.calls if callee_is(t['callee'], 'Method', 'new')]
        key = 'MA::%s|init' % V
        if len(news) != 1:
            r.violate(key + '|new-count', 'arm %s of MA::init calls Method::new %d times' % (V, len(news)), ib.file, ib.line)
            continue
        b, tr = news[0]
        r.inst(key + '|%s' % ('ok' if pf.ret and 'Ok' in str(pf.ret[2] if pf.ret[0] == 'agg' else '') else 'err'))
        # which method type
        selfty = ib.blocks[b]['term']['callee'].get('arg_defs', [None])[0]
        if selfty != inst_payload.get(V):
            r.violate(key + '|wrong-method|%s' % (selfty or '?').rsplit('::', 1)[-1], 'MA::%s initialises %s, but MAInstance::%s holds %s' % (V, selfty, V, inst_payload.get(V)), ib.file, ib.term_line(b))
        # period argument = payload of the same variant
        pl = _payload_of(tr[2][0])
        if not pl or pl[1] != V or pl[0][0] != 'arg':
            r.violate(key + '|period-arg', 'MA::%s passes %s as the period (expected its own payload)' % (V, tree_str(tr[2][0])), ib.file, ib.term_line(b))
        # wrapped into MAInstance::V on the Ok path
        if pf.ret and pf.ret[0] == 'agg' and pf.ret[2].endswith('Result::Ok'):
            inner = _strip(pf.ret[3][0])
            if not (inner[0] == 'agg' and inner[2] == inst_ty + '::' + V):
                r.violate(key + '|wrapped-as', 'MA::%s wraps its instance as %s' % (V, tree_str(inner)[:80]), ib.file, ib.term_line(b))
            else:
                got = _try_payload(inner[3][0])
                if not (got[0] == 'call' and got[3] == b):
                    r.violate(key + '|wrapped-value', 'MA::%s does not wrap the instance it has just built' % V, ib.file, ib.term_line(b))
                seen.add(V)
                r.sample({'variant': V, 'init': '%s::new(own period) -> MAInstance::%s' % (selfty, V), 'site': '%s:%d' % (ib.file, ib.term_line(b))})
    for V in variants:
        if V not in seen:
            r.violate('MA::%s|init|no-ok-path' % V, 'MA::init has no Ok path for variant %s' % V, ib.file, ib.line)
    if len(r.violations) > n_viol_before_init:
        # the arms are not written as `Self::V(length) => Ok(Instance::V(T::new(length, &value)?))` (generated by a macro, routed through a
        # generic helper, ...): decide the same facts semantically, by abstract interpretation of init with self pinned to each variant
        problems = _semantic_ma_init(f, ib, MA, inst_ty, inst_payload, variants)
        if problems is not None:
            del r.violations[n_viol_before_init:]
            for V_, msg in problems:
                r.violate('MA::%s|init|semantic' % V_, msg, ib.file, ib.line)
            if not problems:
                r.sample({'MA::init': 'decided by abstract interpretation per variant: Ok(MAInstance::V(<the method MAInstance::V holds>)) or Err', 'variants': len(variants)})
    # ---- MAInstance::next
    nimp = [i for i in m.method_impls if m.adt_path_of_impl(i) == inst_ty]
    if len(nimp) != 1:
        raise Broken('Method impl for %s not found' % inst_ty)
    nb = m.body(m.impl_fn_path(nimp[0], 'next'))
    seen = set()
    for pf in all_path_facts(nb):
        if not pf.returns:
            continue
        V = _variant_of_self(pf, MAI)
        if V is None:
            r.violate('MAInstance::next|undecided-path', 'a path of MAInstance::next is not selected by the variant of self', nb.file, nb.line)
            continue
        key = 'MAInstance::%s|next' % V
        r.inst(key)
        nexts = [(b, tr, t) for b, tr, t in pf.calls if callee_is(t['callee'], 'Method', 'next')]
        if len(nexts) != 1:
            r.violate(key + '|next-count|%d' % len(nexts), 'arm %s of MAInstance::next steps %d methods' % (V, len(nexts)), nb.file, nb.line)
            continue
        b, tr, t = nexts[0]
        pl = _payload_of(tr[2][0])
        if not pl or pl[1] != V:
            r.violate(key + '|steps-other', 'arm %s steps %s' % (V, tree_str(tr[2][0])), nb.file, nb.term_line(b))
        a1 = _strip(tr[2][1])
        if not (a1[0] == 'arg' and a1[1] == 2):
            r.violate(key + '|value-arg', 'arm %s feeds %s instead of the input value' % (V, tree_str(a1)), nb.file, nb.term_line(b))
        if pf.ret is None or not (pf.ret[0] == 'call' and pf.ret[3] == b):
            rr = _strip(pf.ret) if pf.ret else None
            if not (rr and rr[0] == 'call' and rr[3] == b):
                r.violate(key + '|result', 'arm %s does not return the stepped value unchanged' % V, nb.file, nb.term_line(b))
        seen.add(V)
    for v in MAI['variants']:
        if v['name'] not in seen:
            r.violate('MAInstance::%s|next|missing' % v['name'], 'no arm for %s' % v['name'], nb.file, nb.line)
    # ---- ma_period / ma_type
    pb = m.body_inlined(m.impl_fn_path(mi, 'ma_period'))
    seen = set()
    for pf in all_path_facts(pb):
        if not pf.returns:
            continue
        V = _variant_of_self(pf, MA)
        key = 'MA::%s|ma_period' % V
        r.inst(key)
        pl = _payload_of(pf.ret) if pf.ret else None
        if V is None or not pl or pl[1] != V:
            r.violate(key + '|not-own-payload', 'ma_period for %s returns %s' % (V, tree_str(pf.ret) if pf.ret else None), pb.file, pb.line)
        else:
            seen.add(V)
    for V in variants:
        if V not in seen:
            r.violate('MA::%s|ma_period|missing' % V, 'ma_period has no arm returning the period of %s' % V, pb.file, pb.line)
    tb = m.body_inlined(m.impl_fn_path(mi, 'ma_type'))
    codes = {}
    for pf in all_path_facts(tb):
        if not pf.returns:
            continue
        V = _variant_of_self(pf, MA)
        r.inst('MA::%s|ma_type' % V)
        if V is None or pf.ret is None or pf.ret[0] != 'const':
            r.violate('MA::%s|ma_type|non-constant' % V, 'ma_type is not a constant per variant', tb.file, tb.line)
            continue
        codes.setdefault(pf.ret[2], set()).add(V)
    for c, vs in codes.items():
        if len(vs) > 1:
            r.violate('MA|ma_type|collision|%s' % '+'.join(sorted(vs)), 'ma_type gives %s the same code %s: is_similar_to() confuses them' % (sorted(vs), c), tb.file, tb.line)
    allv = set().union(*codes.values()) if codes else set()
    for V in variants:
        if V not in allv:
            r.violate('MA::%s|ma_type|missing' % V, 'no ma_type code for %s' % V, tb.file, tb.line)
    # ---- from_str
    fimp = [i for i in f.impls if i['trait'] == 'std::str::FromStr' and i['self_tyj'].get('def') == MA['path']]
    if len(fimp) != 1:
        raise Broken('FromStr for MA not found')
    fb = m.body(m.impl_fn_path(fimp[0], 'from_str'))
    lit2var = {}
    default_ok = False
    for pf in all_path_facts(fb):
        if not pf.returns:
            continue
        sd = pf.str_decisions()
        trues = [l for o, l, t in sd if t]
        ret = pf.ret
        variant = None
        is_ok = ret is not None and ret[0] == 'agg' and ret[2].endswith('Result::Ok')
        if is_ok:
            inner = _strip(ret[3][0])
            if inner[0] == 'agg' and inner[2].startswith(MA['path'] + '::'):
                variant = inner[2].rsplit('::', 1)[-1]
                # the payload must be the parsed period
                pay = _try_payload(inner[3][0])
                calls_in = [x[4] for x in walk_tree(pay) if x[0] == 'call']
                if not any(c.endswith('::parse') or c.endswith('FromStr::from_str') for c in calls_in):
                    r.violate('MA::%s|from_str|period-not-parsed' % variant, 'from_str builds %s with %s instead of the parsed period' % (variant, tree_str(pay)[:80]), fb.file, fb.line)
            elif inner[0] == 'call' and inner[1] == 'indirect' and isinstance(inner[3], int) and len(inner[2]) == 1:
                # the arm chose the variant *constructor* as a function value, applied to the period after the match: `Ok(constructor(length))`
                fo = fb.blocks[inner[3]]['term']['callee'].get('fn_op')
                ft = fb.tree_of_operand(fo, 0, pf.env) if fo else None
                while isinstance(ft, tuple) and ft and ft[0] in ('cast', 'ref', 'deref'):
                    ft = ft[2] if ft[0] == 'cast' else ft[1]
                if isinstance(ft, tuple) and ft and ft[0] == 'fn' and str(ft[1]).startswith(MA['path'] + '::') and str(ft[1]).rsplit('::', 1)[-1] in variants:
                    variant = str(ft[1]).rsplit('::', 1)[-1]
                    pay = _try_payload(inner[2][0])
                    calls_in = [x[4] for x in walk_tree(pay) if x[0] == 'call']
                    if not any(c.endswith('::parse') or c.endswith('FromStr::from_str') for c in calls_in):
                        r.violate('MA::%s|from_str|period-not-parsed' % variant, 'from_str builds %s with %s instead of the parsed period' % (variant, tree_str(pay)[:80]), fb.file, fb.line)
        if len(trues) == 1:
            lit = trues[0]
            r.inst('MA|from_str|"%s"' % lit)
            if not is_ok or variant is None:
                r.violate('MA|from_str|"%s"|not-ok' % lit, 'literal "%s" does not produce an MA' % lit, fb.file, fb.line)
            else:
                lit2var.setdefault(lit, set()).add(variant)
        elif not trues and sd and len(sd) >= len(variants):
            # default arm: all literal tests false
            r.inst('MA|from_str|<default>')
            if is_ok:
                r.violate('MA|from_str|<default>|ok', 'unknown method names are accepted', fb.file, fb.line)
            else:
                default_ok = True
    if not lit2var and not default_ok:
        # the name table may live in a helper that returns the variant *constructor* (`fn(PeriodType) -> MA`) for a name, from_str
        # applying it to the parsed period: `match Self::constructor_by_name(method) { Some(c) => Ok(c(length)), None => Err(..) }`
        got = _ctor_table_through_helper(f, fb, MA['path'])
        if got is not None:
            lit2var, default_ok, why = got
            if why:
                r.violate('MA|from_str|helper-table|' + why.split(':')[0], 'from_str (name table in a helper): %s' % why, fb.file, fb.line)
            for lit in lit2var:
                r.inst('MA|from_str|"%s"' % lit)
    if not lit2var and not _tests_string_literals(f, fb):
        # neither from_str nor any function it reaches compares the name with string literals: the names live in a data table that is
        # searched at run time; which name selects which kind is then a value-level fact this rule does not decide
        r.undecided.append('MA::from_str looks names up in a data table (no literal comparisons in code): name -> kind mapping not decided')
        r.info['from_str'] = 'not decided: data-table lookup'
        r.floor('MA variants', 15, len(variants))
        r.info['variants'] = variants
        return r
    if not default_ok:
        r.violate('MA|from_str|<default>|missing', 'from_str has no rejecting default arm', fb.file, fb.line)
    var2lit = {}
    for lit, vs in lit2var.items():
        for V in vs:
            var2lit.setdefault(V, set()).add(lit)
        if len(vs) != 1:
            r.violate('MA|from_str|"%s"|ambiguous' % lit, 'literal "%s" maps to %s' % (lit, sorted(vs)), fb.file, fb.line)
    for V in variants:
        lits = var2lit.get(V, set())
        key = 'MA::%s|from_str' % V
        r.inst(key)
        if V.lower() not in lits:
            r.violate(key + '|no-canonical-literal', 'from_str does not map "%s" to MA::%s (maps %s)' % (V.lower(), V, sorted(lits)), fb.file, fb.line)
        for l in lits:
            if l != V.lower():
                r.violate(key + '|extra-literal|' + l, 'from_str also maps "%s" to MA::%s' % (l, V), fb.file, fb.line)
    r.floor('MA variants', 15, len(variants))
    r.info['variants'] = variants
    return r


def s18_source_tables(ctx):
    f = ctx.facts('default')
    m = Model(f)
    r = RuleResult('S18', 'Source: from_str and Into<&str> are inverse tables, normalised literals, serde names agree, source(kind) '
                          'calls the accessor named like the kind, TryFrom forwards to from_str')
    SRC = None
    for p, a in f.adts.items():
        if p.endswith('core::candles::Source'):
            SRC = a
    if SRC is None:
        raise Broken('Source enum not found')
    variants = [v['name'] for v in SRC['variants']]
    fimp = [i for i in f.impls if i['trait'] == 'std::str::FromStr' and i['self_tyj'].get('def') == SRC['path']]
    gimp = [i for i in f.impls if i['trait'] == 'std::convert::From' and i['self_ty'] == "&'static str" and SRC['path'] in i['trait_ref']]
    if len(fimp) != 1 or len(gimp) != 1:
        raise Broken('FromStr for Source / From<Source> for &str not found (%d, %d)' % (len(fimp), len(gimp)))
    fb = m.body(m.impl_fn_path(fimp[0], 'from_str'))
    gb = _follow_forwarder(f, m.body(m.impl_fn_path(gimp[0], 'from')))
    # F: literal -> variant
    F = {}
    default_err = False
    scrut = None
    for pf in all_path_facts(fb):
        if not pf.returns:
            continue
        sd = pf.str_decisions()
        for o, l, t in sd:
            scrut = o
        trues = [l for o, l, t in sd if t]
        ret = pf.ret
        is_ok = ret is not None and ret[0] == 'agg' and ret[2].endswith('Result::Ok')
        variant = None
        if is_ok:
            inner = _strip(ret[3][0])
            if inner[0] == 'agg' and inner[2].startswith(SRC['path'] + '::'):
                variant = inner[2].rsplit('::', 1)[-1]
        if len(trues) == 1:
            r.inst('Source|from_str|"%s"' % trues[0])
            if variant is None:
                r.violate('Source|from_str|"%s"|not-ok' % trues[0], 'literal does not produce a Source', fb.file, fb.line)
            else:
                F.setdefault(trues[0], set()).add(variant)
        elif not trues and sd:
            r.inst('Source|from_str|<default>')
            if is_ok:
                r.violate('Source|from_str|<default>|ok', 'unknown source names are accepted as %s' % variant, fb.file, fb.line)
            else:
                default_err = True
    from_str_table_in_data = not F and not _tests_string_literals(f, fb)
    if from_str_table_in_data:
        # the names are looked up in a data table at run time (no literal comparisons in code): the text -> Source direction is not decided;
        # the Source -> text table and the accessor wiring below still are
        r.undecided.append('Source::from_str looks names up in a data table: text -> Source mapping and the round trip are not decided')
        r.info['from_str'] = 'not decided: data-table lookup'
    if not default_err and not from_str_table_in_data:
        r.violate('Source|from_str|<default>|missing', 'from_str has no rejecting default arm', fb.file, fb.line)
    for l, vs in F.items():
        if len(vs) != 1:
            r.violate('Source|from_str|"%s"|ambiguous' % l, 'literal maps to %s' % sorted(vs), fb.file, fb.line)
    # normalisation prelude: which str->str calls feed the scrutinee
    prelude = []
    if scrut is not None:
        for x in walk_tree(scrut):
            if x[0] == 'call':
                prelude.append(x[4])
    def normalise(s):
        out = s
        for c in prelude:
            if c.endswith('to_ascii_lowercase'):
                out = out.lower()
            elif c.endswith('to_lowercase'):
                out = out.lower()
            elif c.endswith('::trim'):
                out = out.strip()
            elif c.endswith('to_ascii_uppercase') or c.endswith('to_uppercase'):
                out = out.upper()
        return out
    # G: variant -> literal
    G = {}
    g_paths = [pf for pf in all_path_facts(gb) if pf.returns]
    def on_param(pf):
        return [(sc, vals, allv) for sc, vals, allv in pf.variant_decisions() if _strip(sc)[0] == 'arg']
    into_str_table_in_data = bool(g_paths) and not any(on_param(pf) for pf in g_paths) and not any(
        pf.ret is not None and _strip(pf.ret)[0] == 'str' for pf in g_paths)
    if into_str_table_in_data:
        # the text is not chosen by branching on the variant in code and no path returns a literal: the names live in a data table searched
        # at run time; Source -> text and the round trip are not decided, the accessor wiring below still is (by name)
        r.undecided.append('Into<&str> for Source looks the text up in a data table: Source -> text mapping and the round trip are not decided')
        r.info['into_str'] = 'not decided: data-table lookup'
        g_paths = []
    for pf in g_paths:
        V = None
        names = variants
        for sc, vals, allv in on_param(pf):
            if vals != 'otherwise' and len(vals) == 1:
                V = names[vals[0]]
            elif vals == 'otherwise':
                rest = [i for i in range(len(names)) if i not in allv]
                if len(rest) == 1:
                    V = names[rest[0]]
        ret = _strip(pf.ret) if pf.ret else None
        r.inst('Source::%s|into_str' % V)
        if V is None or ret is None or ret[0] != 'str':
            r.violate('Source::%s|into_str|non-literal' % V, 'Into<&str> for %s is not a literal' % V, gb.file, gb.line)
            continue
        G[V] = ret[1]
    for V in variants:
        key = 'Source::%s' % V
        if into_str_table_in_data:
            continue
        r.inst(key + '|round-trip')
        if V not in G:
            r.violate(key + '|into_str|missing', 'no textual form for %s' % V, gb.file, gb.line)
            continue
        lit = G[V]
        back = F.get(lit)
        if from_str_table_in_data:
            r.sample({'variant': V, 'text': lit, 'parses_back_to': 'not decided (data-table lookup)'})
            continue
        if back != {V}:
            r.violate(key + '|round-trip|%s' % lit, 'Source::%s prints as "%s", which parses to %s' % (V, lit, sorted(back) if back else 'an error'), fb.file, fb.line)
        if normalise(lit) != lit:
            r.violate(key + '|not-normal-form|%s' % lit, '"%s" is not a fixed point of from_str\'s normalisation (%s): it can never match' % (lit, prelude), gb.file, gb.line)
        r.sample({'variant': V, 'text': lit, 'parses_back_to': sorted(back) if back else None})
    for l in F:
        if normalise(l) != l:
            r.violate('Source|from_str|"%s"|unreachable-literal' % l, 'arm literal "%s" can never equal the normalised input' % l, fb.file, fb.line)
    # serde names = G
    at = serde_attrs_of(f, SRC)
    has_serde = any((i.get('trait_crate') or '').startswith('serde') and i['self_tyj'].get('def') == SRC['path'] for i in f.impls)
    if at is not None and has_serde:
        tattrs, vattrs, _ = at
        rename_all = None
        for a in tattrs:
            mm = re.search(r'rename_all\s*=\s*"([^"]*)"', a)
            if mm:
                rename_all = mm.group(1)
        for V in variants:
            nm = V
            if rename_all == 'lowercase':
                nm = V.lower()
            elif rename_all == 'snake_case':
                nm = re.sub(r'(?<!^)(?=[A-Z])', '_', V).lower()
            elif rename_all == 'UPPERCASE':
                nm = V.upper()
            for a in vattrs.get(V, []):
                mm = re.search(r'rename\s*=\s*"([^"]*)"', a)
                if mm:
                    nm = mm.group(1)
            r.inst('Source::%s|serde-name' % V)
            if V in G and nm != G[V]:
                r.violate('Source::%s|serde-name|%s' % (V, nm), 'serde names Source::%s "%s" but its text form is "%s"' % (V, nm, G[V]), SRC['file'], SRC['line'])
    # TryFrom forwards to from_str
    ntf = 0
    for i in f.impls:
        if i['trait'] == 'std::convert::TryFrom' and i['self_tyj'].get('def') == SRC['path']:
            ntf += 1
            b = m.body(m.impl_fn_path(i, 'try_from'))
            key = 'Source|%s' % i['trait_ref']
            r.inst(key)
            fwd = [t for bi, t in b.calls() if callee_def(t['callee']) == m.impl_fn_path(fimp[0], 'from_str')]
            if len(fwd) != 1 or fwd[0]['dest']['l'] != 0:
                r.violate(key + '|not-forwarding', 'TryFrom does not return Source::from_str of its argument', b.file, b.line)
    r.floor('TryFrom impls', 2, ntf)
    # source(kind) wiring
    ohlcv = f.traits[T_OHLCV]
    sp = [it['path'] for it in ohlcv['items'] if it['name'] == 'source']
    if not sp:
        raise Broken('OHLCV::source not found')
    sb = m.body_inlined(sp[0], prefer_mono=False)
    seen = set()
    for pf in all_path_facts(sb):
        if not pf.returns:
            continue
        V = None
        for sc, vals, allv in pf.variant_decisions():
            if vals != 'otherwise' and len(vals) == 1:
                V = variants[vals[0]]
            elif vals == 'otherwise':
                rest = [i for i in range(len(variants)) if i not in allv]
                if len(rest) == 1:
                    V = variants[rest[0]]
        if V is None:
            continue
        key = 'OHLCV::source|%s' % V
        r.inst(key)
        accessor = [t['callee']['name'] for b, tr, t in pf.calls if (t['callee'].get('trait') or '').endswith('OHLCV')]
        want = G.get(V)
        if want is None and into_str_table_in_data:
            # no decided text form: the accessor named like the variant (`VolumedPrice` -> `volumed_price`)
            want = next((it['name'] for it in ohlcv['items'] if it['kind'] == 'Fn' and it['name'].replace('_', '') == V.lower()), None)
        if len(accessor) != 1 or accessor[0] != want:
            r.violate(key + '|calls|%s' % '+'.join(accessor), 'source(Source::%s) calls %s (expected the accessor `%s`)' % (V, accessor, want), sb.file, sb.line)
        else:
            retc = _strip(pf.ret) if pf.ret else None
            if not (retc and retc[0] == 'call' and retc[1] and retc[4].endswith('::' + want)):
                r.violate(key + '|result', 'source(Source::%s) does not return the accessor\'s value unchanged' % V, sb.file, sb.line)
            seen.add(V)
    for V in variants:
        if V not in seen and (V in G or into_str_table_in_data):
            r.violate('OHLCV::source|%s|missing' % V, 'source() has no arm for %s' % V, sb.file, sb.line)
    r.floor('Source variants', 8, len(variants))
    if not from_str_table_in_data:
        r.floor('from_str literals', 9, len(F))
    return r


def s18b_clv_zero_range(ctx):
    """clv is 0 exactly on a zero range: the constant-zero answer is selected by an exact equality of high and low."""
    f = ctx.facts('default')
    m = Model(f)
    r = RuleResult('S18b', 'OHLCV::clv answers the constant 0 exactly under the exact test high == low (or high - low == 0) and divides by '
                           'high - low otherwise')
    ohlcv = f.traits[T_OHLCV]
    cp = [it['path'] for it in ohlcv['items'] if it['name'] == 'clv']
    if not cp:
        raise Broken('OHLCV::clv not found')
    b = m.body_inlined(cp[0], prefer_mono=False)
    if b is None:
        raise Broken('no body for OHLCV::clv')

    def acc(t):
        t = _strip(t)
        if t[0] == 'call' and len(t[2]) == 1 and _strip(t[2][0])[0] == 'arg':
            return t[4].rsplit('::', 1)[-1]
        return None

    def is_range(t):
        t = _strip(t)
        return t[0] == 'bin' and t[1] == 'Sub' and acc(t[2]) == 'high' and acc(t[3]) == 'low'

    nz = nd = 0
    for pf in all_path_facts(b):
        if not pf.returns:
            continue
        ret = _strip(pf.ret) if pf.ret else None
        exact = None     # truth of the exact zero-range test on this path
        other_tests = 0
        for d, vals, blk, allv in pf.decisions:
            truth = not (vals != 'otherwise' and 0 in vals)
            if d[0] == 'bin' and d[1] in ('Eq', 'Ne'):
                x, y = d[2], d[3]
                hit = ({acc(x), acc(y)} == {'high', 'low'}) or (is_range(x) and _strip(y)[0] == 'const' and _strip(y)[2] == 0.0) or \
                      (is_range(y) and _strip(x)[0] == 'const' and _strip(x)[2] == 0.0)
                if hit:
                    exact = truth if d[1] == 'Eq' else (not truth)
                    continue
            other_tests += 1
        key = 'clv|%s' % ('zero-range' if exact else 'formula')
        r.inst(key)
        if ret is not None and ret[0] == 'const' and ret[2] == 0.0:
            nz += 1
            if exact is not True:
                r.violate('clv|zero-without-exact-test', 'clv() returns the constant 0 on a path that is not selected by the exact test high == low: a candle '
                          'with a tiny non-zero range gets 0 instead of its formula value', b.file, b.line)
        else:
            nd += 1
            if exact is not False or other_tests:
                r.violate('clv|formula-path-guard', 'the formula path of clv() is not exactly the complement of high == low', b.file, b.line)
            if not (ret is not None and ret[0] == 'bin' and ret[1] == 'Div' and is_range(ret[3])):
                r.violate('clv|formula-divisor', 'clv() does not divide by high - low', b.file, b.line)
            else:
                r.sample({'path': 'formula', 'returns': tree_str(ret)[:100]})
    if nz != 1 or nd != 1:
        r.violate('clv|shape', 'clv() has %d constant-zero and %d formula paths (expected 1 and 1)' % (nz, nd), b.file, b.line)
    r.floor('clv paths', 2, nz + nd)
    return r


def s18c_validate_boxes(ctx):
    """OHLCV::validate decided on boxes of candles by interval abstract interpretation of the generic default method, the five required
    accessors standing for arbitrary values of the box."""
    from absint import St, Budget, INF
    from absexec import Exec
    f = ctx.facts('default')
    r = RuleResult('S18c', 'OHLCV::validate rejects every candle with a non-positive, NaN or infinite price or a negative volume (for all values of the '
                           'other fields), rejects unordered boxes and accepts ordered positive finite boxes with non-negative or NaN volume')
    bid = 'G:core::ohlcv::OHLCV::validate'
    if bid not in f.bodies:
        raise Broken('OHLCV::validate not found')
    FM = 1.7976931348623157e308
    TINY = 5e-324
    ANY = ('float', -INF, INF, True)
    acc = ('open', 'high', 'low', 'close', 'volume')

    def run(box):
        ex = Exec(f)
        st = St()
        b = ex.body(bid)
        ex.abstract_trait_fns = {'core::ohlcv::OHLCV::' + a: box.get(a, ANY) for a in acc}
        try:
            outs = ex.run_fn(b, st, [ex.top_of(st, b.locals[1]['tyj'])], [bid])
        except Budget:
            return None, ex
        vals = set()
        for s_, v in outs:
            if v[0] == 'bool':
                bv = s_.bv.get(v[1])
                vals.add(bv)
            else:
                vals.add(None)
        return vals, ex

    cases = []
    import itertools
    NONPOS = ('float', -INF, 0.0, False)
    POS = ('float', TINY, INF, False)
    NAN = ('nan',)
    prices = ('open', 'high', 'low', 'close')
    for p in prices:
        # a non-positive price is rejected whatever the others are: the others are split into sign classes (<= 0, > 0, NaN) so that
        # an implementation that relies on the ordering clause (low > 0 and low <= close <= high imply close, high > 0) is decided too
        others = [q for q in prices if q != p]
        for combo in itertools.product((('<=0', NONPOS), ('>0', POS), ('NaN', NAN)), repeat=len(others)):
            box = {p: NONPOS}
            for q, (cl, v) in zip(others, combo):
                box[q] = v
            cases.append(('%s<=0 [%s]' % (p, ','.join('%s%s' % (q, cl) for q, (cl, v) in zip(others, combo))), box, False))
        cases.append(('%s=NaN' % p, {p: ('nan',)}, False))
        cases.append(('%s=+inf' % p, {p: ('float', INF, INF, False)}, False))
    cases.append(('volume<0', {'volume': ('float', -INF, -TINY, False)}, False))
    good = {'open': ('float', 2.0, 3.0, False), 'close': ('float', 2.0, 3.0, False), 'high': ('float', 4.0, 5.0, False), 'low': ('float', 1.0, 1.5, False)}
    cases.append(('close>high', dict(good, close=('float', 6.0, 7.0, False), volume=('float', 0.0, 10.0, False)), False))
    cases.append(('close<low', dict(good, close=('float', 0.25, 0.5, False), volume=('float', 0.0, 10.0, False)), False))
    cases.append(('high<low', dict(good, high=('float', 0.5, 0.75, False), close=('float', 0.6, 0.7, False), volume=('float', 0.0, 10.0, False)), False))
    cases.append(('ordered-positive-finite,volume>=0', dict(good, volume=('float', 0.0, FM, False)), True))
    cases.append(('ordered-positive-finite,volume=NaN', dict(good, volume=('nan',)), True))
    cases.append(('huge-but-finite', {'open': ('float', FM, FM, False), 'close': ('float', FM, FM, False), 'high': ('float', FM, FM, False), 'low': ('float', TINY, TINY, False),
                                      'volume': ('float', 0.0, 0.0, False)}, True))
    b0 = f.bodies[bid]
    for label, box, want in cases:
        box2 = {k: (('float', INF, -INF, True) if v == ('nan',) else v) for k, v in box.items()}       # ('nan',) = certainly NaN
        key = 'validate|' + label
        r.inst(key)
        vals, ex = run(box2)
        if vals is None:
            r.violate(key + '|budget', 'analysis budget exceeded', b0['file'], b0['line'])
            continue
        if vals != {want}:
            r.violate(key + '|' + ('accepts' if want is False else 'rejects'), 'OHLCV::validate can return %s for candles with %s (expected %s for every such candle)' % (
                sorted(str(x) for x in vals - {want}), label, want), b0['file'], b0['line'])
        else:
            if len(r.samples) < 8 or want:
                r.sample({'box': label, 'validate': want})
    r.floor('validate boxes', 120, len(cases))
    return r


def _validate_loop_form(b, calls, names, pred, PASS):
    """None if the loop visits every element of self.as_ref() and answers false exactly at the first element failing `pred`"""
    allowed = set(PASS) | {'into_iter', 'next'}
    pcalls = [(bi, t) for bi, t in calls if (callee_def(t['callee']) or '') == pred or ((t['callee'].get('res') or {}).get('def') == pred)]
    others = [t['callee'].get('name') for bi, t in calls if (bi, t) not in pcalls and t['callee'].get('name') not in allowed]
    if others:
        return 'adaptor: passes its elements through `%s`' % others[0]
    if len(pcalls) != 1:
        return 'predicate: %d calls of %s (expected one per element)' % (len(pcalls), pred)
    if not any(x[0] == 'call' and x[4].endswith('AsRef::as_ref') and _strip(x[2][0])[0] == 'arg' and _strip(x[2][0])[1] == 1
               for bi, t in calls for a in t['args'] for x in walk_tree(b.tree_of_operand(a))):
        return 'source: does not iterate over self.as_ref()'
    pbi = pcalls[0][0]
    n_true = n_false = 0
    for pf in all_path_facts(b):
        if not pf.returns:
            continue
        ret = pf.ret
        if not (ret is not None and ret[0] == 'const' and isinstance(ret[2], bool)):
            return 'result: returns %s, not a boolean decided by the loop' % (tree_str(ret)[:40] if ret else None)
        pdec = None
        none_seen = False
        for d, vals, blk, allv in pf.decisions:
            if any(isinstance(x, tuple) and x and x[0] == 'call' and x[3] == pbi for x in walk_tree(d)):
                neg = d[0] == 'un' and d[1] == 'Not'
                truth = not (vals != 'otherwise' and 0 in vals)
                pdec = (not truth) if neg else truth
            if d[0] == 'discr' and any(isinstance(x, tuple) and x and x[0] == 'call' and x[4].endswith('::next') for x in walk_tree(d)):
                if vals != 'otherwise' and 0 in vals:
                    none_seen = True
        if ret[2] is False:
            n_false += 1
            if pdec is not False:
                return 'result: a path answers false without an element failing the test'
        else:
            n_true += 1
            if pdec is False:
                return 'result: a path answers true although an element failed the test'
            if not none_seen:
                return 'result: a path answers true before the iteration is exhausted'
    if not n_true or not n_false:
        return 'result: the loop cannot answer both true and false'
    return None


def s18d_sequence_validate(ctx):
    """Sequence::validate = every element passes the element test: the whole slice, universally quantified, the right predicate."""
    f = ctx.facts('default')
    r = RuleResult('S18d', 'Sequence::validate (values / candles) applies is_finite / OHLCV::validate to every element of the whole slice with `all` '
                           '(no skipping, truncating or filtering adaptor, not `any`, result returned unchanged)')
    want = {'G:<Q as core::sequence::Sequence<f64>>::validate': 'core::f64::<impl f64>::is_finite',
            'G:<Q as core::sequence::Sequence<f32>>::validate': 'core::f32::<impl f32>::is_finite',
            'G:<Q as core::sequence::Sequence<T>>::validate': 'core::ohlcv::OHLCV::validate'}
    PASS = ('as_ref', 'iter', 'copied', 'cloned', 'into_iter', 'by_ref', 'borrow', 'deref', 'as_slice')
    n = 0
    for bid, pred in want.items():
        bj = f.bodies.get(bid)
        if bj is None:
            continue
        n += 1
        b = Body(bj)
        key = 'Sequence::validate|' + ('values' if 'OHLCV' not in pred else 'candles')
        r.inst(key)
        calls = [(bi, t) for bi, t in b.calls()]
        names = [t['callee'].get('name') for _, t in calls]
        if 'all' not in names and b.has_loop():
            # the same question asked with a loop: `for x in self.as_ref().iter() { if !pred(x) { return false } } true`
            why = _validate_loop_form(b, calls, names, pred, PASS)
            if why:
                r.violate(key + '|loop-form|' + why.split(':')[0], 'Sequence::validate (loop form): %s' % why, b.file, b.line)
            else:
                r.sample({'sequence of': key.split('|')[1], 'decides with': 'loop over self.as_ref().iter(): false at the first element failing %s, true after the last' % pred})
            continue
        bad = [x for x in names if x not in PASS and x != 'all']
        if bad:
            r.violate(key + '|adaptor|' + str(bad[0]), 'Sequence::validate passes its slice through `%s` before testing the elements: some elements are not examined / another question is asked' % bad[0], b.file, b.line)
            continue
        alls = [(bi, t) for bi, t in calls if t['callee'].get('name') == 'all']
        if len(alls) != 1:
            r.violate(key + '|not-all', 'Sequence::validate does not decide with exactly one `all` over the elements', b.file, b.line)
            continue
        bi, t = alls[0]
        fnarg = b.tree_of_operand(t['args'][1]) if len(t['args']) > 1 else None
        pred_ok = bool(fnarg and fnarg[0] == 'fn' and fnarg[1] == pred)
        if not pred_ok and fnarg is not None:
            # a closure that only forwards its parameter to the predicate and returns the answer
            cid = next((x[2] for x in walk_tree(fnarg) if x[0] == 'agg' and x[1] == 'closure'), None)
            cbj = f.bodies.get(cid) if cid else None
            if cbj is not None:
                cb = Body(cbj)
                ccalls = [t2 for _, t2 in cb.calls()]
                if len(ccalls) == 1 and (callee_def(ccalls[0]['callee']) or '') == pred:
                    rets = [pf.ret for pf in all_path_facts(cb) if pf.returns]
                    if rets and all(rt is not None and rt[0] == 'call' and rt[4] == pred for rt in rets):
                        pred_ok = True
        if not pred_ok:
            r.violate(key + '|predicate', 'Sequence::validate tests its elements with %s instead of %s' % (tree_str(fnarg)[:60] if fnarg else None, pred), b.file, b.term_line(bi))
            continue
        # the source of the iteration is the whole of self and the verdict of `all` is the return value
        src_ok = any(x[0] == 'call' and x[4].endswith('AsRef::as_ref') and _strip(x[2][0]) == ('arg', 1, 'self') for x in walk_tree(b.tree_of_operand(t['args'][0])))
        ret_ok = False
        for pf in all_path_facts(b):
            if pf.returns and pf.ret is not None and pf.ret[0] == 'call' and pf.ret[4].endswith('Iterator>::all') or (pf.returns and pf.ret is not None and pf.ret[0] == 'call' and pf.ret[4].endswith('Iterator::all')):
                ret_ok = True
        if not src_ok:
            r.violate(key + '|source', 'Sequence::validate does not iterate over self.as_ref()', b.file, b.term_line(bi))
        elif not ret_ok:
            r.violate(key + '|result', 'Sequence::validate does not return the verdict of `all` unchanged', b.file, b.line)
        else:
            r.sample({'sequence of': key.split('|')[1], 'decides with': 'all(%s) over self.as_ref().iter()' % pred})
    r.floor('Sequence::validate impls', 2, n)
    return r


def s18e_source_redispatch(ctx):
    """Sibling agreement: a function that dispatches on a `Source` value by itself (instead of calling OHLCV::source) must send every
    kind to the accessor OHLCV::source sends it to - including the kinds its wildcard arm covers."""
    f = ctx.facts('default')
    m = Model(f)
    r = RuleResult('S18e', 'every hand-written dispatch on Source agrees with OHLCV::source, kind by kind (wildcard arms included)')
    SRC = None
    for p, a in f.adts.items():
        if p.endswith('core::candles::Source'):
            SRC = a
    if SRC is None:
        raise Broken('Source enum not found')
    variants = [v['name'] for v in SRC['variants']]
    ohlcv = f.traits[T_OHLCV]
    sp = [it['path'] for it in ohlcv['items'] if it['name'] == 'source']
    if not sp:
        raise Broken('OHLCV::source not found')
    accessors = {it['name'] for it in ohlcv['items'] if it['kind'] == 'Fn'}

    def kinds_of(pf, body):
        """set of variant names this path is taken for (None: the path does not depend on a Source discriminant)"""
        ks = None
        for d, vals, bi, allv in pf.decisions:
            if d[0] != 'discr':
                continue
            # the scrutinee must be a Source
            blk = body.blocks[bi]
            ok = False
            for s in blk['stmts']:
                if s['s'] == 'assign' and s['rv']['r'] == 'discr' and s['rv']['pl']['ty'].lstrip('&').replace('mut ', '') == SRC['path']:
                    ok = True
            if not ok:
                continue
            if vals != 'otherwise':
                cur = {variants[v] for v in vals if v < len(variants)}
            else:
                cur = {variants[i] for i in range(len(variants)) if i not in allv}
            ks = cur if ks is None else (ks & cur)
        return ks

    def table_of(body):
        rows = []
        for pf in all_path_facts(body, limit=3000):
            if not pf.returns:
                continue
            ks = kinds_of(pf, body)
            if not ks:
                continue
            acc = [t['callee']['name'] for b, tr, t in pf.calls if (t['callee'].get('trait') or '').endswith('OHLCV') and t['callee']['name'] in accessors]
            rows.append((ks, acc))
        return rows

    sb = m.body_inlined(sp[0], prefer_mono=False)
    T = {}
    for ks, acc in table_of(sb):
        if len(ks) == 1 and len(acc) == 1:
            T[next(iter(ks))] = acc[0]
    r.floor('kinds decided by OHLCV::source', 8, len(T))
    if len(T) < len(variants):
        r.undecided.append('OHLCV::source does not decide %s by a direct accessor call' % sorted(set(variants) - set(T)))
    n = 0
    for bid, bj in sorted(f.bodies.items()):
        if not bj['generic'] or bj.get('closure_of') or '::tests::' in bj['def'] or bj['def'] == sp[0]:
            continue
        if not any(s['s'] == 'assign' and s['rv']['r'] == 'discr' and s['rv']['pl']['ty'].lstrip('&').replace('mut ', '') == SRC['path']
                   for blk in bj['blocks'] for s in blk['stmts']):
            continue
        body = m.body_inlined(bj['def'], prefer_mono=False) or Body(bj)
        try:
            rows = table_of(body)
        except Exception:
            r.undecided.append('%s: too many paths' % bj['def'])
            continue
        rows = [(ks, acc) for ks, acc in rows if len(acc) == 1 and acc[0] != 'source']
        if not rows:
            continue
        n += 1
        for ks, acc in rows:
            for V in sorted(ks):
                key = '%s|%s' % (bj['def'], V)
                r.inst(key)
                if V in T and T[V] != acc[0]:
                    r.violate(key + '|' + acc[0], '%s sends Source::%s to `%s()`%s; OHLCV::source sends it to `%s()`' % (
                        bj['def'], V, acc[0], ' through an arm that covers %d kinds' % len(ks) if len(ks) > 1 else '', T[V]), bj['file'], bj['line'])
    r.info['hand-written dispatches'] = n
    return r


def s18f_true_range_nan_taint(ctx):
    """C18: "every previous close" includes NaN, where max(high-low, |high-pc|, |low-pc|) is high - low (the NaN-ignoring maximum).
    NaN-taint analysis of OHLCV::tr_close on every path that a NaN previous close takes (every ordered float comparison with the
    previous close as an operand is false, `!=` is true): the returned value must not be NaN-tainted. A value is tainted when it is
    the previous close, an arithmetic result with a tainted operand, or a f64::max / f64::min of two tainted values (max / min of a
    tainted and an untainted value is the untainted one)."""
    from paths import enumerate_paths
    from symexec import PathSym
    f = ctx.facts('default')
    m = Model(f)
    r = RuleResult('S18f', 'OHLCV::tr_close with a NaN previous close returns a value that is not NaN-tainted (the selection ignores the NaN, as f64::max / min do)')
    ohlcv = f.traits[T_OHLCV]
    tp = [it['path'] for it in ohlcv['items'] if it['name'] == 'tr_close']
    if not tp:
        raise Broken('OHLCV::tr_close not found')
    b = m.body_inlined(tp[0], prefer_mono=False)
    if b is None or b.arg_count != 2:
        raise Broken('OHLCV::tr_close: unexpected signature')

    def strip(t):
        while isinstance(t, tuple) and t and t[0] in ('ref', 'deref'):
            t = t[1]
        return t

    def is_pc(t):
        t = strip(t)
        return isinstance(t, tuple) and t and t[0] == 'arg' and t[1] == 2

    def tainted(t, depth=0):
        t = strip(t)
        if not isinstance(t, tuple) or not t or depth > 40:
            return False
        if is_pc(t):
            return True
        if t[0] == 'call':
            name = t[4].rsplit('::', 1)[-1]
            args = t[2]
            if name in ('max', 'min') and '<impl f' in t[4] and len(args) == 2:
                return tainted(args[0], depth + 1) and tainted(args[1], depth + 1)
            if name in ('maximum', 'minimum'):
                return any(tainted(a, depth + 1) for a in args)
            if name == 'is_nan':
                return False
            return any(tainted(a, depth + 1) for a in args)
        if t[0] in ('bin',):
            return tainted(t[2], depth + 1) or tainted(t[3], depth + 1)
        if t[0] == 'un':
            return tainted(t[2], depth + 1)
        if t[0] == 'cast':
            return tainted(t[2], depth + 1)
        return False

    n = 0
    for p in enumerate_paths(b, limit=4000):
        ps = PathSym(b, p)
        if not ps.returns or ps.infeasible:
            continue
        # is this a path a NaN previous close can take?
        feasible = True
        for d, vals in ps.decisions:
            dd = strip(d)
            truth = not (vals != 'otherwise' and 0 in vals)
            if isinstance(dd, tuple) and dd and dd[0] == 'bin' and dd[1] in ('Lt', 'Le', 'Gt', 'Ge', 'Eq', 'Ne') and (tainted(dd[2]) or tainted(dd[3])):
                want = (dd[1] == 'Ne')
                if truth != want:
                    feasible = False
            elif isinstance(dd, tuple) and dd and dd[0] == 'call' and dd[4].endswith('::is_nan') and dd[2] and tainted(dd[2][0]):
                if not truth:
                    feasible = False
        if not feasible:
            continue
        n += 1
        r.inst('tr_close|nan-path|%d' % n)
        if ps.ret is not None and tainted(ps.ret):
            r.violate('OHLCV::tr_close|nan-previous-close|tainted', 'with a NaN previous close OHLCV::tr_close returns %s, which is NaN: the selection between the '
                      'candle\'s own price and the previous close does not ignore the NaN (f64::max / f64::min do; `if a > b {a} else {b}` does not)' % tree_str(ps.ret)[:90],
                      b.file, b.line)
            break
    r.floor('paths a NaN previous close can take', 1, n)
    return r
