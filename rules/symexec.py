"""Straight-line symbolic execution of one MIR path with versioned reads of `self` fields.
Used by rules that relate the value a function returns to the state it leaves behind (S11)."""
from mir import Body, callee_def, callee_id, callee_is, const_tree


class PathSym:
    def __init__(self, body, path, self_local=1):
        self.body = body
        self.path = [b for b in path if b != 'loop']
        self.val = {}            # local -> tree
        self.ver = {}            # top-level self field -> version
        self.known = {}          # (field path, version of its top field) -> tree stored there
        self.calls = []          # (pos, tree, versions snapshot AFTER the call)
        self.stores = []         # (field path, tree, pos)
        self.self_local = self_local
        self.epoch = 0
        self.pos = 0
        self.decisions = []
        self.ret = None
        self.returns = False
        self.infeasible = False
        self._run()

    # ---- reading ---------------------------------------------------------------------------------
    def _self_path(self, tree):
        """If tree denotes (part of) *self return the field path tuple (possibly empty), else None."""
        path = []
        x = tree
        while True:
            while x[0] in ('ref', 'deref'):
                x = x[1]
            if x[0] == 'field':
                path.append(x[2])
                x = x[1]
                continue
            break
        if x[0] == 'arg' and x[1] == self.self_local:
            return tuple(reversed(path))
        if x[0] == 'sfp':
            # a pointer to (a part of) self held in a local: the `self` parameter of an inlined private helper
            return tuple(x[1]) + tuple(reversed(path))
        return None

    def place(self, p, reading=True):
        l = p['l']
        if l in self.val:
            base = self.val[l]
        elif 1 <= l <= self.body.arg_count:
            base = ('arg', l, self.body.local_name(l))
        else:
            base = ('local', l, self.body.local_name(l))
        for e in p['p']:
            k = e['p']
            if k == 'deref':
                if base[0] == 'ref':
                    base = base[1]
                else:
                    base = ('deref', base)
            elif k == 'field' and base[0] == 'sfp':
                base = ('sfp', tuple(base[1]) + (e['name'],))
            elif k == 'field':
                if base[0] == 'agg' and base[1] == 'tuple' and e['i'] < len(base[3]):
                    base = base[3][e['i']]
                elif base[0] == 'agg' and base[1] == 'adt' and e['name'] in base[4]:
                    base = base[3][base[4].index(e['name'])]
                elif base[0] == 'sf':
                    base = ('sf', base[1] + (e['name'],), base[2])
                else:
                    base = ('field', base, e['name'])
            elif k == 'downcast':
                base = ('as', base, e['variant'])
            elif k == 'index':
                base = ('index', base, self.val.get(e['local'], ('local', e['local'], None)))
            elif k == 'cindex':
                base = ('cindex', base, e['offset'], e['from_end'])
            else:
                base = (k, base)
        sp = self._self_path(base)
        if sp is not None and sp and reading and base[0] != 'sf':
            return ('sf', sp, self.cur(sp[0]))
        return base

    def operand(self, o):
        k = o['o']
        if k == 'const':
            return const_tree(o['v'])
        if k in ('copy', 'move'):
            return self.place(o['pl'])
        return ('rt',)

    def rvalue(self, r):
        k = r['r']
        if k == 'use':
            return self.operand(r['a'])
        if k in ('ref', 'rawptr'):
            t = self.place(r['pl'], reading=False)
            sp = self._self_path(t)
            if sp is not None and t[0] != 'sf':
                return ('ref', ('sfp', sp))        # pointer to a part of self: version decided when it is read / passed
            return ('ref', t)
        if k == 'cast':
            return ('cast', r['kind'].split('(')[0], self.operand(r['a']), r['from'], r['to'])
        if k == 'bin':
            return ('bin', r['op'], self.operand(r['a']), self.operand(r['b']), r['ty'])
        if k == 'un':
            return ('un', r['op'], self.operand(r['a']), r['ty'])
        if k == 'discr':
            return ('discr', self.place(r['pl']))
        if k == 'agg':
            ops = tuple(self.operand(x) for x in r['ops'])
            if r['kind'] == 'adt':
                return ('agg', 'adt', r['def'] + '::' + r['variant'] if r.get('is_enum') else r['def'], ops, tuple(r['fields']))
            if r['kind'] == 'closure':
                return ('agg', 'closure', r['id'], ops, ())
            return ('agg', r['kind'], r.get('ty'), ops, ())
        if k == 'repeat':
            return ('repeat', self.operand(r['a']), r['n'])
        return (k,)

    # ---- executing ---------------------------------------------------------------------------------
    def _bump(self, top):
        self.ver[top] = self.ver.get(top, 0) + 1

    def _bump_all(self):
        self.epoch += 1

    def cur(self, top):
        return self.ver.get(top, 0) + self.epoch

    def _store(self, pl, tree):
        if not pl['p']:
            self.val[pl['l']] = tree
            return
        t = self.place({'l': pl['l'], 'p': pl['p']}, reading=False)
        sp = self._self_path(t) if t[0] != 'sf' else t[1]
        if sp:
            self._bump(sp[0])
            nv = self.cur(sp[0])
            self.known[(sp, nv)] = tree
            # older knowledge about this top-level field at the new version: unaffected sibling paths carry over
            for (fp, v), tr in list(self.known.items()):
                if fp[0] == sp[0] and v == nv - 1 and fp != sp and not (fp[:len(sp)] == sp or sp[:len(fp)] == fp):
                    self.known[(fp, nv)] = tr
            self.stores.append((sp, tree, self.pos))
        else:
            # store through a local aggregate: forget the local's precise value
            self.val[pl['l']] = ('local', pl['l'], self.body.local_name(pl['l']))

    def _mutated_by_arg(self, a):
        """top-level self fields (or '*') an argument gives mutable access to"""
        x = a
        if x[0] == 'ref' and x[1][0] == 'sfp':
            sp = x[1][1]
            return [sp[0]] if sp else ['*']
        # an aggregate (array / tuple of `&mut self.f` references), or a reference to one, handed to the callee: every part of self it
        # points into may be written there
        found = []
        stack = [a]
        seen = 0
        while stack and seen < 200:
            y = stack.pop()
            seen += 1
            if not isinstance(y, tuple) or not y:
                continue
            if y[0] == 'ref' and isinstance(y[1], tuple) and y[1] and y[1][0] == 'sfp':
                sp = y[1][1]
                found.append(sp[0] if sp else '*')
                continue
            if y[0] in ('ref', 'deref') and len(y) > 1:
                stack.append(y[1])
            elif y[0] == 'agg' and len(y) > 3:
                stack.extend(y[3])
            elif y[0] == 'cast' and len(y) > 2:
                stack.append(y[2])
        if found:
            return found
        if x[0] == 'arg' and x[1] == self.self_local:
            return ['*']
        if x[0] == 'ref' and x[1][0] == 'deref' and x[1][1][0] == 'arg' and x[1][1][1] == self.self_local:
            return ['*']
        return []

    def _run(self):
        b = self.body
        for i, bb in enumerate(self.path):
            blk = b.blocks[bb]
            for s in blk['stmts']:
                self.pos += 1
                if s['s'] == 'assign':
                    self._store(s['pl'], self.rvalue(s['rv']))
            t = blk['term']
            self.pos += 1
            if t['t'] == 'call':
                args = tuple(self.operand(a) for a in t['args'])
                # resolve pointers to self parts into versioned reads for the record
                shown = tuple(self._show_arg(a) for a in args)
                c = t['callee']
                is_mut = []
                for a, ao in zip(args, t['args']):
                    aty = self._operand_ty(ao)
                    if aty.startswith('&mut') or aty.startswith('*mut'):
                        is_mut.extend(self._mutated_by_arg(a))
                for top in is_mut:
                    if top == '*':
                        # unknown which fields: bump every field ever seen and remember a global bump
                        self._bump_all()
                    else:
                        self._bump(top)
                tree = ('call', callee_id(c), shown, self.pos, callee_def(c) or '', (self.epoch, tuple(sorted(self.ver.items()))), tuple(is_mut))
                self.calls.append((self.pos, tree))
                self._store(t['dest'], tree)
            elif t['t'] == 'switch' and i + 1 < len(self.path):
                nxt = self.path[i + 1]
                vals = [v for v, tgt in t['targets'] if tgt == nxt]
                dtree = self.operand(t['discr'])
                self.decisions.append((dtree, vals if vals else 'otherwise'))
                # a branch on a value this very path fixed to a constant (e.g. the `true` / `false` an inlined helper returned)
                x = dtree
                while isinstance(x, tuple) and x and x[0] in ('ref', 'deref'):
                    x = x[1]
                if isinstance(x, tuple) and x and x[0] == 'const' and isinstance(x[2], (bool, int)):
                    c = int(x[2])
                    allv = [v for v, _ in t['targets']]
                    if (vals and c not in vals) or (not vals and c in allv):
                        self.infeasible = True
            elif t['t'] == 'return':
                self.returns = True
        self.ret = self.val.get(0)

    def _operand_ty(self, o):
        if o['o'] in ('copy', 'move'):
            return o['pl']['ty']
        return ''

    def _show_arg(self, a):
        if a[0] == 'ref' and a[1][0] == 'sfp':
            sp = a[1][1]
            return ('ref', ('sf', sp, self.cur(sp[0]) if sp else self.epoch))
        return a

    def final_version(self, top):
        return self.cur(top)

    def final_snapshot(self):
        return (self.epoch, tuple(sorted(self.ver.items())))
