"""Rule L02 (C08): what an indicator seeds an inner method with has the translation degree of what next() feeds it.

The indicator's init() and next() are interpreted in the affine-form domain of wlin.py with the candle's price accessors as stream values of
coefficient sum 1 (open, high, low, close and everything the OHLCV default methods derive linearly from them; `source(..)` is taken to be a
price; volume is stream-dependent with coefficient sum 0). An inner method (anything built by `Method::new` / `MovingAverageConstructor::init`
from one value) is an opaque object that remembers the abstract value it was seeded with; every `next(&mut inner, &x)` compares x with the
seed. A value of coefficient sum 1 is a price level, a value of coefficient sum 0 is a difference of price levels (or a pure number):
an average seeded with a price and fed differences starts at the price and decays towards the level of the differences, so the constant
candle does not give constant values (C08). Moving averages return the degree they are fed; every other inner method returns an unknown."""
import copy

from engine import RuleResult, Broken
from model import Model, T_METHOD
import wlin
from wlin import Aff, Obj, Ref, RF, K, TOP, ONE, ZERO, Abstain, explore, is_top, Bool

T_MA = 'core::moving_average::MovingAverage'
T_MACTOR_S = 'MovingAverageConstructor'


class SeedRun(wlin.Run):
    ma_types = set()

    def __init__(self, facts, script):
        super().__init__(facts, script)
        self.events = []
        self.lenient_stores = True

    def call(self, c, args, depth):
        d = wlin.callee_def(c) or ''
        name = c.get('name') or d.rsplit('::', 1)[-1]
        tr = c.get('trait') or ''
        res = c.get('res') or {}
        a = [x.get() if isinstance(x, Ref) else x for x in args]
        if name == 'validate' and tr.endswith('IndicatorConfig'):
            return Bool(True)
        if name == 'source' and tr.endswith('OHLCV'):
            return Aff(True, ONE, ZERO)
        if (tr.endswith('::Method') and name == 'new' and len(a) == 2) or (tr.endswith(T_MACTOR_S) and name == 'init' and len(a) == 2):
            seed = a[1]
            self_ty = (res.get('self_ty') or '') or d
            if isinstance(seed, Aff):
                inst = Obj('inner', {'seed': seed, 'ty': d}, None)
                return Obj('std::result::Result', {'0': inst}, 'Ok')
            # not a single value (candle, tuple, ...): fall through to plain interpretation / unknown
        if tr.endswith('::Method') and name == 'next' and len(a) == 2 and isinstance(a[0], Obj) and a[0].kind == 'inner':
            inst = a[0]
            x = a[1]
            seed = inst.f['seed']
            if isinstance(x, Aff) and isinstance(seed, Aff):
                self.events.append((inst.f['ty'], seed, x))
                is_ma = T_MACTOR_S in inst.f['ty'] or any(t in inst.f['ty'] for t in self.ma_types)
                if is_ma and x.lin == seed.lin and x.w.eq(seed.w) and x.c.eq(seed.c):
                    return x
                if is_ma and not x.lin and not seed.lin:
                    return TOP
                if is_ma and x.w.eq(seed.w):
                    return Aff(True, x.w, ZERO) if x.c.is_zero() and seed.c.is_zero() else TOP
            return TOP
        if name in ('default',) and tr.endswith('Default'):
            return TOP
        return super().call(c, args, depth)


def _candle(f):
    return Obj('core::candles::Candle', {'open': Aff(True, ONE, ZERO), 'high': Aff(True, ONE, ZERO), 'low': Aff(True, ONE, ZERO),
                                        'close': Aff(True, ONE, ZERO), 'volume': Aff(True, ZERO, ZERO)})


def _explore(f, body, mk_args, limit=600):
    pending = [[]]
    out = []
    while pending:
        script = pending.pop()
        if len(out) >= limit:
            raise Abstain('too many paths')
        run = SeedRun(f, script)
        args = mk_args()
        dead = False
        res = None
        try:
            res = run.call_fn(body, args)
        except wlin.PathDead:
            dead = True
        for i in range(len(script), len(run.script)):
            for alt in range(1, run.branching[i]):
                pending.append(run.script[:i] + [alt])
        if not dead:
            out.append((run, args, res))
    return out


def _degree(v):
    if not isinstance(v, Aff):
        return None
    if not v.lin:
        return 'number' if True else None
    if v.w.is_const():
        x = v.w.const_value()
        return 'price level (coefficient sum %s)' % x if x != 0 else 'difference of prices (coefficient sum 0)'
    return None


def l02_seed_degree(ctx):
    m = Model(ctx.facts())
    f = m.f
    r = RuleResult('L02', 'an inner method is seeded with a value of the translation degree next() feeds it (price level vs difference)')
    SeedRun.ma_types = {t for t in m.types_implementing(T_MA)}
    decided = 0
    for ci in m.config_impls:
        ii = m.instance_impl_for_config(ci)
        cfg = m.short(ci)
        if ii is None:
            continue
        ib = m.body(m.impl_fn_path(ci, 'init'))
        nb = m.body(m.impl_fn_path(ii, 'next'))
        if ib is None or nb is None or ib.b.get('generic') or nb.b.get('generic'):
            r.undecided.append('%s: no monomorphic body' % cfg)
            continue
        r.inst(cfg)
        try:
            insts = []

            def mk_init():
                box = {'c': _candle(f)}
                return [TOP, Ref(box, 'c')]
            for run, args, res in _explore(f, ib, mk_init):
                if isinstance(res, Obj) and res.variant == 'Ok' and isinstance(res.f.get('0'), Obj):
                    insts.append(res.f['0'])
            if not insts:
                raise Abstain('init returns no tracked instance')
            seen = {}
            n_events = 0
            for inst in insts[:4]:
                def mk_next(inst=inst):
                    box = {'s': copy.deepcopy(inst), 'c': _candle(f)}
                    return [Ref(box, 's'), Ref(box, 'c')]
                for run, args, res in _explore(f, nb, mk_next):
                    for ty, seed, x in run.events:
                        n_events += 1
                        ds, dx = _degree(seed), _degree(x)
                        if ds is None or dx is None:
                            continue
                        bad = None
                        if seed.lin and x.lin and not seed.w.eq(x.w):
                            bad = (ds, dx)
                        elif seed.lin and not x.lin and not seed.w.is_zero():
                            bad = (ds, 'a stream-independent number')
                        elif x.lin and not seed.lin and not x.w.is_zero():
                            bad = ('the constant %s' % seed.c, dx)
                        if bad:
                            short = ty.split(' as ')[0].lstrip('<').rsplit('::', 1)[-1]
                            seen[(short, bad)] = seen.get((short, bad), 0) + 1
            if n_events:
                decided += 1
            for (short, bad), k in sorted(seen.items()):
                r.violate('%s|%s|%s->%s' % (cfg, short, bad[0].split(' (')[0], bad[1].split(' (')[0]),
                          '%s::init seeds an inner %s with %s, but next() feeds it %s: fed the initial candle again the inner state moves '
                          'from the seed towards the level of the fed quantity, so constant input does not give constant values' % (cfg, short, bad[0], bad[1]),
                          ib.file, ib.line)
            r.sample({'indicator': cfg, 'seed/feed comparisons': n_events, 'mismatches': len(seen)}, cap=60)
        except Abstain as e:
            r.undecided.append('%s: %s' % (cfg, e))
        except RecursionError:
            r.undecided.append('%s: recursion' % cfg)
    r.info['indicators with at least one decided seed/feed comparison'] = decided
    r.floor('indicators with a decided seed/feed comparison', 16, decided + len({v.key.split('|')[0] for v in r.violations}))
    return r
