"""Rule L01 (C15, C08): weight-sum typing of the linear methods.

For every `impl Method` whose input and output are the value type the constructor and `next` are interpreted in the affine-form
domain of wlin.py, with the length parameter a symbol (one run per residue class of the length modulo 2, so that `length / 2` is a
polynomial) and the construction value / the input a stream value of coefficient sum 1.

  proved      every path of `next` leaves every field of the state with the coefficient sum and offset the constructor gave it
              (the state is a fixed point of a constant stream: C08) and, for the moving averages, returns coefficient sum 1 and
              offset 0 (a constant is reproduced, a translation of the stream translates the output, no term is stream-free: C15)
  VIOLATION   a path without stream-dependent branches returns, at the first or a later step of the constant stream, a decided
              coefficient sum / offset that is wrong (not identically equal as a rational function of the configuration, or not
              equal at the single configuration the path's own tests select)
  undecided   anything outside the domain (products of stream values, selections, data-dependent branches, loops): listed, never
              reported
"""
import copy
from fractions import Fraction

from engine import RuleResult, Broken
from model import Model, T_METHOD
import wlin
from wlin import Aff, Obj, Ref, RF, K, TOP, ONE, ZERO, Abstain, explore, leaves, describe, is_top

T_MA = 'core::moving_average::MovingAverage'
MOD = 2
DECIDED_FLOOR_MA = 11     # SMA WMA EMA DMA TMA DEMA TEMA RMA WSMA TRIMA HMA LinReg (SWMA in both residue classes makes 13) counted on the pinned tree
DECIDED_FLOOR_ALL = 14
# methods the property itself exempts, with the configuration that makes them cumulative (C08: "windowless Integral / ADI")
EXEMPT_CUMULATIVE = {'Integral': 'length 0: the documented cumulative (windowless) integral'}


def _float(ty):
    return ty in ('f64', 'f32')


def _param_value(kind, r):
    """the length parameter in residue class r: n = MOD*k + r"""
    wlin.INT_SYMS.add('k')
    return K(RF.const(MOD) * RF.sym('k') + RF.const(r), True)


def _apply_assumptions(run_assume):
    """turn the `rf == 0` assumptions that are linear in one symbol into substitutions; returns (subst list, infeasible?)"""
    subst = []
    for kind, rf in run_assume:
        if kind != 'eq0':
            continue
        for s, v in subst:
            rf = rf.subst(s, v)
        n = rf.n
        syms = wlin.p_syms(n)
        if not n:
            continue
        if not syms:
            return subst, True            # a non-zero constant assumed to be zero
        if len(syms) == 1:
            s = next(iter(syms))
            lin = all(m == () or m == ((s, 1),) for m in n)
            if lin:
                a = n.get(((s, 1),), 0)
                b = n.get((), 0)
                v = -b / a
                if s in wlin.INT_SYMS and (v.denominator != 1 or v < 0):
                    return subst, True    # no non-negative integer solution
                subst.append((s, v))
                continue
        subst.append(None)
    ok_subst = [x for x in subst if x is not None]
    undecidable = any(x is None for x in subst)
    # disequalities contradicted by the substitutions
    for kind, rf in run_assume:
        if kind != 'ne0':
            continue
        for s, v in ok_subst:
            rf = rf.subst(s, v)
        if rf.is_zero():
            return ok_subst, True
    return ok_subst, ('undecidable' if undecidable else False)


def _sub(rf, subst):
    for s, v in subst:
        rf = rf.subst(s, v)
    return rf


def _concrete_witness(rfs, subst, assume=()):
    """the rational functions mention symbols of lossy narrowing casts: find a length at which a cast really loses bits and evaluate
    everything there (k and every wrap symbol get their concrete values); returns (k, values) or None"""
    syms = set()
    for x in rfs:
        syms |= wlin.p_syms(x.n) | wlin.p_syms(x.d)
    extra = syms - {'k'}
    if not extra or any(s not in wlin.LOSSY for s in extra):
        return None
    fixed_k = next((v for s, v in subst if s == 'k'), None)
    ks = [int(fixed_k)] if fixed_k is not None else range(wlin.PARAM_RANGE['kmin'], wlin.PARAM_RANGE['kmax'] + 1)
    for k in ks:
        env = {'k': k}
        lossy_here = False
        for s in extra:
            poly, bits = wlin.LOSSY[s]
            x = wlin.p_eval(poly.n, {'k': k}) if poly.n else 0
            env[s] = int(x) % (1 << bits)
            if env[s] != x:
                lossy_here = True
        if not lossy_here:
            continue
        # the witness must be a length this very path accepts: every configuration test the constructor and next() made holds there
        ok = True
        for kind, rf in assume:
            try:
                dd = wlin.p_eval(rf.d, env)
                if dd == 0:
                    ok = False
                    break
                val = wlin.p_eval(rf.n, env) / dd
            except KeyError:
                ok = False
                break
            if (kind == 'eq0' and val != 0) or (kind == 'ne0' and val == 0) or (kind == 'gt0' and not val > 0) or (kind == 'ge0' and not val >= 0):
                ok = False
                break
        if not ok:
            continue
        try:
            vals = []
            for x in rfs:
                d = wlin.p_eval(x.d, env)
                if d == 0:
                    vals.append(None)
                else:
                    vals.append(wlin.p_eval(x.n, env) / d)
            return k, vals
        except (KeyError, ZeroDivisionError):
            return None
    return None


LAST_WITNESS = {}


def _compare_over_range(aw, bw, ac, bc, subst, assume):
    fixed_k = next((v for s_, v in subst if s_ == 'k'), None)
    ks = [int(fixed_k)] if fixed_k is not None else range(wlin.PARAM_RANGE['kmin'], wlin.PARAM_RANGE['kmax'] + 1)
    if len(ks) > 70000:
        return None
    checked = 0
    for k in ks:
        ok = True
        for kind, rf in assume:
            val = wlin.eval_rf(_sub(rf, subst), k)
            if val is None:
                ok = None
                break
            if (kind == 'eq0' and val != 0) or (kind == 'ne0' and val == 0) or (kind == 'gt0' and not val > 0) or (kind == 'ge0' and not val >= 0):
                ok = False
                break
        if ok is None:
            return None
        if not ok:
            continue
        vals = [wlin.eval_rf(x, k) for x in (aw, bw, ac, bc)]
        if any(v is None for v in vals):
            return None
        checked += 1
        if vals[0] != vals[1] or vals[2] != vals[3]:
            LAST_WITNESS['k'] = k
            return False
    return True if checked else None


def _same(a, b, subst, assume=()):
    if is_top(a) or is_top(b) or not isinstance(a, Aff) or not isinstance(b, Aff):
        return None
    try:
        if a.lin != b.lin:
            return False
        aw, bw, ac, bc = _sub(a.w, subst), _sub(b.w, subst), _sub(a.c, subst), _sub(b.c, subst)
        if aw.eq(bw) and ac.eq(bc):
            return True
        # a decided inequality must not rest on an uninterpreted symbol (sqrt, floor, ...): those may well be equal for every length
        syms = set()
        for x in (aw, bw, ac, bc):
            syms |= wlin.p_syms(x.n) | wlin.p_syms(x.d)
        if syms <= {'k'}:
            return False
        # the difference itself may be free of them (they cancel): 3 - 1, k/(k+1) - 1, ...
        dw, dc = aw - bw, ac - bc
        if (dw.n and wlin.p_syms(dw.n) <= {'k'}) or (dc.n and wlin.p_syms(dc.n) <= {'k'}):
            return False
        wit = _concrete_witness([aw, bw, ac, bc], subst, assume)
        if wit is not None:
            k, (x1, x2, y1, y2) = wit
            if x1 != x2 or y1 != y2:
                return False
        # the length parameter has finitely many values: evaluate both sides (every symbol from its definition) at each accepted one
        return _compare_over_range(aw, bw, ac, bc, subst, assume)
    except Abstain:
        return None


def _show(a, subst):
    if isinstance(a, Aff):
        try:
            return repr(Aff(a.lin, _sub(a.w, subst), _sub(a.c, subst)))
        except Abstain:
            pass
    return repr(a)


class Verdict:
    def __init__(self, adt):
        self.adt = adt
        self.status = 'undecided'
        self.reason = ''
        self.paths = 0
        self.proved_paths = 0
        self.wrong = []          # (description, line)
        self.exempt = []
        self.detail = {}


def analyse(m, impl, is_ma):
    f = m.f
    adt = m.adt_path_of_impl(impl)
    v = Verdict(adt)
    new_p = m.impl_fn_path(impl, 'new')
    next_p = m.impl_fn_path(impl, 'next')
    nb = m.body(new_p) if new_p else None
    xb = m.body(next_p) if next_p else None
    if nb is None or xb is None:
        v.reason = 'no body'
        return v
    ptys = [nb.local_ty(1), nb.local_ty(2)]
    if not ptys[0] in ('u8', 'u16', 'u32', 'u64'):
        v.reason = 'parameter type %s is not the period type' % ptys[0]
        return v
    all_ok = True
    pmax = {'u8': 255, 'u16': 65535}.get(ptys[0], 65535)
    for r in range(MOD):
        wlin.PARAM_RANGE['kmin'] = 0 if r else 1
        wlin.PARAM_RANGE['kmax'] = (pmax - r) // MOD
        try:
            def mk_new():
                box = {'v': Aff(True, ONE, ZERO)}
                return [_param_value(None, r), Ref(box, 'v')]
            states = []
            for run, args, res in explore(f, nb, mk_new):
                if isinstance(res, Obj) and res.variant == 'Ok':
                    sub, infeasible = _apply_assumptions(run.assume)
                    if infeasible is True:
                        continue
                    if run.data_dependent:
                        raise Abstain('constructor branches on the value')
                    states.append((run, res.f.get('0', TOP)))
                elif isinstance(res, Obj) and res.variant == 'Err':
                    continue
                else:
                    raise Abstain('constructor returns an untracked value')
            if not states:
                continue          # no accepted length in this residue class
            for crun, s0 in states:
                if not isinstance(s0, Obj):
                    raise Abstain('constructed value is not tracked')
                tops = [p for p, x in leaves(s0) if is_top(x)]
                key0 = '%s n=%dk+%d' % (adt.rsplit('::', 1)[-1], MOD, r)
                v.detail[key0] = {'/'.join(p): repr(x) for p, x in leaves(s0)}

                def mk_next(s0=s0):
                    st = copy.deepcopy(s0)
                    box = {'s': st, 'x': Aff(True, ONE, ZERO)}
                    return [Ref(box, 's'), Ref(box, 'x')]
                for run, args, out in explore(f, xb, mk_next):
                    sub, infeasible = _apply_assumptions(crun.assume + run.assume)
                    if infeasible is True:
                        continue
                    v.paths += 1
                    s1 = args[0].get()
                    problems = []
                    unknown = []
                    # output
                    want = Aff(True, ONE, ZERO)
                    if is_ma:
                        same = _same(out, want, sub, crun.assume + run.assume)
                        if same is None:
                            unknown.append('output')
                        elif not same:
                            problems.append('next() returns %r, a moving average must return coefficient sum 1 and offset 0' % (out,))
                    elif is_top(out) or not isinstance(out, Aff):
                        unknown.append('output')
                    l0 = dict(leaves(s0))
                    l1 = dict(leaves(s1))
                    for p in sorted(set(l0) | set(l1)):
                        a, b = l0.get(p, TOP), l1.get(p, TOP)
                        if isinstance(a, Aff) and not a.lin and isinstance(b, Aff) and not b.lin and _same(a, b, sub):
                            continue
                        same = _same(a, b, sub, crun.assume + run.assume)
                        if same is None:
                            if not (isinstance(a, wlin.Bool) or isinstance(b, wlin.Bool)):
                                unknown.append('/'.join(p))
                        elif not same:
                            problems.append('field %s: constructed as %r, %r after one step of the constant stream' % ('.'.join(p), a, b))
                    generic = not run.data_dependent and infeasible is False
                    if problems and generic:
                        # confirm on the output: replay the same decisions for further steps of the constant stream
                        outs = [out]
                        st = s1
                        try:
                            for _ in range(3):
                                box = {'s': copy.deepcopy(st), 'x': Aff(True, ONE, ZERO)}
                                rr = wlin.Run(f, run.script)
                                o2 = rr.call_fn(xb, [Ref(box, 's'), Ref(box, 'x')])
                                outs.append(o2)
                                st = box['s']
                        except Abstain:
                            pass
                        bad = None
                        for i, o in enumerate(outs):
                            if is_ma:
                                sm = _same(o, want, sub, crun.assume + run.assume)
                                if sm is False:
                                    bad = 'step %d of a constant stream returns %s instead of the constant' % (i + 1, _show(o, sub))
                                    break
                            sm = _same(o, outs[0], sub, crun.assume + run.assume)
                            if sm is False:
                                bad = 'a constant stream gives %s at step 1 and %s at step %d' % (_show(outs[0], sub), _show(o, sub), i + 1)
                                break
                        n_here = _sub(RF.const(MOD) * RF.sym('k') + RF.const(r), sub)
                        if bad and adt.rsplit('::', 1)[-1] in EXEMPT_CUMULATIVE and n_here.is_zero():
                            v.exempt.append('%s with %s' % (adt.rsplit('::', 1)[-1], EXEMPT_CUMULATIVE[adt.rsplit('::', 1)[-1]]))
                            v.proved_paths += 1
                            continue
                        if bad and LAST_WITNESS.get('k') is not None:
                            bad += ' (first length at which the two sides differ when every symbol is evaluated: %d)' % (MOD * LAST_WITNESS['k'] + r)
                        LAST_WITNESS.clear()
                        if bad:
                            cond = '' if not sub else ' (configuration with %s)' % ', '.join('%s = %s' % (s, x) for s, x in sub)
                            v.wrong.append('%s, length = %d*k + %d%s: %s; %s' % (adt.rsplit('::', 1)[-1], MOD, r, cond, bad, '; '.join(problems[:3])))
                            all_ok = False
                            continue
                        unknown.append('state not inductive, output unaffected within 4 steps')
                    if problems or unknown or run.data_dependent or infeasible == 'undecidable' or tops:
                        all_ok = False
                        if not v.reason:
                            v.reason = 'path %s: %s' % (run.script, '; '.join((problems + unknown)[:3]) or
                                                        ('data-dependent branch' if run.data_dependent else 'untracked constructor field'))
                    else:
                        v.proved_paths += 1
        except Abstain as e:
            all_ok = False
            if not v.reason:
                v.reason = str(e)
        except RecursionError:
            all_ok = False
            v.reason = 'recursion'
    if v.wrong:
        v.status = 'wrong'
    elif all_ok and v.paths:
        v.status = 'proved'
    elif v.proved_paths:
        v.status = 'partly'
    return v


def _run(ctx, which):
    m = Model(ctx.facts())
    f = m.f
    ma_types = m.types_implementing(T_MA)
    if len(ma_types) < 10:
        raise Broken('anchor: fewer than 10 types implement MovingAverage')
    title = {'C15': 'moving averages: coefficient sum 1, no stream-free term, state a fixed point of a constant stream',
             'C08': 'linear methods: the constructed state is a fixed point of the constant stream'}[which]
    res = RuleResult('L01', title)
    proved_ma = proved_all = 0
    names = []
    for impl in m.method_impls:
        adt = m.adt_path_of_impl(impl)
        if not adt:
            continue
        ity, oty = m.impl_assoc_ty(impl, 'Input'), m.impl_assoc_ty(impl, 'Output')
        is_ma = adt in ma_types
        if which == 'C15' and not is_ma:
            continue
        new_p = m.impl_fn_path(impl, 'new')
        nb = m.body(new_p) if new_p else None
        if nb is None or nb.arg_count != 2 or not _float(nb.local_ty(2).lstrip('&')):
            if which == 'C15':
                res.undecided.append('%s: input is not a single value' % adt)
            continue
        try:
            v = analyse(m, impl, is_ma)
        except Abstain as e:
            v = Verdict(adt)
            v.reason = str(e)
        short = adt.rsplit('::', 1)[-1]
        res.inst(short, nontrivial=v.status in ('proved', 'partly', 'wrong'))
        if v.status == 'wrong':
            nb_line = nb.line
            for w in v.wrong[:2]:
                res.violate('%s:%s' % (short, 'weights'), w, nb.file, nb_line)
        elif v.status == 'proved':
            proved_all += 1
            if is_ma:
                proved_ma += 1
            res.sample({'type': short, 'proved_paths': v.proved_paths, 'exempt': v.exempt, 'state': v.detail}, cap=40)
            names.append(short)
        else:
            res.undecided.append('%s: %s (%d of %d paths proved)' % (short, v.reason, v.proved_paths, v.paths))
    res.info['proved_types'] = sorted(names)
    res.info['proved'] = proved_all
    res.info['proved_moving_averages'] = proved_ma
    res.info['domain'] = 'value = linear form of the stream with configuration-only coefficients (sum w) + offset c; w, c rational functions of the length (per residue class mod %d); reals, not floats' % MOD
    if which == 'C15':
        res.floor('moving averages decided', DECIDED_FLOOR_MA, proved_ma + sum(1 for x in res.violations))
    else:
        res.floor('linear methods decided', DECIDED_FLOOR_ALL, proved_all + sum(1 for x in res.violations))
    return res


# ---------------------------------------------------------------------------------------------------------------
# L01c: the purely recursive averages the property lists as non-negative are convex updates
# ---------------------------------------------------------------------------------------------------------------
CONVEX_KINDS = ('EMA', 'DMA', 'TMA', 'RMA', 'WSMA')     # C15: "kinds whose weights are non-negative", those without a window


def _label(v, prefix=()):
    if isinstance(v, Obj):
        for k in list(v.f):
            x = v.f[k]
            if isinstance(x, Aff) and x.lin:
                v.f[k] = Aff(True, x.w, x.c, x.isint, {'/'.join(prefix + (k,)): ONE})
            else:
                _label(x, prefix + (k,))


def _holds(assume, env):
    for kind, rf in assume:
        try:
            dd = wlin.p_eval(rf.d, env)
            if dd == 0:
                return False
            val = wlin.p_eval(rf.n, env) / dd
        except KeyError:
            return False
        if (kind == 'eq0' and val != 0) or (kind == 'ne0' and val == 0) or (kind == 'gt0' and not val > 0) or (kind == 'ge0' and not val >= 0):
            return False
    return True


def _sign_for_all_lengths(rf, assume=()):
    """'nonneg' when rf >= 0 for every k in the parameter range by a certificate (after the shift k = kmin + j both numerator and
    denominator have coefficients of one sign), ('neg', k) with a witness length, or None"""
    if wlin.p_syms(rf.n) | wlin.p_syms(rf.d) - {'k'} and not (wlin.p_syms(rf.n) | wlin.p_syms(rf.d)) <= {'k'}:
        return None
    kmin, kmax = wlin.PARAM_RANGE['kmin'], wlin.PARAM_RANGE['kmax']
    shift = RF.sym('k') + RF.const(kmin)

    def shifted(poly):
        out = RF.const(0)
        for mono, c in poly.items():
            term = RF.const(c)
            for s_, e in mono:
                for _ in range(e):
                    term = term * shift
            out = out + term
        return out.n
    n2, d2 = shifted(rf.n), shifted(rf.d)
    sn = {c > 0 for c in n2.values()}
    sd = {c > 0 for c in d2.values()}
    if len(sd) == 1 and len(sn) <= 1:
        if not sn or sn == sd:
            return 'nonneg'
    for k in range(kmin, min(kmax, kmin + 4000) + 1):
        d = wlin.p_eval(rf.d, {'k': k})
        if d == 0:
            continue
        if wlin.p_eval(rf.n, {'k': k}) / d < 0:
            if not _holds(assume, {'k': k}):
                continue        # not a length this path accepts
            return ('neg', k)
    return 'nonneg' if kmax - kmin <= 4000 else None


def rule_L01_convex(ctx):
    m = Model(ctx.facts())
    f = m.f
    res = RuleResult('L01c', 'the recursive averages with non-negative weights (EMA, DMA, TMA, RMA, WSMA) update every state value and the output as a '
                             'convex combination of the input and the previous state values, for every accepted length: the output never leaves the range of the values seen')
    done = 0
    for impl in m.method_impls:
        adt = m.adt_path_of_impl(impl)
        short = adt.rsplit('::', 1)[-1] if adt else None
        if short not in CONVEX_KINDS:
            continue
        nb = m.body(m.impl_fn_path(impl, 'new'))
        xb = m.body(m.impl_fn_path(impl, 'next'))
        pmax = {'u8': 255, 'u16': 65535}.get(nb.local_ty(1), 65535)
        ok = True
        for r in range(MOD):
            wlin.PARAM_RANGE['kmin'] = 0 if r else 1
            wlin.PARAM_RANGE['kmax'] = (pmax - r) // MOD
            try:
                def mk_new():
                    box = {'v': Aff(True, ONE, ZERO)}
                    return [_param_value(None, r), Ref(box, 'v')]
                for crun, cargs, cres in explore(f, nb, mk_new):
                    if not (isinstance(cres, Obj) and cres.variant == 'Ok'):
                        continue
                    sub0, infeasible = _apply_assumptions(crun.assume)
                    if infeasible is True:
                        continue
                    s0 = cres.f.get('0')
                    if not isinstance(s0, Obj):
                        raise Abstain('constructed value is not tracked')
                    # accepted lengths of this class: upper bounds the constructor tests (WSMA: length <= MAX/2) are not modelled, the
                    # certificate is asked for the whole class, which is stronger

                    def mk_next(s0=s0):
                        st = copy.deepcopy(s0)
                        _label(st)
                        box = {'s': st, 'x': Aff(True, ONE, ZERO, False, {'input': ONE})}
                        return [Ref(box, 's'), Ref(box, 'x')]
                    for run, args, out in explore(f, xb, mk_next):
                        sub, infeasible = _apply_assumptions(crun.assume + run.assume)
                        if infeasible is True:
                            continue
                        if run.data_dependent or infeasible:
                            raise Abstain('data-dependent path')
                        targets = [('output', out)] + [('/'.join(p), x) for p, x in leaves(args[0].get()) if isinstance(x, Aff) and x.lin]
                        for name, val in targets:
                            key = '%s|%s|n=%dk+%d' % (short, name, MOD, r)
                            res.inst(key)
                            if not isinstance(val, Aff) or val.co is None:
                                raise Abstain('%s: coefficients not tracked' % name)
                            for atom, coef in sorted(val.co.items()):
                                sg = _sign_for_all_lengths(_sub(coef, sub), crun.assume + run.assume)
                                if sg is None:
                                    raise Abstain('%s: sign of the coefficient of %s not decided' % (name, atom))
                                if sg != 'nonneg':
                                    res.violate('%s|%s|%s' % (short, name, atom),
                                                '%s::next gives the %s a coefficient %s of %s that is negative at length %d: the update is not a convex '
                                                'combination, so the average can leave the range of the values it has been given' % (
                                                    short, name if name == 'output' else 'state value ' + name, coef, atom, MOD * sg[1] + r), xb.file, xb.line)
                                    ok = False
            except Abstain as e:
                res.undecided.append('%s: %s' % (short, e))
                ok = False
        if ok:
            done += 1
            res.sample({'kind': short, 'verdict': 'every coefficient of the update is non-negative for every length; with coefficient sum 1 (L01) the update is convex'})
    res.floor('convex kinds decided', 3, done + len({v.key.split('|')[0] for v in res.violations}))
    return res


# ---------------------------------------------------------------------------------------------------------------
# L04 (C03): the exponential kinds compute their documented recurrences, coefficient by coefficient
# ---------------------------------------------------------------------------------------------------------------
# kind -> (number of cascaded exponential stages, smoothing constant as a function of the length n, output as a combination of the new
# stage values e1, e2, e3). This table is the text of property C03 / of the crate's documentation, not something read off the code.
RECURRENCES = {
    'EMA': (1, lambda n: RF.const(2).div(n + ONE), lambda e: e[0]),
    'RMA': (1, lambda n: ONE.div(n), lambda e: e[0]),
    'WSMA': (1, lambda n: ONE.div(n), lambda e: e[0]),
    'DMA': (2, lambda n: RF.const(2).div(n + ONE), lambda e: e[1]),
    'TMA': (3, lambda n: RF.const(2).div(n + ONE), lambda e: e[2]),
    'DEMA': (2, lambda n: RF.const(2).div(n + ONE), lambda e: _lin_comb([(RF.const(2), e[0]), (RF.const(-1), e[1])])),
    'TEMA': (3, lambda n: RF.const(2).div(n + ONE), lambda e: _lin_comb([(RF.const(3), e[0]), (RF.const(-3), e[1]), (ONE, e[2])])),
}


def _lin_comb(terms):
    out = {}
    for c, form in terms:
        for a, v in form.items():
            out[a] = out.get(a, ZERO) + c * v
    return out


def _forms_equal(a, b, sub, assume):
    for atom in set(a) | set(b):
        x, y = _sub(a.get(atom, ZERO), sub), _sub(b.get(atom, ZERO), sub)
        if x.eq(y):
            continue
        r_ = _compare_over_range(x, y, ZERO, ZERO, sub, assume)
        if r_ is True:
            continue
        return (False if (r_ is False or (wlin.p_syms(x.n) | wlin.p_syms(x.d) | wlin.p_syms(y.n) | wlin.p_syms(y.d)) <= {'k'}) else None), atom, x, y
    return True, None, None, None


def _single_generic_decision(run):
    """the path took exactly one stream-dependent decision and it compares two affine forms that are not the same form: both outcomes
    are then taken by some stream (the set where two different linear forms agree, or are ordered either way, is not empty), so
    whatever the path computes is computed for some stream"""
    if len(run.dd) != 1 or run.dd[0][0] is None:
        return False
    op, a, b = run.dd[0][0]
    # a stream-scaled quantity (an absolute value, a product, ...) against a positive configuration constant: below and above both occur
    for x, y in ((a, b), (b, a)):
        if isinstance(x, wlin.Dim) and x.deg >= 1 and isinstance(y, Aff) and not y.lin and y.c.is_const() and y.c.const_value() > 0 \
                and op in ('Lt', 'Le', 'Gt', 'Ge'):
            return True
    if not (isinstance(a, Aff) and isinstance(b, Aff)):
        return False
    ca = a.co if a.lin else {}
    cb = b.co if b.lin else {}
    if ca is None or cb is None:
        return False
    diff = False
    for atom in set(ca) | set(cb):
        if not ca.get(atom, ZERO).eq(cb.get(atom, ZERO)):
            diff = True
    return diff and a.c.eq(b.c)


def rule_L04_recurrences(ctx):
    m = Model(ctx.facts())
    f = m.f
    res = RuleResult('L04', 'EMA, RMA, WSMA, DMA, TMA, DEMA, TEMA: one step of next() is, coefficient by coefficient and for every length, the documented recurrence '
                            '(smoothing 2/(n+1) resp. 1/n, stages cascaded, documented output combination), and new() starts every stage at the first value')
    done = 0
    for impl in m.method_impls:
        adt = m.adt_path_of_impl(impl)
        short = adt.rsplit('::', 1)[-1] if adt else None
        if short not in RECURRENCES:
            continue
        nstage, alpha_of, out_of = RECURRENCES[short]
        nb = m.body(m.impl_fn_path(impl, 'new'))
        xb = m.body(m.impl_fn_path(impl, 'next'))
        pmax = {'u8': 255, 'u16': 65535}.get(nb.local_ty(1), 65535)
        ok = True
        for r in range(MOD):
            wlin.PARAM_RANGE['kmin'] = 0 if r else 1
            wlin.PARAM_RANGE['kmax'] = (pmax - r) // MOD
            n_rf = RF.const(MOD) * RF.sym('k') + RF.const(r)
            alpha = alpha_of(n_rf)
            try:
                def mk_new():
                    box = {'v': Aff(True, ONE, ZERO, False, {'first value': ONE})}
                    return [_param_value(None, r), Ref(box, 'v')]
                for crun, cargs, cres in explore(f, nb, mk_new):
                    if not (isinstance(cres, Obj) and cres.variant == 'Ok'):
                        continue
                    sub0, infeasible = _apply_assumptions(crun.assume)
                    if infeasible is True:
                        continue
                    s0 = cres.f.get('0')
                    if not isinstance(s0, Obj):
                        raise Abstain('constructed value is not tracked')
                    stage_leaves = [('/'.join(p), x) for p, x in leaves(s0) if isinstance(x, Aff) and x.lin]
                    key0 = '%s|n=%dk+%d' % (short, MOD, r)
                    res.inst(key0 + '|new')
                    if len(stage_leaves) != nstage:
                        res.violate('%s|stages' % short, '%s::new builds %d stream-dependent state values, the documented recurrence has %d stages' % (short, len(stage_leaves), nstage), nb.file, nb.line)
                        ok = False
                        continue
                    for name, x in stage_leaves:
                        if x.co is None or set(x.co) != {'first value'} or not x.co['first value'].eq(ONE) or not x.c.is_zero():
                            res.violate('%s|new|%s' % (short, name), '%s::new starts the stage %s at %r, not at the first value' % (short, name, x), nb.file, nb.line)
                            ok = False

                    def mk_next(s0=s0):
                        st = copy.deepcopy(s0)
                        _label(st)
                        box = {'s': st, 'x': Aff(True, ONE, ZERO, False, {'input': ONE})}
                        return [Ref(box, 's'), Ref(box, 'x')]
                    for run, args, out in explore(f, xb, mk_next):
                        sub, infeasible = _apply_assumptions(crun.assume + run.assume)
                        if infeasible is True:
                            continue
                        if run.data_dependent and not _single_generic_decision(run):
                            raise Abstain('data-dependent path')
                        assume = crun.assume + run.assume
                        new = {'/'.join(p): x for p, x in leaves(args[0].get()) if isinstance(x, Aff) and x.lin}
                        if set(new) != {nm for nm, _ in stage_leaves} or any(x.co is None for x in new.values()) or not isinstance(out, Aff) or out.co is None:
                            raise Abstain('state after the step is not tracked coefficient by coefficient')
                        # order the stages by dependency: stage 1 depends on the input and itself only, stage i on stage i-1 and itself
                        names = list(new)
                        order = []
                        remaining = set(names)
                        prev_atoms = {'input'}
                        while remaining:
                            nxt = [nm for nm in remaining if {a for a, c in new[nm].co.items() if not _sub(c, sub).is_zero()} <= prev_atoms | {nm}]
                            if len(nxt) != 1:
                                res.violate('%s|cascade' % short, '%s::next does not update its stages as a cascade (stage i from the new value of stage i-1 and its own old value): '
                                            'remaining stages %s depend on %s' % (short, sorted(remaining), {nm: sorted(a for a, c in new[nm].co.items() if not _sub(c, sub).is_zero()) for nm in sorted(remaining)}),
                                            xb.file, xb.line)
                                ok = False
                                order = None
                                break
                            order.append(nxt[0])
                            remaining.discard(nxt[0])
                            prev_atoms = prev_atoms | {nxt[0]}
                        if order is None:
                            continue
                        # the documented stage values after the step, as explicit forms over the atoms
                        e = []
                        prev_form = {'input': ONE}
                        for nm in order:
                            form = _lin_comb([(alpha, prev_form), (ONE - alpha, {nm: ONE})])
                            e.append(form)
                            prev_form = form
                        for i, nm in enumerate(order):
                            res.inst('%s|stage%d' % (key0, i + 1))
                            eq, atom, x, y = _forms_equal(new[nm].co, e[i], sub, assume)
                            if eq is None:
                                raise Abstain('stage %d: coefficient of %s not decided' % (i + 1, atom))
                            if not eq or not new[nm].c.is_zero():
                                res.violate('%s|stage%d|%s' % (short, i + 1, atom), '%s::next updates stage %d (%s) with coefficient %s of %s; the documented recurrence '
                                            '(smoothing %s) gives %s' % (short, i + 1, nm, x, atom, alpha, y), xb.file, xb.line)
                                ok = False
                        res.inst(key0 + '|output')
                        eq, atom, x, y = _forms_equal(out.co, out_of(e), sub, assume)
                        if eq is None:
                            raise Abstain('output: coefficient of %s not decided' % atom)
                        if not eq or not out.c.is_zero():
                            res.violate('%s|output|%s' % (short, atom), '%s::next returns coefficient %s of %s; the documented combination of the stages gives %s' % (short, x, atom, y), xb.file, xb.line)
                            ok = False
            except Abstain as ex:
                res.undecided.append('%s: %s' % (short, ex))
                ok = False
        if ok:
            done += 1
            res.sample({'kind': short, 'stages': nstage, 'verdict': 'next() is the documented recurrence for every length; new() starts every stage at the first value'})
    res.floor('exponential kinds decided', 5, done + len({v.key.split('|')[0] for v in res.violations}))
    return res


# ---------------------------------------------------------------------------------------------------------------
# L05 (C02): single-window linear methods equal their from-scratch formula (moment invariants of the window)
# ---------------------------------------------------------------------------------------------------------------
# The window of the last n inputs is abstracted by two functionals: M0 = sum of its elements, M1 = sum of age * element (newest has age 0).
# A push of x that evicts p maps (M0, M1) to (M0 + x - p, M1 + M0 - n p). Documented value of each method after the step, as
# (coefficient of M0', of M1', of the input x, of the evicted element p); n is the length. The table is the text of property C02.
def _doc_sma(n):
    return (ONE.div(n), ZERO, ZERO, ZERO)


def _doc_wma(n):
    s_ = n * (n + ONE) * RF.const(Fraction(1, 2))
    return (n.div(s_), -ONE.div(s_), ZERO, ZERO)


def _doc_linreg(n):
    # least-squares line through (i, y_i), i = 0 (oldest) .. n-1 (newest), evaluated at the newest point
    a0 = ONE.div(n) + RF.const(3) * (n - ONE).div(n * (n + ONE))
    a1 = -RF.const(6).div(n * (n + ONE))
    return (a0, a1, ZERO, ZERO)


FROM_SCRATCH = {
    'SMA': _doc_sma,
    'WMA': _doc_wma,
    'LinReg': _doc_linreg,
    'Momentum': lambda n: (ZERO, ZERO, ONE, -ONE),
    'Derivative': lambda n: (ZERO, ZERO, ONE.div(n), -ONE.div(n)),
    'Past': lambda n: (ZERO, ZERO, ZERO, ONE),
    'Integral': lambda n: (ONE, ZERO, ZERO, ZERO),
}


def _equal_values_path(run):
    """the path's single stream-dependent decision established `entering value == leaving value`"""
    if len(run.dd) != 1 or run.dd[0][0] is None:
        return False
    op_c, ca_, cb_ = run.dd[0][0]
    truth_c = run.dd[0][1]
    if not ((op_c == 'Eq' and truth_c) or (op_c == 'Ne' and not truth_c)):
        return False
    if not (isinstance(ca_, Aff) and isinstance(cb_, Aff)) or not ca_.c.eq(cb_.c):
        return False
    fa = ca_.co if ca_.lin else {}
    fb = cb_.co if cb_.lin else {}
    if fa is None or fb is None:
        return False
    d = {}
    for k_ in set(fa) | set(fb):
        v = fa.get(k_, ZERO) - fb.get(k_, ZERO)
        if not v.is_zero():
            d[k_] = v
    return set(d) == {'input', 'popped'} and (d['input'] + d['popped']).is_zero()


def rule_L05_from_scratch(ctx):
    m = Model(ctx.facts())
    f = m.f
    res = RuleResult('L05', 'SMA, WMA, LinReg, Momentum, Derivative, Past, windowed Integral: every accumulator is, inductively, a fixed combination of the window '
                            'moments (sum, age-weighted sum), and the returned value is the documented from-scratch formula of the last n inputs, for every length')
    done = 0
    for impl in m.method_impls:
        adt = m.adt_path_of_impl(impl)
        short = adt.rsplit('::', 1)[-1] if adt else None
        if short not in FROM_SCRATCH:
            continue
        nb = m.body(m.impl_fn_path(impl, 'new'))
        xb = m.body(m.impl_fn_path(impl, 'next'))
        pmax = {'u8': 255, 'u16': 65535}.get(nb.local_ty(1), 65535)
        ok = True
        seen_inv = {}
        for r in range(MOD):
            wlin.PARAM_RANGE['kmin'] = 0 if r else 1
            wlin.PARAM_RANGE['kmax'] = (pmax - r) // MOD
            n_rf = RF.const(MOD) * RF.sym('k') + RF.const(r)
            try:
                def mk_new():
                    box = {'v': Aff(True, ONE, ZERO, False, {'first value': ONE})}
                    return [_param_value(None, r), Ref(box, 'v')]
                for crun, cargs, cres in explore(f, nb, mk_new):
                    if not (isinstance(cres, Obj) and cres.variant == 'Ok'):
                        continue
                    sub0, infeasible = _apply_assumptions(crun.assume)
                    if infeasible is True:
                        continue
                    s0 = cres.f.get('0')
                    if not isinstance(s0, Obj):
                        raise Abstain('constructed value is not tracked')
                    wins = [(p, x) for p, x in leaves_obj(s0) if isinstance(x, Obj) and x.kind == wlin.WINDOW]
                    if len(wins) != 1:
                        raise Abstain('%d windows' % len(wins))
                    wpath, win = wins[0]
                    cap = win.f.get('cap')
                    el = win.f.get('elem')
                    key0 = '%s|n=%dk+%d' % (short, MOD, r)
                    if not (isinstance(cap, Aff) and not cap.lin and isinstance(el, Aff) and el.co is not None and set(el.co) == {'first value'} and el.co['first value'].eq(ONE)):
                        raise Abstain('window is not filled with the first value')

                    def mk_next(s0=s0):
                        st = copy.deepcopy(s0)
                        _label(st)
                        box = {'s': st, 'x': Aff(True, ONE, ZERO, False, {'input': ONE})}
                        return [Ref(box, 's'), Ref(box, 'x')]
                    for run, args, out in sorted(explore(f, xb, mk_next, label_popped=True), key=lambda t: (1 if _equal_values_path(t[0]) else 0, len(t[0].dd))):
                        sub, infeasible = _apply_assumptions(crun.assume + run.assume)
                        if infeasible is True:
                            continue
                        assume = crun.assume + run.assume
                        # the windowless configuration of Integral is the documented cumulative mode, not a window method
                        capv = _sub(cap.c, sub)
                        if capv.is_zero():
                            continue
                        if run.data_dependent and not _single_generic_decision(run):
                            raise Abstain('data-dependent path')
                        if len(run.pushed) != 1 or not isinstance(run.pushed[0], Aff) or run.pushed[0].co is None or \
                                {a for a, c in run.pushed[0].co.items() if not c.is_zero()} != {'input'} or not run.pushed[0].co['input'].eq(ONE):
                            raise Abstain('the window is not pushed exactly the input once')
                        n_ = capv
                        st1 = args[0].get()
                        fields = {'/'.join(p): x for p, x in leaves(st1) if isinstance(x, Aff) and x.lin and not '/'.join(p).startswith('/'.join(wpath))}
                        old_names = {'/'.join(p) for p, x in leaves(s0) if isinstance(x, Aff) and x.lin and not '/'.join(p).startswith('/'.join(wpath))}
                        if set(fields) != old_names or any(x.co is None for x in fields.values()) or not isinstance(out, Aff) or out.co is None:
                            raise Abstain('state after the step is not tracked coefficient by coefficient')
                        # invariant of each accumulator: F = a*M0 + b*M1, read off the coefficients of the input and of the evicted element
                        # a path taken only when the entering value equals the leaving one (x == p): coefficients of x and p are then
                        # determined only up to multiples of (x - p); the invariants are those of the unconstrained paths
                        constrained = _equal_values_path(run)
                        path_bad = False
                        inv = {}
                        for nm, x in fields.items():
                            a_ = _sub(x.co.get('input', ZERO), sub)
                            e_ = _sub(x.co.get('popped', ZERO), sub)
                            b_ = -(e_ + a_).div(n_)
                            if constrained:
                                if (r, nm) not in seen_inv:
                                    raise Abstain('no unconstrained path fixes the invariant of %s' % nm)
                                a0_, b0_ = seen_inv[(r, nm)]
                                # residual of the x / p part must be a multiple of (x - p)
                                rx = a_ - a0_
                                rp = e_ + a0_ + n_ * b0_
                                if not (rx + rp).is_zero():
                                    res.violate('%s|%s|equal-values-path' % (short, nm), '%s: on the path taken when the entering value equals the leaving one the accumulator `%s` is not updated as '
                                                '%s*M0 + %s*M1 requires (the elements that stay still change their age)' % (short, nm, a0_, b0_), xb.file, xb.line)
                                    ok = False
                                    path_bad = True
                                inv[nm] = (a0_, b0_)
                                continue
                            inv[nm] = (a_, b_)
                            # every path some stream takes must maintain the SAME combination
                            first = seen_inv.setdefault((r, nm), (a_, b_))
                            if not (first[0].eq(a_) and first[1].eq(b_)):
                                res.violate('%s|%s|path-dependent' % (short, nm), '%s: on a path that some stream takes (one stream-dependent decision) the accumulator `%s` is updated as %s*M0 + %s*M1, '
                                            'on another as %s*M0 + %s*M1: it cannot stay one combination of the window contents' % (short, nm, a_, b_, first[0], first[1]), xb.file, xb.line)
                                ok = False
                        if path_bad:
                            continue
                        for nm, x in fields.items():
                            res.inst('%s|%s' % (key0, nm))
                            a_, b_ = inv[nm]
                            m0 = ZERO
                            m1 = ZERO
                            for nm2 in fields:
                                c = _sub(x.co.get(nm2, ZERO), sub)
                                m0 = m0 + c * inv[nm2][0]
                                m1 = m1 + c * inv[nm2][1]
                            want0, want1 = a_ + b_, b_
                            bad = None
                            for got, want, what in ((m0, want0, 'window sum'), (m1, want1, 'age-weighted window sum')):
                                if got.eq(want):
                                    continue
                                cr = _compare_over_range(got, want, ZERO, ZERO, sub, assume)
                                if cr is True:
                                    continue
                                if cr is None and not (wlin.p_syms(got.n) | wlin.p_syms(got.d) | wlin.p_syms(want.n) | wlin.p_syms(want.d)) <= {'k'}:
                                    raise Abstain('%s: invariant not decided' % nm)
                                bad = (what, got, want)
                            # constructor: constant prehistory v gives M0 = n v, M1 = v n (n-1) / 2
                            init = None
                            for p_, x0 in leaves(s0):
                                if '/'.join(p_) == nm:
                                    init = x0
                            w0 = a_ * n_ + b_ * n_ * (n_ - ONE) * RF.const(Fraction(1, 2))
                            if bad is None and isinstance(init, Aff) and init.co is not None:
                                got = _sub(init.co.get('first value', ZERO), sub)
                                if not got.eq(w0) and _compare_over_range(got, w0, ZERO, ZERO, sub, assume) is not True:
                                    bad = ('value the constructor gives it for a window full of the first value', got, w0)
                            if bad:
                                res.violate('%s|%s|invariant' % (short, nm), '%s: the accumulator `%s` does not stay a fixed combination of the window moments: %s is %s, the step needs %s' % (
                                    short, nm, bad[0], bad[1], bad[2]), xb.file, xb.line)
                                ok = False
                        # output in terms of (M0', M1', x, p): substitute the invariants of the NEW accumulators
                        res.inst(key0 + '|output')
                        # out.co is over the OLD atoms: old F = a M0 + b M1, and M0 = M0' - x + p, M1 = M1' - M0 + n p = M1' - M0' + x - p + n p
                        cM0 = cM1 = ZERO
                        cx = _sub(out.co.get('input', ZERO), sub)
                        cp = _sub(out.co.get('popped', ZERO), sub)
                        for nm2 in fields:
                            c = _sub(out.co.get(nm2, ZERO), sub)
                            cM0 = cM0 + c * inv[nm2][0]
                            cM1 = cM1 + c * inv[nm2][1]
                        # in new moments
                        o0 = cM0 - cM1
                        o1 = cM1
                        ox = cx - cM0 + cM1
                        op_ = cp + cM0 - cM1 + cM1 * n_
                        doc = FROM_SCRATCH[short](n_)
                        cmp_list = list(zip((o0, o1, ox, op_), doc, ('the window sum', 'the age-weighted window sum', 'the input', 'the evicted element')))
                        if constrained:
                            cmp_list = cmp_list[:2] + [(ox + op_, doc[2] + doc[3], 'the entering = leaving value')]
                        for got, want, what in cmp_list:
                            if got.eq(want):
                                continue
                            cr = _compare_over_range(got, want, ZERO, ZERO, sub, assume)
                            if cr is True:
                                continue
                            if cr is None and not (wlin.p_syms(got.n) | wlin.p_syms(got.d) | wlin.p_syms(want.n) | wlin.p_syms(want.d)) <= {'k'}:
                                raise Abstain('output: coefficient of %s not decided' % what)
                            res.violate('%s|output|%s' % (short, what.replace(' ', '-')), '%s::next returns a value whose coefficient of %s is %s; the documented from-scratch formula gives %s' % (
                                short, what, got, want), xb.file, xb.line)
                            ok = False
            except Abstain as ex:
                res.undecided.append('%s: %s' % (short, ex))
                ok = False
        if ok:
            done += 1
            res.sample({'method': short, 'verdict': 'accumulators are inductive combinations of the window moments; output = documented formula of the last n inputs, every length'})
    res.floor('window methods decided', 5, done + len({v.key.split('|')[0] for v in res.violations}))
    return res


def leaves_obj(v, prefix=()):
    """(path, Obj) for every nested object"""
    if isinstance(v, Obj):
        yield prefix, v
        for k in sorted(v.f):
            yield from leaves_obj(v.f[k], prefix + (k,))


# ---------------------------------------------------------------------------------------------------------------
# L05w (C02): TRIMA and HMA are the documented compositions of components L05 decides
# ---------------------------------------------------------------------------------------------------------------
class _CompRun(wlin.Run):
    """inner methods are opaque: Method::new(len, seed) builds an object that remembers its type, length and seed; next(inner, x) records
    what it is fed and returns a fresh atom `out<i>`"""

    def __init__(self, facts, script):
        super().__init__(facts, script)
        self.inner_new = []       # (type, length Aff, seed Aff)
        self.fed = []             # (inner index, fed Aff)
        self.top_level = True

    def call(self, c, args, depth):
        d = wlin.callee_def(c) or ''
        name = c.get('name') or d.rsplit('::', 1)[-1]
        tr = c.get('trait') or ''
        a = [x.get() if isinstance(x, Ref) else x for x in args]
        if tr.endswith('::Method') and name == 'new' and len(a) == 2:
            idx = len(self.inner_new)
            self.inner_new.append((d, a[0], a[1]))
            return Obj('std::result::Result', {'0': Obj('inner', {'idx': K(idx, True), 'ty': d})}, 'Ok')
        if tr.endswith('::Method') and name == 'next' and len(a) == 2 and isinstance(a[0], Obj) and a[0].kind == 'inner':
            idx = int(a[0].f['idx'].c.const_value())
            self.fed.append((idx, a[1]))
            return Aff(True, ONE, ZERO, False, {'out%d' % idx: ONE})
        return super().call(c, args, depth)


# kind -> list of (component type suffix, length as a function of (n RF, runner), what it is fed as {atom: coefficient}), output form
def _len_half(n, run):
    return run.floordiv(n, RF.const(2))


def _len_isqrt(n, run):
    return RF.sym(next(iter(wlin.p_syms(wlin.fresh('trunc', (wlin.fresh('sqrt', (n,), False),), True).n))))


COMPOSITIONS = {
    'TRIMA': ([('sma::SMA', lambda n, run: n, {'input': 1}), ('sma::SMA', lambda n, run: n, {'out0': 1})], {'out1': 1}),
    'HMA': ([('wma::WMA', _len_half, {'input': 1}), ('wma::WMA', lambda n, run: n, {'input': 1}), ('wma::WMA', _len_isqrt, {'out0': 2, 'out1': -1})], {'out2': 1}),
}


def rule_L05w_compositions(ctx):
    m = Model(ctx.facts())
    f = m.f
    res = RuleResult('L05w', 'TRIMA = SMA(n) of SMA(n) and HMA = WMA(floor sqrt n) of 2*WMA(n/2) - WMA(n): components of the documented kinds and lengths, all seeded with the first value, '
                             'fed and combined as documented (the components themselves are decided by L05)')
    done = 0
    for impl in m.method_impls:
        adt = m.adt_path_of_impl(impl)
        short = adt.rsplit('::', 1)[-1] if adt else None
        if short not in COMPOSITIONS:
            continue
        comps, out_form = COMPOSITIONS[short]
        nb = m.body(m.impl_fn_path(impl, 'new'))
        xb = m.body(m.impl_fn_path(impl, 'next'))
        pmax = {'u8': 255, 'u16': 65535}.get(nb.local_ty(1), 65535)
        ok = True
        for r in range(MOD):
            wlin.PARAM_RANGE['kmin'] = 0 if r else 1
            wlin.PARAM_RANGE['kmax'] = (pmax - r) // MOD
            n_rf = RF.const(MOD) * RF.sym('k') + RF.const(r)
            try:
                pending = [[]]
                while pending:
                    script = pending.pop()
                    run = _CompRun(f, script)
                    box = {'v': Aff(True, ONE, ZERO, False, {'first value': ONE})}
                    try:
                        cres = run.call_fn(nb, [_param_value(None, r), Ref(box, 'v')])
                    except wlin.PathDead:
                        cres = None
                    for i in range(len(script), len(run.script)):
                        for alt in range(1, run.branching[i]):
                            pending.append(run.script[:i] + [alt])
                    if not (isinstance(cres, Obj) and cres.variant == 'Ok' and isinstance(cres.f.get('0'), Obj)):
                        continue
                    sub, infeasible = _apply_assumptions(run.assume)
                    if infeasible is True:
                        continue
                    key0 = '%s|n=%dk+%d' % (short, MOD, r)
                    res.inst(key0 + '|new')
                    if len(run.inner_new) != len(comps):
                        res.violate('%s|components' % short, '%s::new builds %d inner methods, the documented composition has %d' % (short, len(run.inner_new), len(comps)), nb.file, nb.line)
                        ok = False
                        continue
                    for i, ((ty, ln, seed), (want_ty, want_len, _)) in enumerate(zip(run.inner_new, comps)):
                        if want_ty not in ty:
                            res.violate('%s|component%d|type' % (short, i), '%s::new builds component %d as %s, documented: %s' % (short, i, ty, want_ty), nb.file, nb.line)
                            ok = False
                        wl = want_len(n_rf, run)
                        if not (isinstance(ln, Aff) and not ln.lin):
                            raise Abstain('length of component %d not tracked' % i)
                        same = _sub(ln.c, sub).eq(_sub(wl, sub)) or _compare_over_range(_sub(ln.c, sub), _sub(wl, sub), ZERO, ZERO, sub, run.assume)
                        if same is None:
                            raise Abstain('length of component %d not decided' % i)
                        if not same:
                            res.violate('%s|component%d|length' % (short, i), '%s::new gives component %d the length %s, documented: %s' % (short, i, ln.c, wl), nb.file, nb.line)
                            ok = False
                        if not (isinstance(seed, Aff) and seed.co is not None and set(k_ for k_, v in seed.co.items() if not v.is_zero()) == {'first value'}
                                and seed.co['first value'].eq(ONE) and seed.c.is_zero()):
                            res.violate('%s|component%d|seed' % (short, i), '%s::new seeds component %d with %r, not with the first value' % (short, i, seed), nb.file, nb.line)
                            ok = False
                    # the step
                    s0 = cres.f['0']
                    pend2 = [[]]
                    while pend2:
                        sc2 = pend2.pop()
                        run2 = _CompRun(f, sc2)
                        box2 = {'s': copy.deepcopy(s0), 'x': Aff(True, ONE, ZERO, False, {'input': ONE})}
                        try:
                            out = run2.call_fn(xb, [Ref(box2, 's'), Ref(box2, 'x')])
                        except wlin.PathDead:
                            out = None
                        for i in range(len(sc2), len(run2.script)):
                            for alt in range(1, run2.branching[i]):
                                pend2.append(run2.script[:i] + [alt])
                        if out is None:
                            continue
                        res.inst(key0 + '|next')
                        if run2.data_dependent:
                            res.violate('%s|next|branch' % short, '%s::next takes a stream-dependent decision; the documented composition steps every component on every input' % short, xb.file, xb.line)
                            ok = False
                            continue
                        fed = {}
                        for idx, v in run2.fed:
                            fed.setdefault(idx, []).append(v)
                        for i, (_, _, want_fed) in enumerate(comps):
                            vs = fed.get(i, [])
                            if len(vs) != 1:
                                res.violate('%s|component%d|steps' % (short, i), '%s::next steps component %d %d times per input' % (short, i, len(vs)), xb.file, xb.line)
                                ok = False
                                continue
                            v = vs[0]
                            if not (isinstance(v, Aff) and v.co is not None):
                                raise Abstain('value fed to component %d not tracked' % i)
                            got = {k_: c_ for k_, c_ in v.co.items() if not c_.is_zero()}
                            if set(got) != set(want_fed) or any(not got[k_].eq(RF.const(want_fed[k_])) for k_ in got) or not v.c.is_zero():
                                res.violate('%s|component%d|fed' % (short, i), '%s::next feeds component %d the value %s, documented: %s' % (
                                    short, i, {k_: str(c_) for k_, c_ in got.items()}, want_fed), xb.file, xb.line)
                                ok = False
                        if not (isinstance(out, Aff) and out.co is not None):
                            raise Abstain('output not tracked')
                        got = {k_: c_ for k_, c_ in out.co.items() if not c_.is_zero()}
                        if set(got) != set(out_form) or any(not got[k_].eq(RF.const(out_form[k_])) for k_ in got) or not out.c.is_zero():
                            res.violate('%s|output' % short, '%s::next returns %s, documented: %s' % (short, {k_: str(c_) for k_, c_ in got.items()}, out_form), xb.file, xb.line)
                            ok = False
            except Abstain as ex:
                res.undecided.append('%s: %s' % (short, ex))
                ok = False
        if ok:
            done += 1
            res.sample({'kind': short, 'verdict': 'documented composition of components decided by L05'})
    res.floor('compositions decided', 1, done + len({v.key.split('|')[0] for v in res.violations}))
    return res


def rule_L03_all_methods(ctx):
    return rule_L03_dimensions(ctx, all_methods=True)


def rule_L03_dimensions(ctx, all_methods=False):
    """C15 (affine equivariance): dimensional analysis of every moving average. The stream carries the unit `price`; configuration
    quantities and literals are pure numbers. next() may compare two quantities only when they have the same dimension and the same
    behaviour under a translation of the stream (or a translation-invariant quantity with zero), and may add only quantities of the same
    dimension: a test like `movement > EPSILON` or `value + 1e-9` behaves differently for a*x + b than for x."""
    m = Model(ctx.facts())
    f = m.f
    res = RuleResult('L03m' if all_methods else 'L03', ('methods over a single value' if all_methods else 'moving averages') +
                     ' are dimensionally consistent: no comparison of a price-scaled quantity with an absolute constant, no sum of a price and a pure number')
    ma_types = m.types_implementing(T_MA)
    decided = 0
    for impl in m.method_impls:
        adt = m.adt_path_of_impl(impl)
        if not adt or (adt not in ma_types and not all_methods):
            continue
        short = adt.rsplit('::', 1)[-1]
        nb = m.body(m.impl_fn_path(impl, 'new'))
        xb = m.body(m.impl_fn_path(impl, 'next'))
        if nb is None or xb is None or nb.arg_count != 2:
            continue
        pty = nb.local_ty(1)
        if pty not in ('u8', 'u16', 'u32', 'u64'):
            res.undecided.append('%s: parameter is not the period type' % short)
            continue
        ity = nb.local_ty(2).lstrip('&')
        if not _float(ity):
            res.undecided.append('%s: input is not a single value' % short)
            continue
        res.inst(short)
        events = []
        try:
            wlin.PARAM_RANGE['kmin'], wlin.PARAM_RANGE['kmax'] = 1, {'u8': 127, 'u16': 32767}.get(pty, 32767)

            def mk_new():
                box = {'v': Aff(True, ONE, ZERO)}
                return [_param_value(None, 0), Ref(box, 'v')]
            states = []
            for crun, cargs, cres in explore(f, nb, mk_new, limit=200):
                events += [('new', e) for e in crun.dim_events]
                if isinstance(cres, Obj) and cres.variant == 'Ok' and isinstance(cres.f.get('0'), Obj):
                    states.append(cres.f['0'])
            if not states:
                raise Abstain('constructor returns no tracked state')
            for s0 in states[:3]:
                def mk_next(s0=s0):
                    box = {'s': copy.deepcopy(s0), 'x': Aff(True, ONE, ZERO)}
                    return [Ref(box, 's'), Ref(box, 'x')]
                for run, args, out in explore(f, xb, mk_next, limit=400):
                    events += [('next', e) for e in run.dim_events]
            decided += 1
        except Abstain as e:
            res.undecided.append('%s: %s' % (short, e))
        seen = set()
        for where, e in events:
            k = (where,) + tuple(str(x) for x in e[:2])
            if k in seen:
                continue
            seen.add(k)
            if e[0] == 'compare':
                msg = '%s::%s compares %s with %s (%s): the two sides do not have the same dimension / behaviour under translation, so the test comes out differently for a*x + b than for x' % (short, where, e[2], e[3], e[1])
            else:
                msg = '%s::%s adds quantities of different dimension (%s and %s)' % (short, where, e[1], e[2])
            res.violate('%s|%s|%s' % (short, where, e[0]), msg, xb.file if where == 'next' else nb.file, xb.line if where == 'next' else nb.line)
    res.floor('methods analysed', 20 if all_methods else 12, decided)
    return res


def rule_L01_c15(ctx):
    return _run(ctx, 'C15')


def rule_L01_c08(ctx):
    return _run(ctx, 'C08')
