"""Check engine: facts acquisition (driver runs, content-addressed cache), rule results,
known-findings matching, evidence and replay writing, exit codes.

Exit codes of ./check: 0 = property held on everything analysed (known findings listed),
1 = violation (a `VIOLATION property=<id> replay=<path>` line is printed),
2 = broken (an anchor the rule quantifies over is missing or an instance count fell below
its floor: the check could not analyse what it claims to analyse; never reported as VIOLATION).
"""
import hashlib
import json
import os
import subprocess
import sys
import time
from concurrent.futures import ThreadPoolExecutor

from facts import Facts

VERIF = os.path.dirname(os.path.dirname(os.path.abspath(__file__)))
REPO = os.environ.get('YATA_REPO', '/repo')
CACHE = os.path.join(VERIF, '.cache')
EVDIR = os.environ.get('YATA_EVIDENCE_DIR') or os.path.join(VERIF, 'evidence')

FEATURE_SETS = {
    'default': [],
    'nodefault': ['--no-default-features'],
    'unsafe': ['--features', 'unsafe_performance'],
    'u16': ['--features', 'period_type_u16'],
    'u32': ['--features', 'period_type_u32'],
    'u64': ['--features', 'period_type_u64'],
    'f32': ['--features', 'value_type_f32'],
    'ci': ['--features', 'value_type_f32,period_type_u64,unsafe_performance'],
}


class Broken(Exception):
    """The check cannot analyse what it claims (lost anchor, floor not met, build failure)."""


def tree_hash(repo):
    h = hashlib.sha256()
    paths = []
    for name in ('Cargo.toml', 'Cargo.lock'):
        p = os.path.join(repo, name)
        if os.path.exists(p):
            paths.append(p)
    for root, dirs, files in os.walk(os.path.join(repo, 'src')):
        dirs.sort()
        for f in sorted(files):
            paths.append(os.path.join(root, f))
    for p in paths:
        h.update(os.path.relpath(p, repo).encode())
        h.update(b'\0')
        with open(p, 'rb') as fh:
            h.update(fh.read())
        h.update(b'\0')
    drv = os.path.join(VERIF, 'driver', 'target', 'release', 'yata-facts')
    if os.path.exists(drv):
        st = os.stat(drv)
        h.update(('%d:%d' % (st.st_size, int(st.st_mtime))).encode())
    return h.hexdigest()[:24]


def _prune_cache(keep):
    """Drop cached facts of other working-tree contents: only entries unused for 40 minutes, and never the 3 most
    recent (concurrent checks against scratch copies share this cache)."""
    if not os.path.isdir(CACHE):
        return
    now = time.time()
    ents = []
    for d in os.listdir(CACHE):
        p = os.path.join(CACHE, d)
        if os.path.isdir(p) and d != keep:
            try:
                ents.append((os.path.getmtime(p), p))
            except OSError:
                pass
    ents.sort(reverse=True)
    for mt, p in ents[3:]:
        if now - mt > 2400:
            subprocess.call(['rm', '-rf', p])


_FACTS = {}


def ensure_facts(sets):
    """Run the driver (in parallel) for every requested feature set not yet cached for the
    current content of the repository working tree; returns {set: path}."""
    th = tree_hash(REPO)
    d = os.path.join(CACHE, th)
    os.makedirs(d, exist_ok=True)
    os.utime(d, None)
    _prune_cache(th)
    out = {}
    todo = []
    for s in sets:
        p = os.path.join(d, s + '.jsonl')
        out[s] = p
        if not (os.path.exists(p) and os.path.getsize(p) > 0 and _complete(p)):
            todo.append(s)

    def run(s):
        p = out[s]
        tmp = p + '.tmp.%d' % os.getpid()
        r = subprocess.run([os.path.join(VERIF, 'bin', 'facts.sh'), REPO, tmp] + FEATURE_SETS[s],
                           capture_output=True, text=True)
        if r.returncode != 0:
            if os.path.exists(tmp):
                os.remove(tmp)
            return s, r.returncode, r.stderr[-4000:]
        os.replace(tmp, p)
        return s, 0, ''

    if todo:
        with ThreadPoolExecutor(max_workers=min(8, len(todo))) as ex:
            for s, rc, err in ex.map(run, todo):
                if rc != 0:
                    raise BuildFailed(s, rc, err)
    return out


class BuildFailed(Exception):
    def __init__(self, fs, rc, err):
        super().__init__('feature set %s does not build (rc=%d)' % (fs, rc))
        self.fs, self.rc, self.err = fs, rc, err


def _complete(p):
    try:
        with open(p, 'rb') as f:
            f.seek(-16, 2)
            return b'"end"' in f.read()
    except OSError:
        return False


def facts(fs='default'):
    if fs not in _FACTS:
        p = ensure_facts([fs])[fs]
        _FACTS[fs] = Facts(p)
    return _FACTS[fs]


# ---------------------------------------------------------------------------------------


class Violation:
    def __init__(self, rule, key, msg, file=None, line=None, detail=None):
        self.rule = rule
        self.key = key          # stable, no line numbers
        self.msg = msg
        self.file = file
        self.line = line
        self.detail = detail or {}

    def where(self):
        return '%s:%s' % (self.file, self.line) if self.file else '?'


class RuleResult:
    """What one rule examined on this run."""

    def __init__(self, rule, title):
        self.rule = rule
        self.title = title
        self.instances = 0          # rule instances examined
        self.nontrivial = set()     # distinct instance keys on which the rule had something to decide
        self.violations = []
        self.samples = []
        self.floors = {}            # name -> (expected_min, found)
        self.info = {}              # free-form counts for the evidence
        self.undecided = []

    def inst(self, key, nontrivial=True):
        self.instances += 1
        if nontrivial:
            self.nontrivial.add(key)

    def sample(self, s, cap=8):
        if len(self.samples) < cap:
            self.samples.append(s)

    def violate(self, key, msg, file=None, line=None, detail=None):
        self.violations.append(Violation(self.rule, key, msg, file, line, detail))

    def floor(self, name, expected, found):
        self.floors[name] = (expected, found)

    def check_floors(self):
        bad = ['%s: expected >= %d, found %d' % (n, e, f) for n, (e, f) in self.floors.items() if f < e]
        if bad:
            raise Broken('rule %s lost its instances (%s)' % (self.rule, '; '.join(bad)))


def load_known(prop):
    """known_findings.txt lines:  finding: property=<id> rule=<rule> key=<key, may contain spaces>  # witness
                                  fixed:   property=<id> <commit> rule=<rule> key=<key>  # what failed"""
    import re
    findings, fixed = {}, []
    p = os.path.join(VERIF, 'known_findings.txt')
    if not os.path.exists(p):
        return findings, fixed
    rx = re.compile(r'^(finding|fixed):\s+property=(\S+)\s+(?:(\S+)\s+)?rule=(\S+)\s+key=(.*)$')
    for line in open(p):
        line = line.rstrip('\n')
        if not line.strip() or line.lstrip().startswith('#'):
            continue
        body, _, comment = line.partition('  # ')
        mm = rx.match(body.strip())
        if not mm:
            continue
        kind, pid, commit, rule, key = mm.groups()
        if pid != prop:
            continue
        if kind == 'finding':
            findings[(rule, key.strip())] = comment.strip()
        else:
            fixed.append((commit, rule, key.strip(), comment.strip()))
    return findings, fixed


def run_property(prop, tier, spec, replay=None):
    """spec: dict(rules=[callable(ctx)->RuleResult], explanation, not_decided, level, assumptions,
    feature_sets(tier)->list)."""
    t0 = time.time()
    ev_path = os.path.join(EVDIR, prop + '.json')
    os.makedirs(os.path.join(EVDIR, 'replay'), exist_ok=True)
    if os.path.exists(ev_path):
        os.remove(ev_path)
    seed = int(os.environ.get('VERIF_SEED', '0') or 0)
    sets = spec['feature_sets'](tier)
    try:
        try:
            ensure_facts(sets)
        except BuildFailed as e:
            if spec.get('build_failure_is_violation'):
                # a feature set that no longer type-checks (C20(a), C19) is itself the violation
                rp = write_replay(prop, 'BUILD', 'build|' + e.fs, {'feature_set': e.fs, 'stderr_tail': e.err})
                print('VIOLATION property=%s replay=%s' % (prop, rp))
                print('  [BUILD] feature set %s does not compile' % e.fs)
                write_evidence(ev_path, prop, tier, seed, spec, [], 1, [], time.time() - t0, sets,
                               note='feature set %s failed to build' % e.fs)
                return 1
            raise Broken(str(e) + '\n' + e.err)
        ctx = Ctx(tier, sets)
        results = []
        broken = []
        rules = list(spec['rules']) + (list(spec.get('rules_thorough', [])) if tier == 'thorough' else [])
        for rule in rules:
            try:
                r = rule(ctx)
                if r is None:
                    continue
                rs = r if isinstance(r, list) else [r]
                for x in rs:
                    if not x.violations:
                        x.check_floors()        # lost anchors / instance counts: broken, unless real violations are reported anyway
                    results.append(x)
            except Broken as e:
                broken.append(str(e))
        if broken and not any(x.violations for x in results):
            raise Broken('; '.join(broken))
        for bmsg in broken:
            # another rule of this property already reports a violation on this tree: the property is decided (violated);
            # the rule that could not analyse the changed code is named for diagnosis
            print('NOTE property=%s: a rule could not analyse this tree: %s' % (prop, bmsg[:300]), file=sys.stderr)
    except Broken as e:
        print('BROKEN property=%s: %s' % (prop, e), file=sys.stderr)
        return 2
    findings, _fixed = load_known(prop)
    matched = set()
    n_viol = 0
    known_lines = []
    for r in results:
        for v in r.violations:
            k = (v.rule.split('@')[0], v.key)     # rule@<feature set> of the thorough tier: the same finding
            if k in findings:
                matched.add(k)
                known_lines.append('KNOWN-FINDING: property=%s rule=%s key=%s %s [%s]' % (prop, v.rule, v.key, v.msg, v.where()))
                continue
            n_viol += 1
            rp = write_replay(prop, v.rule, v.key, {'msg': v.msg, 'file': v.file, 'line': v.line, 'detail': v.detail})
            print('VIOLATION property=%s replay=%s' % (prop, rp))
            print('  [%s] %s: %s (%s)' % (v.rule, v.key, v.msg, v.where()))
    for l in sorted(set(known_lines)):
        print(l)
    for k in findings:
        if k not in matched:
            print('STALE-FINDING property=%s rule=%s key=%s (no longer reported by the check)' % (prop, k[0], k[1]), file=sys.stderr)
    extra = None
    if tier == 'thorough' and not os.environ.get('YATA_NO_SELFTEST') and REPO == '/repo':
        extra = run_selftest_for(prop)
    write_evidence(ev_path, prop, tier, seed, spec, results, n_viol, sorted(set(known_lines)), time.time() - t0, sets, selftest=extra)
    total = sum(r.instances for r in results)
    print('%s %s: %d rule instances over %d rules, %d violations, %d known findings, %.1fs' % (
        prop, tier, total, len(results), n_viol, len(set(known_lines)), time.time() - t0))
    return 1 if n_viol else 0


def run_selftest_for(prop):
    """thorough tier: apply the self-test mutants / neutral edits written for this property to scratch copies and record whether the
    check reports them (tests the checker, does not influence the verdict on /repo)."""
    try:
        r = subprocess.run([sys.executable, os.path.join(VERIF, 'selftest', 'run.py'), '--prop', prop, '--jobs', '6', '--json'],
                           capture_output=True, text=True, timeout=3000, env=dict(os.environ, YATA_NO_SELFTEST='1'))
        line = [l for l in r.stdout.splitlines() if l.startswith('{"summary"')]
        if line:
            return json.loads(line[-1])
        return {'error': (r.stdout + r.stderr)[-400:]}
    except Exception as ex:       # the self-test is auxiliary
        return {'error': str(ex)}


def write_replay(prop, rule, key, data):
    name = hashlib.sha1(('%s|%s|%s' % (prop, rule, key)).encode()).hexdigest()[:12]
    rp = os.path.join(EVDIR, 'replay', '%s-%s-%s.json' % (prop, rule.replace('/', '_'), name))
    os.makedirs(os.path.dirname(rp), exist_ok=True)
    with open(rp, 'w') as f:
        json.dump({'property': prop, 'rule': rule, 'key': key, **data}, f, indent=1, default=str)
    return rp


def write_evidence(path, prop, tier, seed, spec, results, n_viol, known, wall, sets, note=None, selftest=None):
    samples = []
    for r in results:
        for s in r.samples[:6]:
            samples.append({'rule': r.rule, **(s if isinstance(s, dict) else {'case': s})})
    nontriv = sum(len(r.nontrivial) for r in results)
    evals = sum(r.instances for r in results)
    cov = {
        'explanation': spec['explanation'],
        'evaluations': evals,
        'distinct_nontrivial': nontriv,
        'rule': spec.get('counting_rule', 'one evaluation = one rule instance (function x field, match arm, call site, '
                         'obligation) examined in the compiler IR of the current working tree; non-trivial = the '
                         'instance carried a construct the rule had to decide (distinct keys counted)'),
        'samples': samples if samples else [{'note': note or 'no instances'}],
        'rules': [{
            'rule': r.rule, 'title': r.title, 'instances': r.instances, 'nontrivial': len(r.nontrivial),
            'violations': len(r.violations),
            'floors': {k: {'expected_min': e, 'found': f} for k, (e, f) in r.floors.items()},
            'info': r.info, 'undecided': r.undecided[:50],
        } for r in results],
        'feature_sets': sets,
        'not_decided': spec['not_decided'],
        'known_findings': known,
        'exhaustive': True,
        'repo': REPO,
    }
    if selftest is not None:
        cov['selftest'] = selftest
    if spec.get('proof_keys'):
        cov.update(spec['proof_keys'](results))
    ev = {
        'property_id': prop, 'tier': tier, 'seed': seed, 'level': spec.get('level', 'other'),
        'coverage': cov,
        'assumptions': spec.get('assumptions', []),
        'wall_s': round(wall, 2),
        'violations': n_viol,
    }
    os.makedirs(os.path.dirname(path), exist_ok=True)
    with open(path, 'w') as f:
        json.dump(ev, f, indent=1, default=str)


class FsCtx:
    """A context whose default feature set is `fs` (to run a rule written for the default build on another build)."""

    def __init__(self, ctx, fs):
        self.ctx, self.fs = ctx, fs
        self.tier, self.sets = ctx.tier, ctx.sets

    def facts(self, name='default'):
        return self.ctx.facts(self.fs if name == 'default' else name)


def on_build(rule, fs):
    """rule -> the same rule evaluated on the facts of feature set fs, reported as <rule>@<fs>"""
    def run(ctx):
        r = rule(FsCtx(ctx, fs))
        for x in (r if isinstance(r, list) else [r]):
            x.rule = '%s@%s' % (x.rule, fs)
            for v in x.violations:
                v.rule = x.rule
        return r
    run.__name__ = getattr(rule, '__name__', 'rule') + '_' + fs
    return run


class Ctx:
    def __init__(self, tier, sets):
        self.tier = tier
        self.sets = sets

    def facts(self, fs='default'):
        return facts(fs)
