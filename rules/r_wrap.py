"""C09 rules: S09 pass-through wrappers."""
from engine import RuleResult, Broken
from model import Model, T_METHOD, T_CONFIG, T_INSTANCE
from mir import Body, callee_def, callee_id, callee_is, walk_tree, tree_str
from paths import enumerate_paths, path_ends_in_return, TooManyPaths

T_SEQ = 'core::sequence::Sequence'

# Iterator adaptors / slice views that drop, reorder, duplicate or regroup elements
LOSSY = {'skip', 'take', 'step_by', 'rev', 'filter', 'filter_map', 'zip', 'chain', 'windows', 'chunks', 'chunks_exact',
         'rchunks', 'skip_while', 'take_while', 'map_while', 'flat_map', 'flatten', 'scan', 'cycle', 'nth', 'last',
         'split_at', 'split_first', 'split_last', 'split_at_mut', 'peekable', 'dedup', 'truncate', 'drain', 'retain',
         'pop', 'remove', 'swap_remove', 'reverse', 'sort', 'sort_by', 'sort_unstable', 'rotate_left', 'rotate_right',
         'get', 'get_mut', 'get_unchecked', 'inspect_err', 'fuse', 'min', 'max', 'fold', 'reduce', 'find', 'position', 'any', 'all'}

EXCLUDED_PROVIDED = {'name', 'memsize', 'validate', 'get_initial_value', 'get_initial_value_mut', 'collapse_timeframe',
                     'with_history', 'with_last_value', 'size'}


def _is_next_call(c):
    return callee_is(c, 'Method', 'next') or callee_is(c, 'IndicatorInstance', 'next') or callee_is(c, 'IndicatorInstanceDyn', 'next')


def s09_pass_through(ctx):
    f = ctx.facts('default')
    m = Model(f)
    r = RuleResult('S09', 'batch / functional wrappers are pass-throughs: no lossy adaptor or sub-slice between the input and next(), '
                          'next() stepped exactly once per element, delegation only to other wrappers, provided methods never overridden')
    wrappers = {}   # def path -> (trait short, name)
    for tp in (T_METHOD, T_SEQ, T_CONFIG, T_INSTANCE):
        tr = f.traits.get(tp)
        if tr is None:
            raise Broken('anchor trait %s missing' % tp)
        for it in tr['items']:
            if it['kind'] == 'Fn' and it['has_default'] and it['name'] not in EXCLUDED_PROVIDED:
                wrappers[it['path']] = (tp.rsplit('::', 1)[-1], it['name'])
    # the two history wrappers' next
    for adt_suffix in ('helpers::history::WithHistory', 'helpers::history::WithLastValue'):
        found = False
        for i in m.method_impls:
            if m.adt_path_of_impl(i) == adt_suffix:
                wrappers[m.impl_fn_path(i, 'next')] = (adt_suffix.rsplit('::', 1)[-1], 'next')
                found = True
        if not found:
            raise Broken('anchor %s Method impl missing' % adt_suffix)
    provided_names = {}
    for p, (t, n) in wrappers.items():
        provided_names.setdefault(t, set()).add(n)
    # closures by parent
    closures = {}
    for bid, b in f.bodies.items():
        if b['generic'] and b.get('closure_of'):
            closures.setdefault(b['closure_of'], []).append(Body(b))
    n_w = 0
    for wp in sorted(wrappers):
        tshort, name = wrappers[wp]
        gb = f.generic_body(wp)
        if gb is None:
            raise Broken('no body for wrapper %s' % wp)
        n_w += 1
        import inline as _inline
        W = Body(_inline.inlined(f, gb, 3))         # a wrapper may hand its work to a private helper: the helper's body is the wrapper's
        helper_defs = sorted({blk.get('inlined_from') for blk in W.blocks if blk.get('inlined_from')})
        bodies = [W] + closures.get(wp, []) + [cb_ for hd in helper_defs for cb_ in closures.get(hd, [])]
        key = '%s::%s' % (tshort, name)
        r.inst(key)
        next_sites = []
        deleg = []
        for b in bodies:
            for bi, t in b.calls():
                c = t['callee']
                if c.get('def') is None:
                    continue
                cname = c.get('name')
                d = callee_def(c) or ''
                if _is_next_call(c):
                    next_sites.append((b, bi, t))
                    continue
                if c['def'] in wrappers or (c.get('res') and c['res'].get('def') in wrappers):
                    deleg.append((b, bi, t))
                # delegation through a function value: `Self::new(..).map(Self::into_fn)` applies the wrapper once to the Ok / Some payload
                if cname in ('map', 'and_then') and ('result::Result' in d or 'option::Option' in d):
                    for ao in t['args'][1:]:
                        if ao.get('o') == 'const' and ao['v'].get('c') == 'fn' and ao['v'].get('def') in wrappers:
                            deleg.append((b, bi, t))
                # lossy adaptors on iterators / slices / vecs
                tr_ = c.get('trait') or ''
                is_iter = tr_.endswith('iter::Iterator') or tr_.endswith('DoubleEndedIterator') or 'slice' in d or 'vec::Vec' in d
                if cname in LOSSY and is_iter:
                    r.violate(key + '|lossy|' + cname, '%s applies `%s` between its input and next(): outputs no longer correspond one-to-one, '
                              'in order, to inputs' % (key, cname), b.file, b.term_line(bi))
                # sub-slicing: Index/IndexMut::index with a range argument
                if cname in ('index', 'index_mut') and (tr_.endswith('ops::Index') or tr_.endswith('ops::IndexMut')):
                    if any('Range' in a for a in c['args']):
                        r.violate(key + '|sub-slice', '%s takes a sub-slice (%s) of its input' % (key, c['args']), b.file, b.term_line(bi))
        if next_sites:
            if len(next_sites) != 1:
                r.violate(key + '|next-sites|%d' % len(next_sites), '%s contains %d call sites of next() (expected one)' % (key, len(next_sites)), W.file, W.line)
            for b, bi, t in next_sites:
                # exactly once on every returning path of the body that holds it
                try:
                    ps = enumerate_paths(b)
                except TooManyPaths:
                    raise Broken('too many paths in ' + b.id)
                for p in ps:
                    if not path_ends_in_return(b, p):
                        continue
                    cnt = sum(1 for x in p if x == bi)
                    on_path = sum(1 for x in p if x != 'loop' and b.blocks[x]['term']['t'] == 'call' and _is_next_call(b.blocks[x]['term']['callee']))
                    if on_path != 1 and not b.has_loop():
                        r.violate(key + '|next-count|%d' % on_path, 'a path through %s calls next() %d times (expected exactly once per element)' % (b.id, on_path), b.file, b.term_line(bi))
                        break
                # the element handed to next() is the closure's / function's own parameter
                arg = b.tree_of_operand(t['args'][1]) if len(t['args']) > 1 else None
                ok = False
                if arg is not None:
                    a = arg
                    while a[0] in ('ref', 'deref'):
                        a = a[1]
                    if a[0] == 'arg':
                        ok = True
                    elif a[0] == 'local':
                        ok = True     # loop variable of a for-loop rewrite
                    elif a[0] == 'field' and a[1][0] in ('as',):   # Some(x) payload of Iterator::next in a loop
                        ok = True
                    elif a[0] in ('index', 'cindex') or (a[0] == 'call' and (a[4].endswith('Index::index') or a[4].endswith('::get_unchecked')) and len(a[2]) == 2):
                        # element of the input sequence selected by a loop counter (`inputs[i]` in a while / index loop)
                        base = a[1] if a[0] in ('index', 'cindex') else a[2][0]
                        idx = a[2] if a[0] in ('index', 'cindex') else a[2][1]
                        rooted = any(isinstance(x, tuple) and x and x[0] == 'arg' and x[1] >= 2 for x in walk_tree(base))
                        while isinstance(idx, tuple) and idx and idx[0] in ('ref', 'deref'):
                            idx = idx[1]
                        ok = rooted and isinstance(idx, tuple) and idx[0] in ('local', 'field')
                if not ok:
                    r.violate(key + '|next-arg', 'next() is not fed the element itself but %s' % (tree_str(arg) if arg else '?'), b.file, b.term_line(bi))
                r.sample({'wrapper': key, 'kind': 'steps next() once per element', 'site': '%s:%d' % (b.file, b.term_line(bi))})
        else:
            if not deleg:
                r.violate(key + '|no-step-no-delegate', '%s neither calls next() nor delegates to another wrapper' % key, W.file, W.line)
            else:
                # every Ok-returning path delegates exactly once; the delegated sequence is the wrapper's own parameter
                for b, bi, t in deleg:
                    seq_args = [b.tree_of_operand(a) for a in t['args']]
                    own = False
                    for a in seq_args:
                        x = a
                        while x[0] in ('ref', 'deref', 'cast'):
                            x = x[1] if x[0] != 'cast' else x[2]
                        if x[0] == 'arg':
                            own = True
                    if not own and t['args']:
                        # allowed: delegating on a freshly built instance (new_fn -> into_fn, init_fn -> into_fn)
                        if not any(a[0] in ('local', 'field', 'call') or a[0] == 'ref' for a in seq_args):
                            r.violate(key + '|delegates-other-data', '%s delegates %s on data that is not its own parameter' % (key, callee_id(t['callee'])), b.file, b.term_line(bi))
                r.sample({'wrapper': key, 'kind': 'delegates', 'to': [callee_id(t['callee']) for _, _, t in deleg][:3]})
    # (4) overrides
    n_impl = 0
    for tp, short in ((T_METHOD, 'Method'), (T_CONFIG, 'IndicatorConfig'), (T_INSTANCE, 'IndicatorInstance'), (T_SEQ, 'Sequence')):
        for i in f.impls:
            if i['trait'] != tp:
                continue
            n_impl += 1
            r.inst('override|%s|%s' % (short, i['self_ty']), False)
            for it in i['items']:
                if it['kind'] == 'Fn' and it['name'] in provided_names.get(short, ()):
                    r.violate('override|%s|%s|%s' % (short, m.short(i), it['name']), '%s overrides the provided method %s::%s: its batch form needs its own '
                              'proof of agreement with next()' % (i['self_ty'], short, it['name']), i['file'], i['line'])
    r.floor('wrappers', 14, n_w)
    r.floor('impls inspected for overrides', 47 + 37 + 37, n_impl)
    r.info.update({'wrappers': sorted('%s::%s' % v for v in wrappers.values())})
    return r
