"""S08: capacity-limited monotone counters (C07, C14, C20)."""
from engine import RuleResult, Broken
from model import Model, T_METHOD, T_INSTANCE
from mir import Body, walk_tree, tree_str, self_field_of_place, callee_def

INT_BITS = {'u8': 8, 'i8': 8, 'u16': 16, 'i16': 16, 'u32': 32, 'i32': 32, 'u64': 64, 'i64': 64, 'usize': 64, 'isize': 64,
            'u128': 128, 'i128': 128}
ADD_FNS = ('saturating_add', 'wrapping_add', 'checked_add', 'overflowing_add', 'unchecked_add', 'strict_add')


def _is_self_field(t, name):
    """tree denotes self.<name> (through refs/derefs/copies)"""
    while t[0] in ('ref', 'deref'):
        t = t[1]
    if t[0] == 'field' and t[2] == name:
        b = t[1]
        while b[0] in ('ref', 'deref'):
            b = b[1]
        return b[0] == 'arg' and b[1] == 1
    return False


def _mentions_self_field(t, name):
    return any(_is_self_field(x, name) for x in walk_tree(t))


def _pos_const(t):
    return t[0] == 'const' and isinstance(t[2], int) and not isinstance(t[2], bool) and t[2] > 0


def _increment_of(t, name):
    """Is t an increment  f (+) c  of self.<name> by a positive constant?"""
    while t[0] in ('ref', 'deref'):
        t = t[1]
    if t[0] == 'field' and t[2] == '0' and t[1][0] == 'bin' and t[1][1] in ('AddWithOverflow',):
        t = t[1]
    if t[0] == 'bin' and t[1] in ('Add', 'AddWithOverflow', 'AddUnchecked'):
        a, b = t[2], t[3]
        return (_is_self_field(a, name) and _pos_const(b)) or (_is_self_field(b, name) and _pos_const(a))
    if t[0] == 'call' and any(t[4].endswith('::' + fn) for fn in ADD_FNS) and len(t[2]) == 2:
        a, b = t[2]
        return (_is_self_field(a, name) and _pos_const(b)) or (_is_self_field(b, name) and _pos_const(a))
    if t[0] == 'cast' and t[1] == 'IntToInt':
        return False
    return False


def _is_flag(t):
    """0/1 valued: cast of a bool, or product of flags"""
    while t[0] in ('ref', 'deref'):
        t = t[1]
    if t[0] == 'cast' and t[3] == 'bool':
        return True
    if t[0] == 'local' or t[0] == 'arg':
        return False
    if t[0] == 'field' and t[2] == '0' and t[1][0] == 'bin' and t[1][1] == 'MulWithOverflow':
        t = t[1]
    if t[0] == 'bin' and t[1] in ('Mul', 'MulWithOverflow', 'BitAnd'):
        return _is_flag(t[2]) and _is_flag(t[3])
    return False


def _gated_increment(t, name):
    """product of an increment of f with 0/1 flags (the branchless reset idiom)"""
    while t[0] in ('ref', 'deref'):
        t = t[1]
    if t[0] == 'field' and t[2] == '0' and t[1][0] == 'bin' and t[1][1] == 'MulWithOverflow':
        t = t[1]
    if t[0] == 'bin' and t[1] in ('Mul', 'MulWithOverflow'):
        a, b = t[2], t[3]
        for x, y in ((a, b), (b, a)):
            if _is_flag(x) and (_increment_of(y, name) or _gated_increment(y, name)):
                return True
    return False


def classify_write(tree, name):
    if _increment_of(tree, name):
        return 'increment'
    if _gated_increment(tree, name):
        return 'reset(gated-increment)'
    if not _mentions_self_field(tree, name):
        return 'reset'
    return 'other'


def step_functions(m):
    """(type short name, adt path, body of the step function, trait)"""
    out = []
    for impls, fn, tr in ((m.method_impls, 'next', 'Method'), (m.instance_impls, 'next', 'IndicatorInstance')):
        for i in impls:
            p = m.adt_path_of_impl(i)
            if p is None or p not in m.f.adts:
                continue
            b = m.body_inlined(m.impl_fn_path(i, fn))
            if b is not None:
                out.append((p.rsplit('::', 1)[-1], p, b, tr))
    return out


def _local_mut_self_callees(m, body, depth=0):
    """Bodies of crate-local callees that receive `self` (the whole &mut Self) from this body."""
    out = []
    if depth > 2:
        return out
    for bi, t in body.calls():
        c = t['callee']
        res = c.get('res')
        if not res or not res.get('local') or not t['args']:
            continue
        a0 = body.tree_of_operand(t['args'][0])
        x = a0
        while x[0] in ('ref', 'deref'):
            x = x[1]
        if x[0] == 'arg' and x[1] == 1:
            cb = m.body_by_id(res['id'])
            if cb is not None and cb.arg_count >= 1 and cb.local_ty(1).startswith('&mut'):
                out.append(cb)
                out.extend(_local_mut_self_callees(m, cb, depth + 1))
    return out


def s08_monotone_counters(ctx, only_types=None, rule_id='S08'):
    f = ctx.facts('default')
    m = Model(f)
    r = RuleResult(rule_id, 'no step function keeps an absolute stream position in an integer narrower than 64 bits '
                            '(a field that is only ever incremented)')
    nfields = 0
    targets = step_functions(m)
    # Window::push and the window iterators are step functions too
    for p, adt in f.adts.items():
        if p.endswith('core::window::Window'):
            for bid, b in f.bodies.items():
                if not b['generic'] and b['def'] == p + '::<T>::push':
                    targets.append(('Window', p, Body(b), 'inherent'))
                    break
            else:
                gb = f.generic_body(p + '::<T>::push')
                if gb:
                    targets.append(('Window', p, Body(gb), 'inherent'))
    seen_t = set()
    for short, p, body, tr in targets:
        if only_types and short not in only_types:
            continue
        if (short, tr) in seen_t:
            continue
        seen_t.add((short, tr))
        adt = f.adts[p]
        ints = [(fl['name'], fl['tyj']['n']) for v in adt['variants'] for fl in v['fields'] if fl['tyj']['t'] == 'int']
        if not ints:
            continue
        bodies = [body] + _local_mut_self_callees(m, body)
        for fname, ity in ints:
            nfields += 1
            writes = []
            for b in bodies:
                for bi, si, s in b.stmts():
                    if s['s'] != 'assign':
                        continue
                    fp = self_field_of_place(s['pl'])
                    if fp == [fname]:
                        tree = b.tree_of_rvalue(s['rv'])
                        writes.append((classify_write(tree, fname), tree, b, s['sp']['l']))
                for bi, t in b.calls():
                    fp = self_field_of_place(t['dest'])
                    if fp == [fname]:
                        tree = b.tree_of_call(t, 0, bi)
                        writes.append((classify_write(tree, fname), tree, b, b.term_line(bi)))
            key = '%s.%s' % (short, fname)
            r.inst(key, bool(writes))
            if not writes:
                continue
            kinds = [w[0] for w in writes]
            # modular arithmetic on a narrow state counter: the value silently changes meaning when the capacity is reached
            for kind_, tree_, b_, line_ in writes:
                for x in walk_tree(tree_):
                    if x[0] == 'call' and any(x[4].endswith('::' + nm) for nm in ('wrapping_add', 'wrapping_sub', 'wrapping_mul', 'overflowing_add', 'overflowing_sub')) \
                            and _mentions_self_field(x, fname) and INT_BITS.get(ity, 64) < 64:
                        r.violate(key + '|wraps-silently', 'field %s: %s is updated with %s in the step function: it wraps after 2^%d steps and every value derived from it '
                                  'changes meaning' % (key, ity, x[4].rsplit('::', 1)[-1], INT_BITS.get(ity, 64)), b_.file, line_)
                        break
            r.sample({'field': key, 'type': ity, 'writes': ['%s: %s' % (k, tree_str(t)[:90]) for k, t, _, _ in writes][:4]})
            if 'increment' in kinds and all(k == 'increment' for k in kinds):
                bits = INT_BITS.get(ity, 64)
                # an absolute position must not be narrowed on its way to a comparison: a truncating cast re-introduces the capacity limit
                for b in bodies:
                    for bi, si, s in b.stmts():
                        if s['s'] == 'assign' and s['rv']['r'] == 'cast' and s['rv']['kind'].startswith('IntToInt'):
                            src = b.tree_of_operand(s['rv']['a'])
                            if _is_self_field(src, fname) and INT_BITS.get(s['rv']['to'], 64) < bits:
                                r.violate(key + '|position-truncated|' + s['rv']['to'], 'the absolute position %s: %s is cast to %s in the step function: it wraps every 2^%d '
                                          'steps, so comparisons made with it change meaning on long streams' % (key, ity, s['rv']['to'], INT_BITS.get(s['rv']['to'], 64)), b.file, s['sp']['l'])
                if bits < 64:
                    w = writes[kinds.index('increment')]
                    r.violate(key + '|monotone-%s' % ('narrow'), 'field %s: %s is only ever incremented (%s) in the step function: after 2^%d steps it '
                              'saturates/wraps/overflows and every position computed from it changes meaning' % (key, ity, tree_str(w[1])[:80], bits),
                              w[2].file, w[3])
    r.floor('integer state fields examined', 15, nfields if not only_types else 15)
    r.info['integer_fields'] = nfields
    return r


# ---------------------------------------------------------------------------------------
# S08b: panicking increments of narrow state counters must be bounded by a comparison-guarded reset

S08B_EXCEPTIONS = {
    'ExampleInstance.last_signal_position': 'incremented only while last_signal != None, and `position > cfg.period` clears last_signal: bounded by '
                                            'cfg.period + 1; cfg.period is a private field without a set() arm (default 3)',
}


def _panicking_increment(tree, name):
    """the stored value contains `self.<name> + x` in overflow-checked arithmetic (possibly inside a product with 0/1 flags: the
    branchless `(f + 1) * keep` idiom resets by data, not by a bound on f)"""
    for t in walk_tree(tree):
        if isinstance(t, tuple) and t and t[0] == 'bin' and t[1] == 'AddWithOverflow':
            a, b = t[2], t[3]
            if (_is_self_field(a, name) and not _mentions_self_field(b, name)) or (_is_self_field(b, name) and not _mentions_self_field(a, name)):
                return True
    return False


def s08b_bounded_panicking_counters(ctx):
    f = ctx.facts('default')
    m = Model(f)
    r = RuleResult('S08b', 'a narrow (<= 16 bit) integer state field incremented with overflow-checked (panicking) arithmetic in a step function '
                           'is clamped: some comparison of that field guards a reset of it; otherwise a long enough stream panics')
    n = 0
    used = set()
    for short, p, body, tr in step_functions(m):
        adt = f.adts[p]
        ints = [(fl['name'], fl['tyj']['n']) for v in adt['variants'] for fl in v['fields'] if fl['tyj']['t'] == 'int' and INT_BITS.get(fl['tyj']['n'], 64) <= 16]
        for fname, ity in ints:
            bodies = [body] + _local_mut_self_callees(m, body)
            incs = []
            for b in bodies:
                for bi, si, s in b.stmts():
                    if s['s'] == 'assign' and self_field_of_place(s['pl']) == [fname]:
                        tree = b.tree_of_rvalue(s['rv'])
                        if _panicking_increment(tree, fname):
                            incs.append((b, bi, s['sp']['l'], tree))
            if not incs:
                continue
            n += 1
            key = '%s.%s' % (short, fname)
            r.inst(key)
            bounded = False
            for b in bodies:
                for d in range(b.n):
                    t = b.blocks[d]['term']
                    if t['t'] != 'switch':
                        continue
                    dt = b.tree_of_operand(t['discr'])
                    if not (dt[0] == 'bin' and dt[1] in ('Eq', 'Ne', 'Ge', 'Gt', 'Le', 'Lt') and _mentions_self_field(dt, fname)):
                        continue
                    for succ in b.succ(d):
                        region = b.dominated_by_edge(d, succ) | ({succ} if len(b.pred(succ)) == 1 else set())
                        for bi in region:
                            for s in b.blocks[bi]['stmts']:
                                if s['s'] == 'assign' and self_field_of_place(s['pl']) == [fname]:
                                    if classify_write(b.tree_of_rvalue(s['rv']), fname) == 'reset':
                                        bounded = True
            if bounded:
                r.sample({'field': key, 'type': ity, 'increment': tree_str(incs[0][3])[:60], 'bounded_by': 'comparison-guarded reset'})
                continue
            if key in S08B_EXCEPTIONS:
                used.add(key)
                r.sample({'field': key, 'type': ity, 'exception': S08B_EXCEPTIONS[key]})
                continue
            b, bi, line, tree = incs[0]
            r.violate(key + '|unbounded-panicking-increment', 'field %s: %s is incremented with overflow-checked arithmetic (%s) and no comparison of it guards a '
                      'reset: a stream that keeps incrementing it 2^%d times makes next() panic' % (key, ity, tree_str(tree)[:60], INT_BITS.get(ity, 64)), b.file, line)
    r.info['stale_exceptions'] = sorted(set(S08B_EXCEPTIONS) - used)
    r.floor('narrow counters with checked increments', 2, n)
    return r
