"""Roles of the private fields / private functions of the ring buffer and of the types built directly on it, inferred from the code instead of
being spelled in the rules: a rename of a private field or function (which is invisible to users when Debug / serde forms are kept) must not
change any verdict.

Window:  buf    = the only boxed-slice field
         size   = the integer field returned by len()
         cursor = the only integer field push() stores
         last   = the remaining integer field (size.saturating_sub(1) in every constructor, checked by S03 / A04)
         slot_fn = the non-public method (&self, PeriodType) -> Option<PeriodType>   (logical index -> ring slot)
iterators (WindowIterator / ReversedWindowIterator): window = the &Window field, count = the integer field returned by size_hint / len,
         cursor = the other integer field
HighestIndex / LowestIndex: window = the Window field, value = the float field, age = the integer field"""
from engine import Broken
from mir import Body
from paths import all_path_facts

W = 'core::window::Window'


def _strip(t):
    while isinstance(t, tuple) and t and t[0] in ('ref', 'deref'):
        t = t[1]
    return t


def _self_field(t):
    t = _strip(t)
    if isinstance(t, tuple) and t and t[0] == 'field':
        b = _strip(t[1])
        if isinstance(b, tuple) and b[:2] == ('arg', 1):
            return t[2]
    return None


class WindowRoles:
    def __init__(self, f):
        adt = f.adts.get(W)
        if adt is None or len(adt['variants']) != 1:
            raise Broken('anchor %s not found' % W)
        self.variant = adt['variants'][0]['name']
        fields = adt['variants'][0]['fields']
        ints = [x['name'] for x in fields if x['tyj'].get('t') == 'int']
        bufs = [x['name'] for x in fields if x['tyj'].get('t') == 'adt' and x['tyj'].get('def', '').endswith('boxed::Box')
                and x['tyj'].get('args') and x['tyj']['args'][0].get('t') == 'slice']
        if len(bufs) != 1 or len(ints) != 3 or len(fields) != 4:
            raise Broken('Window is no longer (boxed slice, three PeriodType integers): fields %s' % [x['name'] for x in fields])
        self.buf = bufs[0]
        self.period_ty = next(x['tyj']['n'] for x in fields if x['tyj'].get('t') == 'int')
        lb = f.generic_body(W + '::<T>::len')
        if lb is None:
            raise Broken('anchor Window::len not found')
        import inline
        rets = {_self_field(pf.ret) for pf in all_path_facts(Body(inline.inlined(f, lb, 2))) if pf.returns}
        if len(rets) != 1 or None in rets or next(iter(rets)) not in ints:
            raise Broken('Window::len does not return one integer field (%s)' % sorted(map(str, rets)))
        self.size = next(iter(rets))
        pb = f.generic_body(W + '::<T>::push')
        if pb is None:
            raise Broken('anchor Window::push not found')
        b = Body(inline.inlined(f, pb, 3))
        stored = set()
        from mir import self_field_of_place
        for bi, si, s in b.stmts():
            if s['s'] == 'assign':
                fp = self_field_of_place(s['pl'])
                if fp and len(fp) == 1 and fp[0] in ints:
                    stored.add(fp[0])
        for bi in range(b.n):
            t = b.blocks[bi]['term']
            if t['t'] == 'call':
                fp = self_field_of_place(t['dest'])
                if fp and len(fp) == 1 and fp[0] in ints:
                    stored.add(fp[0])
        stored.discard(self.size)
        if len(stored) != 1:
            raise Broken('Window::push stores %s integer fields besides the size (expected exactly the cursor)' % sorted(stored))
        self.cursor = next(iter(stored))
        self.last = next(x for x in ints if x not in (self.size, self.cursor))
        # index -> slot mapping: a non-public function (method of Window or free function of its module) taking (&Window<T>, PeriodType) and
        # returning Option<PeriodType>
        cands = []
        for p, fn in f.fns.items():
            if fn.get('vis') != 'pub' and fn.get('has_body') and p.startswith('core::window'):
                sig = fn.get('sig', '')
                args_ = sig.split('fn(', 1)[-1].rsplit(') ->', 1)[0]
                if ('-> std::option::Option<%s>' % self.period_ty) in sig and args_.count(',') == 1 and args_.endswith(', %s' % self.period_ty) \
                        and 'core::window::Window<T>' in args_.split(',')[0]:
                    cands.append(p)
        if len(cands) > 1:
            # a wrapper that only reaches another candidate is not the mapping itself: keep the candidates that call no other candidate
            def calls_other(p_):
                gb = f.generic_body(p_)
                return gb is not None and any((t['callee'].get('def') or '') in {o for o in cands if o != p_} for _, t in Body(gb).calls())
            leaves = [p_ for p_ in cands if not calls_other(p_)]
            if len(leaves) == 1:
                cands = leaves
        if len(cands) != 1:
            raise Broken('index -> slot mapping of Window not identified (candidates: %s)' % cands)
        self.slot_fn_path = cands[0]
        self.slot_fn = cands[0].rsplit('::', 1)[-1]
        self.slot_fn_is_method = cands[0].startswith(W + '::<T>::')
        # iterators
        self.iters = {}
        for p, a in f.adts.items():
            if len(a['variants']) != 1:
                continue
            fl = a['variants'][0]['fields']
            wrefs = [x['name'] for x in fl if x['tyj'].get('t') == 'ref' and x['tyj']['to'].get('t') == 'adt' and x['tyj']['to'].get('def') == W]
            its = [x['name'] for x in fl if x['tyj'].get('t') == 'int']
            if len(wrefs) == 1 and len(its) == 2 and len(fl) == 3 and p.startswith('core::window::'):
                count = None
                for i in f.impls:
                    if i['trait'] == 'std::iter::Iterator' and i['self_tyj'].get('def') == p:
                        shp = [it['path'] for it in i['items'] if it['name'] == 'size_hint']
                        if shp:
                            hb = f.generic_body(shp[0])
                            if hb is not None:
                                for pf in all_path_facts(Body(inline.inlined(f, hb, 2))):
                                    if pf.returns and pf.ret and pf.ret[0] == 'agg' and pf.ret[1] == 'tuple':
                                        x = _strip(pf.ret[3][0])
                                        while isinstance(x, tuple) and x and x[0] == 'cast':
                                            x = _strip(x[2])
                                        nm = _self_field(x)
                                        if nm in its:
                                            count = nm
                if count is None:
                    raise Broken('remaining-count field of %s not identified' % p)
                self.iters[p] = {'window': wrefs[0], 'count': count, 'cursor': next(x for x in its if x != count), 'variant': a['variants'][0]['name']}

    def index_method(self, f, adt_path):
        """roles of the fields of HighestIndex / LowestIndex: (window, age, value)"""
        a = f.adts.get(adt_path)
        if a is None or len(a['variants']) != 1:
            return None
        fl = a['variants'][0]['fields']
        ws = [x['name'] for x in fl if x['tyj'].get('t') == 'adt' and x['tyj'].get('def') == W]
        its = [x['name'] for x in fl if x['tyj'].get('t') == 'int']
        fls = [x['name'] for x in fl if x['tyj'].get('t') == 'float']
        if len(ws) == 1 and len(its) == 1 and len(fls) == 1 and len(fl) == 3:
            return {'window': ws[0], 'age': its[0], 'value': fls[0]}
        return None


_cache = {}


def window_roles(f):
    k = id(f)
    if k not in _cache:
        _cache[k] = WindowRoles(f)
    return _cache[k]
