"""C04 / C14 rules: S04 mirror siblings (HIR canonical trees under a declared swap map), S05 mixed float equivalences."""
import json
import re

from engine import RuleResult, Broken
from model import Model
from mir import Body, walk_tree, tree_str, callee_def


def canon(e, names=None):
    """Canonical HIR tree: locals alpha-renamed in first-use order, no lines/types, assert-message literals dropped."""
    if names is None:
        names = {}

    def nm(n):
        if n not in names:
            names[n] = 'v%d' % len(names)
        return names[n]

    def go(x):
        if isinstance(x, list):
            return [go(y) for y in x]
        if not isinstance(x, dict):
            return x
        k = x.get('e')
        if k == 'lit' and x.get('kind') == 'str' and x.get('m'):
            return {'e': 'lit', 'kind': 'str', 'v': 'MSG'}
        if k == 'path' and x.get('res') == 'local':
            return {'e': 'local', 'n': nm(x['name'])}
        if x.get('p') == 'bind':
            return {'p': 'bind', 'n': nm(x['name']), 'by_ref': x.get('by_ref'), 'sub': go(x.get('sub'))}
        if k == 'closure':
            return {'e': 'closure', 'params': go(x['params']), 'body': go(x['body'])}
        if k == 'struct' and isinstance(x.get('fields'), list) and not _has_assignment(x['fields']):
            # the order in which a struct literal lists its fields is not behaviour (initialisers without assignments): sort by field name
            x = dict(x)
            x['fields'] = sorted(x['fields'], key=lambda fl: str(fl.get('name')) if isinstance(fl, dict) else '')
        out = {}
        if k == 'bin' and x.get('op') in ('Ge', 'Le', 'Gt', 'Lt'):
            fl = 'f' if any(t in (x.get('aty') or '') for t in ('f64', 'f32')) else 'i'
            x = dict(x)
            x['op'] = x['op'] + ':' + fl
        for kk, v in x.items():
            if kk in ('l', 'm', 'ty', 'aty', 'recv_ty', 'base_ty', 'scrut_ty', 'from', 'unsafe', 'id', 'local'):
                continue
            if kk == 'resolved':
                out[kk] = v.get('def') if isinstance(v, dict) else v
                continue
            out[kk] = go(v)
        return out
    return go(e)


def _has_assignment(x):
    if isinstance(x, list):
        return any(_has_assignment(y) for y in x)
    if isinstance(x, dict):
        if x.get('e') in ('assign', 'assign_op'):
            return True
        return any(_has_assignment(v) for v in x.values())
    return False


def swap_tokens(tree, pairs):
    m = {}
    for a, b in pairs:
        m[a] = b
        m[b] = a
    # identifiers are swapped segment-wise (`search_highest` <-> `search_lowest`, `max_index` <-> `min_index`), except
    #  * `max_by` / `min_by` (and *_by_key): Iterator::max_by keeps the LAST maximum while min_by keeps the FIRST minimum, they are not
    #    mirror images with respect to ties;
    #  * identifiers naming both sides at once (`highest_lowest`, the module): they denote the pair, not one side.
    ident = re.compile(r'[A-Za-z_][A-Za-z0-9_]*')
    multi = sorted((k for k in m if '_' in k or ':' in k), key=len, reverse=True)

    def swap_ident(mm):
        w = mm.group(0)
        if w in m:
            return m[w]
        if re.search(r'(^|_)(max|min)_by(_|$)', w):
            return w
        segs = w.split('_')
        for a, b in pairs:
            if a in segs and b in segs:
                return w
        return '_'.join(m.get(sg, sg) for sg in segs)

    class _Rx:
        @staticmethod
        def sub(fn_unused, text):
            # multi-part keys (containing '_' or ':') first, as whole tokens; then identifier segments
            for k in multi:
                if k in text:
                    text = re.sub(r'(?<![A-Za-z0-9_])' + re.escape(k) + r'(?![A-Za-z0-9_])', '\x00' + str(multi.index(k)) + '\x00', text)
            text = ident.sub(swap_ident, text)
            for i, k in enumerate(multi):
                text = text.replace('\x00%d\x00' % i, m[k])
            return text
    rx = _Rx()

    def go(x):
        if isinstance(x, list):
            return [go(y) for y in x]
        if isinstance(x, dict):
            return {k: go(v) for k, v in x.items()}
        if isinstance(x, str):
            return rx.sub(lambda mm: m[mm.group(1)], x)
        return x
    return go(tree)


def first_diff(a, b, path=''):
    if type(a) != type(b):
        return path, a, b
    if isinstance(a, dict):
        for k in sorted(set(a) | set(b)):
            if k not in a or k not in b:
                return path + '/' + k, a.get(k), b.get(k)
            d = first_diff(a[k], b[k], path + '/' + k)
            if d:
                return d
        return None
    if isinstance(a, list):
        if len(a) != len(b):
            return path + '/len', len(a), len(b)
        for i, (x, y) in enumerate(zip(a, b)):
            d = first_diff(x, y, path + '/%d' % i)
            if d:
                return d
        return None
    return None if a == b else (path, a, b)


ORDER = [('Ge:f', 'Le:f'), ('Gt:f', 'Lt:f'), ('max', 'min')]
# side words in the names of private helpers and fields of mirror pairs (`search_highest` <-> `search_lowest`)
SIDE_WORDS = [('highest', 'lowest'), ('upper', 'lower'), ('above', 'under'), ('high', 'low'), ('maximum', 'minimum')]

# (type A, type B, extra token swaps, sentence of the property that makes them mirrors)
MIRRORS = [
    ('methods::highest_lowest::Highest', 'methods::highest_lowest::Lowest', [('Highest', 'Lowest')],
     'C04: Lowest returns the minimum exactly as Highest returns the maximum (ties, signed zeros included)'),
    ('methods::highest_lowest_index::HighestIndex', 'methods::highest_lowest_index::LowestIndex', [('HighestIndex', 'LowestIndex')],
     'C04: LowestIndex is the age of the newest minimal element as HighestIndex is of the newest maximal one'),
    ('methods::cross::CrossAbove', 'methods::cross::CrossUnder', [('CrossAbove', 'CrossUnder')],
     'C14: CrossUnder fires exactly in the mirrored case of CrossAbove'),
    ('methods::reversal::UpperReversalSignal', 'methods::reversal::LowerReversalSignal',
     [('UpperReversalSignal', 'LowerReversalSignal'), ('max_value', 'min_value'), ('max_index', 'min_index')],
     'C14: the min-side reversal detector is the mirror image of the max-side one'),
]


def s04_mirror_siblings(ctx, which=None):
    f = ctx.facts('default')
    r = RuleResult('S04', 'order-mirror siblings: the min-side implementation equals the max-side one after swapping >=/<=, >/<, max/min '
                          'and the declared names')
    npairs = 0
    for A, B, extra, why in MIRRORS:
        if which and not any(w in A for w in which):
            continue
        if A not in f.adts or B not in f.adts:
            raise Broken('mirror pair %s / %s not found' % (A, B))
        npairs += 1
        sa, sb = A.rsplit('::', 1)[-1], B.rsplit('::', 1)[-1]
        # all functions whose def path mentions the type (impl methods, inherent fns), paired by mapped path
        fa = {d: h for d, h in f.hir.items() if re.search(r'(?<![A-Za-z0-9])%s(?![A-Za-z0-9])' % re.escape(A), d)}
        fb = {d: h for d, h in f.hir.items() if re.search(r'(?<![A-Za-z0-9])%s(?![A-Za-z0-9])' % re.escape(B), d)}
        pairs = [(sa, sb)] + extra + [sp for sp in SIDE_WORDS + [('max', 'min')] if sp not in extra]
        for d, h in sorted(fa.items()):
            fname = d.rsplit('::', 1)[-1]
            if fname in ('fmt', 'clone', 'serialize', 'deserialize', 'default') or '::tests::' in d or '_serde' in d and 'Deserialize' in d:
                continue
            dm = swap_tokens(d, pairs)
            key = '%s~%s|%s' % (sa, sb, fname)
            r.inst(key)
            if dm not in fb:
                r.violate(key + '|no-sibling', '%s has no mirror sibling %s' % (d, dm), h['file'], h['line'])
                continue
            ca = swap_tokens(canon({'params': h['params'], 'body': h['body']}), ORDER + pairs)
            cb = canon({'params': fb[dm]['params'], 'body': fb[dm]['body']})
            df = first_diff(ca, cb)
            if df:
                pth, x, y = df
                r.violate(key + '|differs', '%s and %s are not mirror images (%s): at %s the max side (mirrored) has %s, the min side has %s' % (
                    d, dm, why, pth[-80:], json.dumps(x)[:80], json.dumps(y)[:80]), fb[dm]['file'], fb[dm]['line'])
            else:
                r.sample({'pair': '%s ~ %s' % (sa, sb), 'fn': fname, 'nodes': len(json.dumps(cb))})
        for d in sorted(fb):
            fname = d.rsplit('::', 1)[-1]
            if fname in ('fmt', 'clone', 'serialize', 'deserialize', 'default') or '::tests::' in d:
                continue
            if swap_tokens(d, pairs) not in fa:
                r.violate('%s~%s|%s|no-sibling' % (sa, sb, fname), '%s has no mirror sibling on the max side' % d, fb[d]['file'], fb[d]['line'])
    r.floor('mirror pairs', 2 if which else 4, npairs)
    return r


def _norm(t):
    """value tree without call-site indices, refs and derefs"""
    if not isinstance(t, tuple):
        return t
    if t and t[0] in ('ref', 'deref'):
        return _norm(t[1])
    if t and t[0] == 'call':
        return ('call', t[1], tuple(_norm(a) for a in t[2]))
    if t and t[0] == 'local':
        return ('local', t[1])
    return tuple(_norm(x) for x in t)


def s05_mixed_float_equivalence(ctx):
    f = ctx.facts('default')
    r = RuleResult('S05', 'no search compares the same pair of floats both by bit pattern and by numeric order (the two relations '
                          'disagree on +0.0 / -0.0)')
    nbits = 0
    for bid, bj in sorted(f.bodies.items()):
        if not bj['generic'] or '::tests::' in bj['def'] or 'helpers::assert_' in bj['def']:
            continue
        b = Body(bj)
        bit_pairs = []
        ord_pairs = []
        for bi, si, s in b.stmts():
            if s['s'] != 'assign':
                continue
            t = b.tree_of_rvalue(s['rv'])
            if t[0] == 'bin' and t[1] in ('Eq', 'Ne'):
                x, y = t[2], t[3]
                if x[0] == 'call' and y[0] == 'call' and x[4].endswith('::to_bits') and y[4].endswith('::to_bits'):
                    bit_pairs.append((frozenset((_norm(x[2][0]), _norm(y[2][0]))), s['sp']['l']))
            elif t[0] == 'bin' and t[1] in ('Gt', 'Lt', 'Ge', 'Le') and t[4] in ('f64', 'f32'):
                ord_pairs.append((frozenset((_norm(t[2]), _norm(t[3]))), s['sp']['l']))
        for bi, t in b.calls():
            c = t['callee']
            if c.get('name') in ('gt', 'lt', 'ge', 'le', 'partial_cmp') and (c.get('trait') or '').endswith('PartialOrd') and len(t['args']) == 2:
                if any('f64' in a or 'f32' in a for a in c['args']):
                    ord_pairs.append((frozenset((_norm(b.tree_of_operand(t['args'][0])), _norm(b.tree_of_operand(t['args'][1])))), b.term_line(bi)))
        if not bit_pairs:
            continue
        is_search = b.has_loop() or any(t['callee'].get('def') is None for _, t in b.calls()) or any(
            (callee_def(t['callee']) or '') == bj['def'] for _, t in b.calls())
        for bp, line in bit_pairs:
            nbits += 1
            key = '%s|to_bits-eq' % bj['def']
            r.inst(key + '@%d' % nbits)
            same = [l for op, l in ord_pairs if op == bp]
            r.sample({'fn': bj['def'], 'bit_equality_line': line, 'same_pair_also_ordered': bool(same), 'search': is_search})
            if same and is_search:
                r.violate(key + '|same-pair-ordered-in-search', '%s compares one pair of floats by to_bits() equality (line %d) and by numeric order '
                          '(line %d) to steer a search: for +0.0 vs -0.0 the first says "different" and the second "not greater", so the search '
                          'descends into the wrong half' % (bj['def'], line, same[0]), b.file, line)
    # (b) across the functions of one source file: where a search identifies an element by its bit pattern, no other function of the file
    #     may decide "same element" by numeric == / != on floats (0.0 == -0.0 there, but the search will not find the one for the other)
    search_files = {}
    float_eq = {}
    for bid, bj in sorted(f.bodies.items()):
        if not bj['generic'] or '::tests::' in bj['def'] or 'helpers::assert_' in bj['def']:
            continue
        b = Body(bj)
        has_bits = False
        for bi, si, s in b.stmts():
            if s['s'] != 'assign':
                continue
            t = b.tree_of_rvalue(s['rv'])
            if t[0] == 'bin' and t[1] in ('Eq', 'Ne'):
                x, y = t[2], t[3]
                if x[0] == 'call' and y[0] == 'call' and x[4].endswith('::to_bits') and y[4].endswith('::to_bits'):
                    has_bits = True
                elif s['rv'].get('a', {}).get('pl', {}).get('ty') in ('f64', 'f32') or s['rv'].get('b', {}).get('pl', {}).get('ty') in ('f64', 'f32'):
                    cst = [o for o in (s['rv'].get('a'), s['rv'].get('b')) if o and o.get('o') == 'const']
                    if not cst:     # comparing with a literal (== 0.0) is not an identity test between two elements
                        float_eq.setdefault(bj['file'], []).append((bj['def'], s['sp']['l']))
        is_search = b.has_loop() or any(t['callee'].get('def') is None for _, t in b.calls()) or any(
            (callee_def(t['callee']) or '') == bj['def'] for _, t in b.calls())
        if has_bits and is_search:
            search_files.setdefault(bj['file'], bj['def'])
    for fl, sfn in sorted(search_files.items()):
        r.inst('file|%s|bit-identity-search' % fl)
        for fn, line in float_eq.get(fl, []):
            r.violate('%s|float-eq-beside-bit-search' % fn, '%s decides whether two floats are the same value with == / != (line %d) while %s, in the same file, '
                      'finds elements by bit pattern: +0.0 and -0.0 are equal for the one and different elements for the other' % (fn, line, sfn), fl, line)
    r.floor('to_bits equality sites', 6, nbits)
    return r


# `skip` is not listed: skipping the newest element when the fold starts from it is a correct micro-optimisation
TRUNCATING_ADAPTORS = ('take', 'step_by', 'filter', 'filter_map', 'skip_while', 'take_while', 'map_while', 'nth', 'nth_back', 'chunks', 'windows',
                       'split_at', 'split_first', 'split_last')


def _loop_over_window_exits_early(b):
    """block of an edge that leaves a `for x in window.iter()`-style loop other than through the exhausted iterator (a `break` or `return`
    in the loop body): the scan then covers only a prefix of the window. None if every loop over an iterator runs to exhaustion."""
    succ = b._succ
    n = b.n
    # strongly connected components (iterative Tarjan)
    index = {}
    low = {}
    onst = set()
    st = []
    comp = {}
    counter = [0]
    for root in range(n):
        if root in index:
            continue
        work = [(root, iter(succ[root]))]
        index[root] = low[root] = counter[0]
        counter[0] += 1
        st.append(root)
        onst.add(root)
        while work:
            v, it = work[-1]
            adv = False
            for w in it:
                if w not in index:
                    index[w] = low[w] = counter[0]
                    counter[0] += 1
                    st.append(w)
                    onst.add(w)
                    work.append((w, iter(succ[w])))
                    adv = True
                    break
                elif w in onst:
                    low[v] = min(low[v], index[w])
            if adv:
                continue
            work.pop()
            if work:
                u = work[-1][0]
                low[u] = min(low[u], low[v])
            if low[v] == index[v]:
                members = []
                while True:
                    w = st.pop()
                    onst.discard(w)
                    members.append(w)
                    if w == v:
                        break
                for w in members:
                    comp[w] = v
    returns = {bi for bi in range(n) if b.blocks[bi]['term']['t'] == 'return'}
    can_return = set()
    for bi in range(n):
        if returns & (b.reachable(bi) | {bi}):
            can_return.add(bi)
    for bi, t in b.calls():
        if (t['callee'].get('name') or '') != 'next' or 'Iterator' not in ((t['callee'].get('trait') or '') + (callee_def(t['callee']) or '')):
            continue
        loop = {x for x in range(n) if comp.get(x) == comp.get(bi)}
        if len(loop) < 2:
            continue
        test_block = t.get('target')
        for u in sorted(loop):
            for v in succ[u]:
                if v in loop or v not in can_return:
                    continue        # stays in the loop, or leaves only by panicking
                if u == test_block or u == bi:
                    continue        # the exhausted-iterator exit
                return u
    return None


def s04b_full_window_scans(ctx):
    """C04: the rescans of the selection methods visit the whole window: an iterator chain that skips, truncates or filters elements cannot
    compute the extremum / its age over the last `length` inputs."""
    f = ctx.facts('default')
    m = Model(f)
    r = RuleResult('S04b', 'next() of Highest, Lowest, HighestLowestDelta, HighestIndex, LowestIndex scans its window only through complete iterations '
                           '(no take / take_while / skip_while / filter / step_by ... between window.iter() and the fold)')
    want = ('Highest', 'Lowest', 'HighestLowestDelta', 'HighestIndex', 'LowestIndex')
    n = 0
    for i in m.method_impls:
        short = m.short(i)
        if short not in want:
            continue
        b = m.body_inlined(m.impl_fn_path(i, 'next'))
        if b is None:
            raise Broken('no body for %s::next' % short)
        n += 1
        key = '%s|next' % short
        scans = 0
        bad = []
        for bi, t in b.calls():
            nm = t['callee'].get('name') or ''
            d = callee_def(t['callee']) or ''
            if d.endswith('Window::<T>::iter') or d.endswith('Window::<T>::iter_rev') or d.endswith('Window::<T>::as_slice'):
                scans += 1
            if nm in TRUNCATING_ADAPTORS and ('Iterator' in d or 'slice' in d):
                bad.append((bi, nm))
        r.inst(key, scans > 0)
        if not bad:
            early = _loop_over_window_exits_early(b)
            if early is not None:
                bad.append((early, 'break / return inside the loop'))
        if bad:
            bi, nm = bad[0]
            r.violate(key + '|partial-scan|' + nm, '%s::next passes its window scan through `%s`: elements of the window are left out of the selection' % (short, nm), b.file, b.term_line(bi))
        else:
            r.sample({'method': short, 'window scans in next()': scans, 'truncating adaptors': 0})
    r.floor('selection methods', 5, n)
    return r


def s04c_eviction_test(ctx):
    """C04: a cached extremum may be kept only after the element that just left the window was compared with it (bit equality), unless
    the new input replaced it or the window was rescanned: a must-pass-through rule on every returning path of next()."""
    from paths import all_path_facts
    f = ctx.facts('default')
    m = Model(f)
    r = RuleResult('S04c', 'Highest / Lowest / HighestLowestDelta: on every returning path of next() each cached extremum is either replaced by the input, '
                           'recomputed by a window scan, or kept after testing whether the evicted element (the value push() returned) was that extremum')
    want = {'Highest': ('value',), 'Lowest': ('value',), 'HighestLowestDelta': ('highest', 'lowest')}
    n = 0

    def strip(t):
        while isinstance(t, tuple) and t and t[0] in ('ref', 'deref'):
            t = t[1]
        return t

    def mentions_field(t, fld):
        return any(isinstance(x, tuple) and x and x[0] == 'field' and x[2] == fld and strip(x[1])[0] == 'arg' and strip(x[1])[1] == 1 for x in walk_tree(t))

    def from_push(t):
        return any(isinstance(x, tuple) and x and x[0] == 'call' and (x[4].endswith('Window::<T>::push') or ('::window::Window' in x[4] and x[4].endswith('::push'))) for x in walk_tree(t))

    def scans_window(t):
        return any(isinstance(x, tuple) and x and x[0] == 'call' and (x[4].endswith('::fold') or x[4].endswith('::max_by') or x[4].endswith('::min_by') or x[4].endswith('::reduce')) for x in walk_tree(t))

    for i in m.method_impls:
        short = m.short(i)
        if short not in want:
            continue
        b = m.body_inlined(m.impl_fn_path(i, 'next'))
        if b is None:
            raise Broken('no body for %s::next' % short)
        pfs = [pf for pf in all_path_facts(b) if pf.returns]
        for fld in want[short]:
            n += 1
            key = '%s.%s' % (short, fld)
            r.inst(key)
            bad = None
            kinds = {'replaced': 0, 'rescanned': 0, 'kept-after-eviction-test': 0}
            for pf in pfs:
                replaced = rescanned = False
                for pl, tree, line in pf.stores:
                    fp = self_field_of_place_(pl)
                    if fp == [fld]:
                        t = strip(tree)
                        if t[0] == 'arg' and t[1] >= 2:
                            replaced = True
                        elif scans_window(tree) or (t[0] in ('field', 'local') and scans_window(tree)):
                            rescanned = True
                        else:
                            rescanned = rescanned or any(scans_window(tr) for _, tr, _ in pf.calls)
                tested = False
                for d, vals, blk, allv in pf.decisions:
                    if d[0] == 'bin' and d[1] in ('Eq', 'Ne') and all(strip(x)[0] == 'call' and strip(x)[4].endswith('::to_bits') for x in (d[2], d[3])):
                        sides = (d[2], d[3])
                        if (mentions_field(sides[0], fld) and from_push(sides[1])) or (mentions_field(sides[1], fld) and from_push(sides[0])):
                            tested = True
                        # the input is bit-equal to the cached extremum: the cache is (still) the value of an element inside the window
                        is_true = (not (vals != 'otherwise' and 0 in vals)) if d[1] == 'Eq' else (vals != 'otherwise' and 0 in vals)
                        for x, y in (sides, sides[::-1]):
                            if is_true and mentions_field(x, fld) and not from_push(y) and any(isinstance(z, tuple) and z and z[0] == 'arg' and z[1] >= 2 for z in walk_tree(y)):
                                replaced = True
                if replaced:
                    kinds['replaced'] += 1
                elif rescanned:
                    kinds['rescanned'] += 1
                elif tested:
                    kinds['kept-after-eviction-test'] += 1
                else:
                    bad = pf
                    break
            if bad is not None:
                r.violate(key + '|kept-without-eviction-test', '%s::next has a path that keeps the cached `%s` without having compared the evicted element with it '
                          '(decisions on that path: %s): when the evicted element was the sole %s the cache goes stale' % (
                              short, fld, '; '.join(tree_str(d)[:40] for d, _, _, _ in bad.decisions[:4]), fld), b.file, b.line)
            else:
                r.sample({'cache': key, 'paths': kinds})
    r.floor('cached extrema', 4, n)
    return r


def self_field_of_place_(pl):
    from mir import self_field_of_place
    return self_field_of_place(pl)
