"""C16 rules: S22 manual PartialEq vs derived ordering; S04-style Buy/Sell arm symmetry is in r_mirror."""
from engine import RuleResult, Broken
from model import Model
from mir import Body, walk_tree, tree_str
from paths import all_path_facts


def _strip(t):
    while t[0] in ('ref', 'deref') or t[0] == 'cast':
        t = t[1] if t[0] != 'cast' else t[2]
    return t


def s22_eq_vs_ord(ctx):
    f = ctx.facts('default')
    m = Model(f)
    r = RuleResult('S22', 'a hand-written PartialEq next to a derived Ord/PartialOrd must call equal exactly the pairs the derived '
                          'comparison calls Equal (same variant, equal payloads)')
    manual_eq = {i['self_tyj']['def']: i for i in f.impls if i['trait'] == 'std::cmp::PartialEq' and not i['derived'] and i['self_tyj']['t'] == 'adt'
                 and i['self_tyj']['def'] in f.adts}
    derived_ord = {}
    for i in f.impls:
        if i['trait'] in ('std::cmp::Ord', 'std::cmp::PartialOrd') and i['derived'] and i['self_tyj']['t'] == 'adt':
            derived_ord.setdefault(i['self_tyj']['def'], []).append(i['trait'].rsplit('::', 1)[-1])
    n = 0
    listed = []
    for p, ei in sorted(manual_eq.items()):
        if p not in derived_ord:
            continue
        adt = f.adts[p]
        short = p.rsplit('::', 1)[-1]
        if adt['adt_kind'] != 'Enum':
            listed.append('%s: manual PartialEq + derived %s on a struct (field relation not decided here)' % (short, derived_ord[p]))
            continue
        n += 1
        names = [v['name'] for v in adt['variants']]
        nfields = {v['name']: len(v['fields']) for v in adt['variants']}
        b = m.body(m.impl_fn_path(ei, 'eq'))
        if b is None:
            raise Broken('no body for %s::eq' % short)
        for pf in all_path_facts(b):
            if not pf.returns:
                continue
            sv = ov = None
            payload_tests = []
            for d, vals, blk, allv in pf.decisions:
                if d[0] == 'discr':
                    who = _strip(d[1])
                    if who[0] == 'arg':
                        if vals == 'otherwise':
                            rest = [i for i in range(len(names)) if i not in allv]
                            v = names[rest[0]] if len(rest) == 1 else None
                        else:
                            v = names[vals[0]] if len(vals) == 1 else None
                        if who[1] == 1:
                            sv = v if v else sv
                        elif who[1] == 2:
                            ov = v if v else ov
                else:
                    payload_tests.append((tree_str(d), vals))
            ret = pf.ret
            if sv is None or ov is None:
                # a path on which one side's variant is not fixed: only `false` is consistent if the fixed sides differ
                if ret is not None and ret[0] == 'const' and ret[2] is False:
                    r.inst('%s|eq|%s-vs-%s' % (short, sv, ov), False)
                    continue
                # conservatively undecided
                r.inst('%s|eq|%s-vs-%s' % (short, sv, ov), False)
                continue
            key = '%s|eq|%s-vs-%s' % (short, sv, ov)
            r.inst(key)
            if sv != ov:
                if not (ret is not None and ret[0] == 'const' and ret[2] is False):
                    cond = ' when ' + ', '.join('%s in %s' % (a, b_) for a, b_ in payload_tests) if payload_tests else ''
                    r.violate(key + '|can-be-equal', '%s::%s == %s::%s can be true%s, but the derived ordering never calls different variants Equal: '
                              'eq and cmp disagree' % (short, sv, short, ov, cond), b.file, b.line)
            else:
                if nfields[sv] == 0:
                    if not (ret is not None and ret[0] == 'const' and ret[2] is True):
                        r.violate(key + '|not-reflexive', '%s::%s != %s::%s on some path' % (short, sv, short, ov), b.file, b.line)
                else:
                    ok = False
                    if ret is not None and ret[0] == 'bin' and ret[1] == 'Eq':
                        l, rr = _strip(ret[2]), _strip(ret[3])
                        def side(t):
                            if t[0] == 'field' and _strip(t[1])[0] == 'as':
                                base = _strip(_strip(t[1])[1])
                                return (base[1] if base[0] == 'arg' else None, _strip(t[1])[2], t[2])
                            return None
                        a, c = side(l), side(rr)
                        if a and c and {a[0], c[0]} == {1, 2} and a[1] == c[1] == sv and a[2] == c[2]:
                            ok = True
                    if ret is not None and ret[0] == 'const' and ret[2] is False and payload_tests:
                        ok = True     # e.g. a literal-payload arm that did not match
                    if not ok:
                        r.violate(key + '|payload-relation', 'same-variant comparison of %s::%s returns %s, not equality of the payloads' % (
                            short, sv, tree_str(ret) if ret else None), b.file, b.line)
                    else:
                        r.sample({'type': short, 'pair': '%s/%s' % (sv, ov), 'returns': tree_str(ret)})
    r.floor('enums with manual PartialEq and derived ordering', 1, n)
    r.info['listed_only'] = listed
    return r


# ---------------------------------------------------------------------------------------
# A05: Action conversions / operators are total, and preserve the sign of the ratio (variant-set abstract interpretation)

def _action_fns(f):
    """(label, mono body id) of every function that produces or consumes an Action in core::action"""
    out = []
    for bid, bj in sorted(f.bodies.items()):
        if bj['generic'] or bj.get('closure_of'):
            continue
        d = bj['def']
        if not (d.startswith('core::action::') or '<core::action::Action as ' in d or 'for core::action::Action>' in d or 'From<core::action::Action>' in d):
            continue
        name = d.rsplit('::', 1)[-1]
        if name in ('fmt', 'clone', 'cmp', 'partial_cmp', 'assert_fields_are_eq', 'serialize', 'deserialize', 'hash', 'expecting'):
            continue
        if '_serde' in d or '::tests::' in d:
            continue
        fn = f.fns.get(d)
        if not d.startswith('<') and not (fn and fn['vis'] == 'pub') and 'impl ' not in d:
            continue        # private helpers are reached (with their callers' guarantees) through the public functions
        out.append((d, bid))
    return out


def _instantiate_generic_option_impl(f, ty):
    """register (once) a copy of the generic body of `impl<T> From<Option<T>> for Action` with T := ty; returns its id or None"""
    import copy
    import re
    gid = None
    for bid, bj in f.bodies.items():
        if bj['generic'] and re.match(r'^G:<core::action::Action as std::convert::From<std::option::Option<(\w+)>>>::from$', bid):
            par = re.match(r'^G:<core::action::Action as std::convert::From<std::option::Option<(\w+)>>>::from$', bid).group(1)
            if par not in ('f64', 'f32', 'i8'):
                gid = (bid, par)
    if gid is None:
        return None
    bid, par = gid
    new_id = '<core::action::Action as std::convert::From<std::option::Option<%s>>>::from [instance of the generic impl]' % ty
    if new_id in f.bodies:
        return new_id
    tyj = {'t': 'float' if ty.startswith('f') else 'int', 'n': ty, 's': ty}
    pat = re.compile(r'\b%s\b' % re.escape(par))

    def sub(x):
        if isinstance(x, dict):
            if x.get('t') == 'param' and x.get('n') == par:
                return dict(tyj)
            return {k: sub(v) for k, v in x.items()}
        if isinstance(x, list):
            return [sub(v) for v in x]
        if isinstance(x, str):
            return pat.sub(ty, x)
        return x
    nb = sub(copy.deepcopy(f.bodies[bid]))
    nb['id'] = new_id
    nb['generic'] = False
    f.bodies[new_id] = nb
    return new_id


SIGN_OF_VARIANT = {'Buy': '+', 'Sell': '-', 'None': '0'}


def _expected_sub(sa, sb):
    """allowed result variants of a - b by sign of the ratio ('+' includes zero magnitude)"""
    if sa == '0' and sb == '0':
        return {'None'}
    if sb == '0':
        return {'Buy'} if sa == '+' else {'Sell'}
    if sa == '0':
        return {'Sell'} if sb == '+' else {'Buy'}
    if sa == '+' and sb == '-':
        return {'Buy'}
    if sa == '-' and sb == '+':
        return {'Sell'}
    return {'Buy', 'Sell'}


def a05_action_algebra(ctx):
    from absint import St, Budget, INF
    from absexec import Exec
    f = ctx.facts('default')
    r = RuleResult('A05', 'Action conversions and operators: total (no panic / overflow for any i8, f32, f64, Action) and sign-correct '
                          '(positive -> Buy, negative -> Sell, NaN -> None; negation swaps Buy/Sell; a - b has the sign of ratio(a) - ratio(b)) '
                          'by abstract interpretation over variant sets and intervals')
    fns = _action_fns(f)
    ACTION = 'core::action::Action'
    n = 0

    def run(bid, args_fn):
        ex = Exec(f)
        st = St()
        b = ex.body(bid)
        args = args_fn(ex, st, b)
        try:
            outs = ex.run_fn(b, st, args, [bid])
        except Budget:
            return ex, None
        return ex, outs

    def top_args(ex, st, b):
        return [ex.top_of(st, b.locals[i]['tyj']) for i in range(1, b.arg_count + 1)]

    def variants_of(ex, outs):
        vs = set()
        for s, v in outs:
            if v[0] == 'adt' and v[1] == ACTION and v[2] is not None:
                vs |= set(v[2])
            else:
                vs.add('?')
        return vs

    # (1) totality
    for d, bid in fns:
        n += 1
        ex, outs = run(bid, top_args)
        key = d
        r.inst('total|' + key)
        if outs is None:
            r.violate('total|%s|budget' % key, 'analysis budget exceeded', None, None)
            continue
        seen = set()
        for ob in ex.obligations:
            k2 = ob.key()
            if k2 in seen:
                continue
            seen.add(k2)
            r.violate('total|%s|%s' % (key, k2), '%s is not total: it can reach a %s in %s: %s [%s]' % (d, ob.kind, ob.fn, ob.detail, '; '.join(ob.operands)), ob.file, ob.line)
        if ex.undecided_callees:
            raise Broken('A05: callee without summary: %s' % sorted(ex.undecided_callees)[:3])
    # (2) sign table
    by_def = dict(fns)

    def pin_action(ex, st, variant):
        v = ex.top_of(st, {'t': 'adt', 'def': ACTION, 'args': [], 's': ACTION})
        return ('adt', v[1], frozenset([variant]), v[3])

    # Sub
    sub_id = next((bid for d, bid in fns if d.endswith('as std::ops::Sub>::sub')), None)
    neg_id = next((bid for d, bid in fns if d.endswith('as std::ops::Neg>::neg')), None)
    if sub_id is None or neg_id is None:
        raise Broken('Action Sub / Neg impl not found')
    for va in ('Buy', 'None', 'Sell'):
        for vb in ('Buy', 'None', 'Sell'):
            ex, outs = run(sub_id, lambda ex, st, b: [pin_action(ex, st, va), pin_action(ex, st, vb)])
            got = variants_of(ex, outs or [])
            want = _expected_sub(SIGN_OF_VARIANT[va], SIGN_OF_VARIANT[vb])
            key = 'sign|Sub|%s-%s' % (va, vb)
            r.inst(key)
            if not got <= want:
                r.violate(key + '|' + '+'.join(sorted(got - want)), '%s - %s can be %s, but ratio(a) - ratio(b) has the sign of %s' % (
                    va, vb, sorted(got - want), sorted(want)), f.bodies[sub_id]['file'], f.bodies[sub_id]['line'])
            else:
                r.sample({'op': '%s - %s' % (va, vb), 'result variants': sorted(got), 'allowed': sorted(want)})
    for va, want in (('Buy', {'Sell'}), ('Sell', {'Buy'}), ('None', {'None'})):
        held = {}

        def mk_neg(ex, st, b, va=va, held=held):
            v = pin_action(ex, st, va)
            if va != 'None':
                pc = st.cells[v[3][va]['0']]
                held['vid'] = pc[2] if pc[0] == 'int' else None
            return [v]
        ex, outs = run(neg_id, mk_neg)
        got = variants_of(ex, outs or [])
        r.inst('sign|Neg|' + va)
        if got != want:
            r.violate('sign|Neg|%s|%s' % (va, '+'.join(sorted(got))), '-%s gives %s (expected %s)' % (va, sorted(got), sorted(want)), f.bodies[neg_id]['file'], f.bodies[neg_id]['line'])
        elif va != 'None' and held.get('vid') is not None:
            # involution: the strength is carried over unchanged (the same value, not merely the same range)
            r.inst('sign|Neg|%s|strength' % va)
            for s_, v_ in outs or []:
                ov = next(iter(want))
                pc = s_.cells[v_[3][ov]['0']] if v_[0] == 'adt' and ov in v_[3] and '0' in v_[3][ov] else None
                if pc is None or pc[0] != 'int' or not (pc[2] == held['vid'] or ex.eval_cmp(s_, 'Eq', pc[2], held['vid']) is True):
                    r.violate('sign|Neg|%s|strength-changed' % va, '-%s(v) does not carry the strength v over unchanged: negation is not an involution' % va,
                              f.bodies[neg_id]['file'], f.bodies[neg_id]['line'])
                    break
    # conversions back: None-ness and sign follow the variant
    back = {}
    for d, bid in fns:
        if d.endswith('>::from') and 'From<core::action::Action>' in d:
            back[d] = bid
    for d, bid in sorted(back.items()):
        target = d.split(' for ')[-1].split('>::from')[0]
        for va in ('Buy', 'None', 'Sell'):
            ex, outs = run(bid, lambda ex, st, b: [pin_action(ex, st, va)])
            key = 'sign|Into<%s>|%s' % (target, va)
            r.inst(key)
            for s, v in outs or []:
                if v[0] == 'adt' and v[1] == 'std::option::Option' and v[2] is not None:
                    want = {'None'} if va == 'None' else {'Some'}
                    if not set(v[2]) <= want:
                        r.violate(key + '|' + '+'.join(sorted(set(v[2]) - want)), 'converting Action::%s into %s can give %s (a signal of strength 0 is still a signal; only '
                                  'Action::None has no ratio/sign)' % (va, target, sorted(set(v[2]) - want)), f.bodies[bid]['file'], f.bodies[bid]['line'])
                    elif 'Some' in v[2]:
                        pay = s.cells[v[3]['Some']['0']]
                        if pay[0] == 'int':
                            lo, hi = ex.rng(s, pay[2])
                            if (va == 'Buy' and lo < 0) or (va == 'Sell' and hi > 0):
                                r.violate(key + '|sign', 'the sign of Action::%s converted into %s can be %s' % (va, target, (lo, hi)), f.bodies[bid]['file'], f.bodies[bid]['line'])
                        elif pay[0] == 'float':
                            # the ratio: a number of [-1, 1] with the sign of the variant, never NaN
                            pv = ex.fview(s, pay)
                            r.inst(key + '|ratio-range')
                            eps = 1e-9
                            if pv[3] or pv[1] < -1 - eps or pv[2] > 1 + eps or (va == 'Buy' and pv[1] < -eps) or (va == 'Sell' and pv[2] > eps):
                                r.violate(key + '|ratio-range', 'the ratio of Action::%s can be %s%s: outside [-1, 1] / wrong sign' % (
                                    va, (pv[1], pv[2]), ' or NaN' if pv[3] else ''), f.bodies[bid]['file'], f.bodies[bid]['line'])
                            else:
                                r.sample({'conversion': 'Action::%s -> ratio' % va, 'range': [round(pv[1], 6), round(pv[2], 6)]})
                elif v[0] == 'int':
                    lo, hi = ex.rng(s, v[2])
                    if (va == 'Buy' and lo < 0) or (va == 'Sell' and hi > 0) or (va == 'None' and (lo, hi) != (0, 0)):
                        r.violate(key + '|sign', 'Action::%s converts into %s in [%d, %d]' % (va, target, lo, hi), f.bodies[bid]['file'], f.bodies[bid]['line'])
    # From<f64> / From<f32> / From<i8>
    FM = 1.7976931348623157e308
    for ty, pins in (('f64', (('positive', (5e-324, INF, False), {'Buy'}), ('negative', (-INF, -5e-324, False), {'Sell'}), ('NaN', None, {'None'}))),
                     ('f32', (('positive', (1e-45, INF, False), {'Buy'}), ('negative', (-INF, -1e-45, False), {'Sell'}), ('NaN', None, {'None'}))),
                     ('i8', (('positive', (1, 127), {'Buy'}), ('negative', (-128, -1), {'Sell'}), ('zero', (0, 0), {'None'})))):
        fid = next((bid for d, bid in fns if d == '<core::action::Action as std::convert::From<%s>>::from' % ty), None)
        if fid is None:
            raise Broken('From<%s> for Action not found' % ty)
        for label, pin, want in pins:
            def mk(ex, st, b, pin=pin, ty=ty):
                if ty == 'i8':
                    return [ex.mk_int(st, 'i8', pin[0], pin[1])]
                if pin is None:
                    v = ('float', float('nan'), float('nan'), True)
                    return [('float', -INF, INF, True, -1)] if False else [('nanonly',)]
                return [('float', pin[0], pin[1], False)]
            if pin is None and ty != 'i8':
                # NaN-only input: interpret with a float that IS NaN: is_nan() is true on every path
                ex = Exec(f)
                st = St()
                b = ex.body(fid)
                v = ('float', -INF, INF, True, ex.vid())
                # force the NaN branch: every is_nan test on this id is true
                ex.force_nan = v[4]
                try:
                    outs = ex.run_fn(b, st, [v], [fid])
                except Budget:
                    outs = []
            else:
                ex, outs = run(fid, mk)
            got = variants_of(ex, outs or [])
            key = 'sign|From<%s>|%s' % (ty, label)
            r.inst(key)
            if label == 'NaN':
                if 'None' not in got:
                    r.violate(key + '|' + '+'.join(sorted(got)), 'From<%s>(NaN) cannot give None (gives %s)' % (ty, sorted(got)), f.bodies[fid]['file'], f.bodies[fid]['line'])
                continue
            if not got <= want:
                r.violate(key + '|' + '+'.join(sorted(got - want)), 'From<%s> of a %s value can give %s (expected %s)' % (ty, label, sorted(got - want), sorted(want)),
                          f.bodies[fid]['file'], f.bodies[fid]['line'])
            else:
                r.sample({'conversion': 'From<%s>' % ty, 'input': label, 'result variants': sorted(got)})
    # every other function of Action that turns one i8 into an Action (from_analog and whatever is added beside it) follows the same
    # documented sign table as From<i8>: positive -> Buy, negative -> Sell, zero -> None
    for d, fid in fns:
        bj = f.bodies[fid]
        if d == '<core::action::Action as std::convert::From<i8>>::from' or bj['arg_count'] != 1:
            continue
        if bj['locals'][1]['ty'] != 'i8' or bj['locals'][0]['ty'] != 'core::action::Action':
            continue
        short = d.rsplit('::', 1)[-1]
        for label, pin, want in (('positive', (1, 127), {'Buy'}), ('negative', (-128, -1), {'Sell'}), ('zero', (0, 0), {'None'})):
            ex, outs = run(fid, lambda ex, st, b, pin=pin: [ex.mk_int(st, 'i8', pin[0], pin[1])])
            got = variants_of(ex, outs or [])
            key = 'sign|%s(i8)|%s' % (short, label)
            r.inst(key)
            if not got or not got <= want:
                r.violate(key + '|' + '+'.join(sorted(got - want)), '%s of a %s i8 can give %s (expected %s, as From<i8> and the documentation say)' % (
                    short, label, sorted(got - want), sorted(want)), bj['file'], bj['line'])
            else:
                r.sample({'conversion': short + '(i8)', 'input': label, 'result variants': sorted(got)})
    # From<Option<X>>: None -> Action::None, Some(x) -> the sign class of x
    for ty, pins in (('f64', (('positive', ('float', 5e-324, INF, False), {'Buy'}), ('negative', ('float', -INF, -5e-324, False), {'Sell'}))),
                     ('f32', (('positive', ('float', 1e-45, INF, False), {'Buy'}), ('negative', ('float', -INF, -1e-45, False), {'Sell'}))),
                     ('i8', (('positive', (1, 127), {'Buy'}), ('negative', (-128, -1), {'Sell'}), ('zero', (0, 0), {'None'})))):
        d = '<core::action::Action as std::convert::From<std::option::Option<%s>>>::from' % ty
        fid = by_def.get(d)
        if fid is None:
            # one generic `impl<T: ..> From<Option<T>> for Action`: decided on its generic body with T instantiated by the type of the row
            fid = _instantiate_generic_option_impl(f, ty)
        if fid is None:
            continue
        cases = [('none', None, {'None'})] + [(lab, pin, want) for lab, pin, want in pins]
        for label, pin, want in cases:
            def mk(ex, st, b, pin=pin, ty=ty):
                v = ex.top_of(st, b.locals[1]['tyj'])
                if pin is None:
                    return [('adt', v[1], frozenset(['None']), v[3])]
                cell = v[3]['Some']['0']
                st.cells[cell] = ex.mk_int(st, 'i8', pin[0], pin[1]) if ty == 'i8' else pin
                return [('adt', v[1], frozenset(['Some']), v[3])]
            ex, outs = run(fid, mk)
            got = variants_of(ex, outs or [])
            key = 'sign|From<Option<%s>>|%s' % (ty, label)
            r.inst(key)
            if not got or not got <= want:
                r.violate(key + '|' + '+'.join(sorted(got - want)), 'From<Option<%s>> of %s can give %s (expected %s)' % (
                    ty, 'None' if pin is None else 'Some(%s)' % label, sorted(got - want), sorted(want)), f.bodies[fid]['file'], f.bodies[fid]['line'])
            else:
                r.sample({'conversion': 'From<Option<%s>>' % ty, 'input': label, 'result variants': sorted(got)})
    # From<bool>: true is a full buy, false is no signal
    fid = by_def.get('<core::action::Action as std::convert::From<bool>>::from')
    if fid is not None:
        for bv, want in ((1, {'Buy'}), (0, {'None'})):
            ex, outs = run(fid, lambda ex, st, b, bv=bv: [ex.mk_int(st, 'bool', bv, bv)])
            got = variants_of(ex, outs or [])
            key = 'sign|From<bool>|%s' % bool(bv)
            r.inst(key)
            if not got or not got <= want:
                r.violate(key + '|' + '+'.join(sorted(got - want)), 'From<bool>(%s) can give %s (expected %s)' % (bool(bv), sorted(got - want), sorted(want)),
                          f.bodies[fid]['file'], f.bodies[fid]['line'])
    r.floor('Action functions', 15, n)
    r.floor('Action sign-table rows', 40, sum(1 for k in r.nontrivial if k.startswith('sign|')))
    return r
