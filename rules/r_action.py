"""C16 rules: S22 manual PartialEq vs derived ordering; S04-style Buy/Sell arm symmetry is in r_mirror."""
from engine import RuleResult, Broken
from model import Model
from mir import Body, walk_tree, tree_str
from paths import all_path_facts


def _strip(t):
    while t[0] in ('ref', 'deref') or t[0] == 'cast':
        t = t[1] if t[0] != 'cast' else t[2]
    return t


def s22_eq_vs_ord(ctx):
    f = ctx.facts('default')
    m = Model(f)
    r = RuleResult('S22', 'a hand-written PartialEq next to a derived Ord/PartialOrd must call equal exactly the pairs the derived '
                          'comparison calls Equal (same variant, equal payloads)')
    manual_eq = {i['self_tyj']['def']: i for i in f.impls if i['trait'] == 'std::cmp::PartialEq' and not i['derived'] and i['self_tyj']['t'] == 'adt'
                 and i['self_tyj']['def'] in f.adts}
    derived_ord = {}
    for i in f.impls:
        if i['trait'] in ('std::cmp::Ord', 'std::cmp::PartialOrd') and i['derived'] and i['self_tyj']['t'] == 'adt':
            derived_ord.setdefault(i['self_tyj']['def'], []).append(i['trait'].rsplit('::', 1)[-1])
    n = 0
    listed = []
    for p, ei in sorted(manual_eq.items()):
        if p not in derived_ord:
            continue
        adt = f.adts[p]
        short = p.rsplit('::', 1)[-1]
        if adt['adt_kind'] != 'Enum':
            listed.append('%s: manual PartialEq + derived %s on a struct (field relation not decided here)' % (short, derived_ord[p]))
            continue
        n += 1
        names = [v['name'] for v in adt['variants']]
        nfields = {v['name']: len(v['fields']) for v in adt['variants']}
        b = m.body(m.impl_fn_path(ei, 'eq'))
        if b is None:
            raise Broken('no body for %s::eq' % short)
        for pf in all_path_facts(b):
            if not pf.returns:
                continue
            sv = ov = None
            payload_tests = []
            for d, vals, blk, allv in pf.decisions:
                if d[0] == 'discr':
                    who = _strip(d[1])
                    if who[0] == 'arg':
                        if vals == 'otherwise':
                            rest = [i for i in range(len(names)) if i not in allv]
                            v = names[rest[0]] if len(rest) == 1 else None
                        else:
                            v = names[vals[0]] if len(vals) == 1 else None
                        if who[1] == 1:
                            sv = v if v else sv
                        elif who[1] == 2:
                            ov = v if v else ov
                else:
                    payload_tests.append((tree_str(d), vals))
            ret = pf.ret
            if sv is None or ov is None:
                # a path on which one side's variant is not fixed: only `false` is consistent if the fixed sides differ
                if ret is not None and ret[0] == 'const' and ret[2] is False:
                    r.inst('%s|eq|%s-vs-%s' % (short, sv, ov), False)
                    continue
                # conservatively undecided
                r.inst('%s|eq|%s-vs-%s' % (short, sv, ov), False)
                continue
            key = '%s|eq|%s-vs-%s' % (short, sv, ov)
            r.inst(key)
            if sv != ov:
                if not (ret is not None and ret[0] == 'const' and ret[2] is False):
                    cond = ' when ' + ', '.join('%s in %s' % (a, b_) for a, b_ in payload_tests) if payload_tests else ''
                    r.violate(key + '|can-be-equal', '%s::%s == %s::%s can be true%s, but the derived ordering never calls different variants Equal: '
                              'eq and cmp disagree' % (short, sv, short, ov, cond), b.file, b.line)
            else:
                if nfields[sv] == 0:
                    if not (ret is not None and ret[0] == 'const' and ret[2] is True):
                        r.violate(key + '|not-reflexive', '%s::%s != %s::%s on some path' % (short, sv, short, ov), b.file, b.line)
                else:
                    ok = False
                    if ret is not None and ret[0] == 'bin' and ret[1] == 'Eq':
                        l, rr = _strip(ret[2]), _strip(ret[3])
                        def side(t):
                            if t[0] == 'field' and _strip(t[1])[0] == 'as':
                                base = _strip(_strip(t[1])[1])
                                return (base[1] if base[0] == 'arg' else None, _strip(t[1])[2], t[2])
                            return None
                        a, c = side(l), side(rr)
                        if a and c and {a[0], c[0]} == {1, 2} and a[1] == c[1] == sv and a[2] == c[2]:
                            ok = True
                    if ret is not None and ret[0] == 'const' and ret[2] is False and payload_tests:
                        ok = True     # e.g. a literal-payload arm that did not match
                    if not ok:
                        r.violate(key + '|payload-relation', 'same-variant comparison of %s::%s returns %s, not equality of the payloads' % (
                            short, sv, tree_str(ret) if ret else None), b.file, b.line)
                    else:
                        r.sample({'type': short, 'pair': '%s/%s' % (sv, ov), 'returns': tree_str(ret)})
    r.floor('enums with manual PartialEq and derived ordering', 1, n)
    r.info['listed_only'] = listed
    return r
