"""C01 rules: S01 iterator remaining-count discipline; S03 sibling constructors."""
from engine import RuleResult, Broken
from model import Model
from mir import Body, walk_tree, tree_str, self_field_of_place
from paths import all_path_facts


def _strip(t):
    while t[0] in ('ref', 'deref') or t[0] == 'cast':
        t = t[1] if t[0] != 'cast' else t[2]
    return t


def _self_field(t):
    """name of self.<f> if t denotes it (self by ref or by value)"""
    t = _strip(t)
    if t[0] == 'field':
        b = _strip(t[1])
        if b[0] == 'arg' and b[1] == 1:
            return t[2]
    return None


def _option_variant(ret):
    if ret is None:
        return None
    if ret[0] == 'agg' and ret[1] == 'adt' and 'option::Option' in str(ret[2]):
        return str(ret[2]).rsplit('::', 1)[-1]
    return '?'


def s01_iterator_discipline(ctx):
    f = ctx.facts('default')
    m = Model(f)
    r = RuleResult('S01', 'window iterators: remaining-count field decremented exactly once per yielded item, None exactly when it is 0, '
                          'every other Option-returning override honours exhaustion, count/len agree with size_hint')
    iters = {}
    for i in f.impls:
        if i['trait'] == 'std::iter::Iterator' and i['self_tyj']['t'] == 'adt' and i['self_tyj']['def'] in f.adts:
            iters[i['self_tyj']['def']] = i
    exact = {i['self_tyj']['def'] for i in f.impls if i['trait'] == 'std::iter::ExactSizeIterator' and i['self_tyj']['t'] == 'adt'}
    n = 0
    info_only = []
    for p, imp in sorted(iters.items()):
        if p not in exact:
            continue
        short = p.rsplit('::', 1)[-1]
        in_window = '::window::' in p
        if not in_window:
            info_only.append(short)
            continue
        n += 1
        fn = {it['name']: it['path'] for it in imp['items'] if it['kind'] == 'Fn'}
        if 'size_hint' not in fn:
            r.violate(short + '|size_hint|not-overridden', '%s is ExactSizeIterator but does not define size_hint' % short, imp['file'], imp['line'])
            continue
        sh = m.body_inlined(fn['size_hint'])
        rfield = None
        for pf in all_path_facts(sh):
            if pf.ret and pf.ret[0] == 'agg' and pf.ret[1] == 'tuple':
                lo = _self_field(pf.ret[3][0])
                hi = pf.ret[3][1]
                hi_f = None
                if hi[0] == 'agg' and str(hi[2]).endswith('Option::Some'):
                    hi_f = _self_field(hi[3][0])
                r.inst(short + '|size_hint')
                if lo is None or lo != hi_f:
                    r.violate(short + '|size_hint|shape', 'size_hint is not (r, Some(r)) of one field: %s' % tree_str(pf.ret)[:80], sh.file, sh.line)
                else:
                    rfield = lo
        if rfield is None:
            continue
        # (1)+(2) next
        nb = m.body_inlined(fn['next'])
        some_paths = none_paths = 0
        for pf in all_path_facts(nb):
            if not pf.returns:
                continue
            v = _option_variant(pf.ret)
            zero_test = None
            for d, vals, blk, allv in pf.decisions:
                if _self_field(d) == rfield and d[0] != 'bin':
                    zero_test = (vals != 'otherwise' and vals == [0])
                elif d[0] == 'bin' and d[1] in ('Eq', 'Ne') and (_self_field(d[2]) == rfield or _self_field(d[3]) == rfield):
                    other = d[3] if _self_field(d[2]) == rfield else d[2]
                    if other[0] == 'const' and other[2] == 0:
                        truth = not (vals != 'otherwise' and 0 in vals)
                        zero_test = truth if d[1] == 'Eq' else (not truth)
            decs = 0
            other_w = 0
            for pl, tree, line in pf.stores:
                fp = self_field_of_place(pl)
                if fp == [rfield]:
                    t = tree
                    if t[0] == 'field' and t[2] == '0':
                        t = t[1]
                    if t[0] == 'bin' and t[1] in ('Sub', 'SubWithOverflow', 'SubUnchecked') and _self_field(t[2]) == rfield and t[3][0] == 'const' and t[3][2] == 1:
                        decs += 1
                    else:
                        other_w += 1
            key = '%s|next|%s' % (short, v)
            r.inst(key)
            if v == 'Some':
                some_paths += 1
                if decs != 1 or other_w:
                    r.violate(key + '|decrement-count|%d' % decs, 'a path of %s::next yielding an item decrements `%s` %d times (%d other writes): '
                              'size_hint/count/len drift from the number of items still to come' % (short, rfield, decs, other_w), nb.file, nb.line)
                if zero_test is not False:
                    r.violate(key + '|some-when-exhausted', '%s::next can yield an item without having tested `%s != 0`' % (short, rfield), nb.file, nb.line)
            elif v == 'None':
                none_paths += 1
                if decs or other_w:
                    r.violate(key + '|write-on-none', '%s::next modifies `%s` on a path returning None' % (short, rfield), nb.file, nb.line)
                if zero_test is not True:
                    r.violate(key + '|none-while-items-remain', '%s::next returns None on a path where `%s == 0` was not established' % (short, rfield), nb.file, nb.line)
            else:
                r.violate(key + '|undecided', 'cannot classify a return of %s::next: %s' % (short, tree_str(pf.ret)[:60] if pf.ret else None), nb.file, nb.line)
        if not some_paths or not none_paths:
            r.violate(short + '|next|missing-paths', '%s::next has %d yielding and %d exhausted paths' % (short, some_paths, none_paths), nb.file, nb.line)
        r.sample({'iterator': short, 'remaining_field': rfield, 'next_paths': {'Some': some_paths, 'None': none_paths}})
        _exact_len_agrees(f, m, r, p, short, rfield)
        # (3) other overrides returning Option<Item>
        for name, pth in sorted(fn.items()):
            if name in ('next', 'size_hint'):
                continue
            b = m.body_inlined(pth)
            sig = f.fns.get(pth, {}).get('sig', '')
            if 'Option<' in sig.split('->')[-1]:
                tested = False
                bad_some = False
                for pf in all_path_facts(b):
                    if not pf.returns:
                        continue
                    zero_test = None
                    for d, vals, blk, allv in pf.decisions:
                        if _self_field(d) == rfield and d[0] != 'bin':
                            zero_test = (vals != 'otherwise' and vals == [0])
                        elif d[0] == 'bin' and d[1] in ('Eq', 'Ne', 'Gt', 'Lt', 'Ge', 'Le') and (_self_field(d[2]) == rfield or _self_field(d[3]) == rfield):
                            zero_test = 'tested'
                    v = _option_variant(pf.ret)
                    if zero_test is not None:
                        tested = True
                    if v != 'None' and zero_test is None:
                        # delegating to self.next()/nth etc. is fine: they carry the test
                        delegates = any(tr[4].endswith('::next') or tr[4].endswith('::nth') or tr[4].endswith('::next_back') for blk, tr, t in pf.calls
                                        if 'Iterator' in tr[4] or p in tr[4])
                        if not delegates:
                            bad_some = True
                key = '%s|%s' % (short, name)
                r.inst(key)
                if bad_some:
                    r.violate(key + '|ignores-exhaustion', '%s::%s can return Some(..) without looking at `%s`: on an exhausted or empty iterator it '
                              'yields an element (or panics) where next() returns None' % (short, name, rfield), b.file, b.line)
            else:
                # (4) count / len: same r-expression
                if name in ('count', 'len'):
                    key = '%s|%s' % (short, name)
                    r.inst(key)
                    for pf in all_path_facts(b):
                        if pf.returns and _self_field(pf.ret) != rfield:
                            rt = _strip(pf.ret) if pf.ret else ('?',)
                            if rt[0] == 'call' and (rt[4].endswith('ExactSizeIterator::len') or rt[4].endswith('::size_hint')) and rt[2] and \
                                    _strip(rt[2][0])[0] == 'arg' and _strip(rt[2][0])[1] == 1:
                                continue        # answers through len()/size_hint() of the same iterator, which this rule checks itself
                            if rt[0] == 'field' and str(rt[2]) == '0' and _strip(rt[1])[0] == 'call' and _strip(rt[1])[4].endswith('::size_hint'):
                                continue
                            r.violate(key + '|differs-from-size_hint', '%s::%s returns %s, size_hint reports `%s`' % (short, name, tree_str(pf.ret)[:60], rfield), b.file, b.line)
                else:
                    # any other override of a provided method (fold, for_each, sum, ...): a traversal of its own. Whether it visits exactly the
                    # elements still to come is slot arithmetic on runtime values; it is listed, not decided (and not reported).
                    uses_next = any(tr[4].endswith('::next') for blk, tr, t in b.calls_trees()) if hasattr(b, 'calls_trees') else False
                    r.undecided.append('%s::%s overrides a provided iterator method with a traversal of its own%s: that it visits exactly the remaining '
                                       'elements is not decided' % (short, name, ' (built on next())' if uses_next else ''))
    r.floor('window iterators', 2, n)
    r.info['other_exact_size_iterators_listed_only'] = info_only
    return r


def _exact_len_agrees(f, m, r, p, short, rfield):
    """an overridden ExactSizeIterator::len must report the same remaining count as size_hint (the field, or a call of size_hint / len of the
    same iterator)"""
    for i in f.impls:
        if i['trait'] == 'std::iter::ExactSizeIterator' and i['self_tyj'].get('def') == p:
            lp = m.impl_fn_path(i, 'len')
            lb = m.body_inlined(lp) if lp else None
            if lb is None:
                continue
            key = '%s|ExactSizeIterator::len' % short
            r.inst(key)
            for pf in all_path_facts(lb):
                if not pf.returns:
                    continue
                t = _strip(pf.ret) if pf.ret else ('?',)
                while t[0] == 'cast':
                    t = _strip(t[2])
                if _self_field(t) == rfield:
                    continue
                if t[0] == 'call' and t[4].endswith('::size_hint') or (t[0] == 'field' and _strip(t[1])[0] == 'call' and _strip(t[1])[4].endswith('::size_hint')):
                    continue
                r.violate(key + '|differs-from-size_hint', '%s: the overridden ExactSizeIterator::len returns %s, size_hint reports `%s`: after the first next() len() no longer '
                          'equals the number of items still to come' % (short, tree_str(pf.ret)[:60] if pf.ret else '?', rfield), lb.file, lb.line)


def s01b_pos_len_iterators(ctx):
    """Exact-size iterators that count with two fields (len, pos): position never passes len."""
    f = ctx.facts('default')
    m = Model(f)
    r = RuleResult('S01b', 'brick iterator (len, pos): next() yields exactly while pos != len and advances pos by one; every other write '
                           'to pos is clamped to len; size_hint / count / len are len - pos')
    iters = {i['self_tyj']['def']: i for i in f.impls if i['trait'] == 'std::iter::Iterator' and i['self_tyj']['t'] == 'adt' and i['self_tyj']['def'] in f.adts}
    exact = {i['self_tyj']['def']: i for i in f.impls if i['trait'] == 'std::iter::ExactSizeIterator' and i['self_tyj']['t'] == 'adt'}
    n = 0
    for p, imp in sorted(iters.items()):
        if p not in exact:
            continue
        short = p.rsplit('::', 1)[-1]
        fn = {it['name']: it['path'] for it in imp['items'] if it['kind'] == 'Fn'}
        if 'size_hint' not in fn:
            continue
        sh = m.body_inlined(fn['size_hint'])
        A = B = None
        for pf in all_path_facts(sh):
            if pf.ret and pf.ret[0] == 'agg' and pf.ret[1] == 'tuple':
                lo = pf.ret[3][0]
                t = lo
                if t[0] == 'field' and t[2] == '0':
                    t = t[1]
                if t[0] == 'bin' and t[1].startswith('Sub'):
                    A, B = _self_field(t[2]), _self_field(t[3])
        if not A or not B:
            continue    # single-counter iterators are handled by S01
        n += 1
        LEN, POS = A, B

        def is_len_minus_pos(t):
            if t is None:
                return False
            if t[0] == 'field' and t[2] == '0':
                t = t[1]
            return t[0] == 'bin' and t[1].startswith('Sub') and _self_field(t[2]) == LEN and _self_field(t[3]) == POS

        def eq_test(pf):
            """truth of `pos == len` established on this path (None if untested)"""
            res = None
            for d, vals, blk, allv in pf.decisions:
                if d[0] == 'bin' and d[1] in ('Eq', 'Ne') and {_self_field(d[2]), _self_field(d[3])} == {LEN, POS}:
                    truth = not (vals != 'otherwise' and 0 in vals)
                    res = truth if d[1] == 'Eq' else (not truth)
            return res

        def classify_pos_store(tree, pf):
            t = tree
            if t[0] == 'field' and t[2] == '0':
                t = t[1]
            if t[0] == 'bin' and t[1].startswith('Add') and _self_field(t[2]) == POS and t[3][0] == 'const' and t[3][2] == 1:
                return 'inc1'
            if t[0] == 'call' and t[4].endswith('::min') and any(_self_field(a) == LEN for a in t[2]):
                return 'clamped'
            if t[0] == 'bin' and t[1].startswith('Sub') and _self_field(t[2]) == LEN and t[3][0] == 'const' and t[3][2] == 1:
                return 'len-1'
            return 'other'

        for name, pth in sorted(fn.items()):
            b = m.body_inlined(pth)
            for pf in all_path_facts(b):
                if not pf.returns:
                    continue
                key = '%s|%s' % (short, name)
                r.inst(key)
                tested = eq_test(pf)
                pos_stores = [(tree, line) for pl, tree, line in pf.stores if self_field_of_place(pl) == [POS] or _store_is_self_field(pl, POS)]
                len_stores = [(tree, line) for pl, tree, line in pf.stores if self_field_of_place(pl) == [LEN] or _store_is_self_field(pl, LEN)]
                for tree, line in len_stores:
                    r.violate(key + '|writes-len', '%s::%s modifies `%s`' % (short, name, LEN), b.file, line)
                for tree, line in pos_stores:
                    k = classify_pos_store(tree, pf)
                    if k == 'inc1' and tested is False:
                        continue
                    if k == 'clamped':
                        continue
                    if k == 'len-1' and tested is False:
                        continue
                    r.violate(key + '|position-unbounded|' + k, '%s::%s sets `%s` to %s without keeping it <= `%s`: later next() yields items that do not exist '
                              'and `%s - %s` underflows' % (short, name, POS, tree_str(tree)[:70], LEN, LEN, POS), b.file, line)
                if name == 'next':
                    v = _option_variant(pf.ret)
                    incs = sum(1 for tree, line in pos_stores if classify_pos_store(tree, pf) == 'inc1')
                    if v == 'Some' and (tested is not False or incs != 1):
                        r.violate(key + '|some-discipline', '%s::next yields an item on a path with pos==len untested or %d increments' % (short, incs), b.file, b.line)
                    if v == 'None' and (tested is not True or pos_stores):
                        r.violate(key + '|none-discipline', '%s::next returns None without pos == len (or after moving pos)' % short, b.file, b.line)
                if name in ('count', 'len') and not is_len_minus_pos(pf.ret):
                    r.violate(key + '|not-len-minus-pos', '%s::%s does not return %s - %s' % (short, name, LEN, POS), b.file, b.line)
        lb = m.body_inlined(m.impl_fn_path(exact[p], 'len')) if m.impl_fn_path(exact[p], 'len') else None
        if lb is not None:
            for pf in all_path_facts(lb):
                r.inst(short + '|len')
                if pf.returns and not is_len_minus_pos(pf.ret):
                    r.violate(short + '|len|not-len-minus-pos', 'ExactSizeIterator::len differs from size_hint', lb.file, lb.line)
        r.sample({'iterator': short, 'len_field': LEN, 'pos_field': POS, 'methods': sorted(fn)})
    r.floor('(len,pos) iterators', 1, n)
    return r


def _store_is_self_field(pl, name):
    """self passed by value (`mut self`): place is _1.<name>"""
    return pl['l'] == 1 and len(pl['p']) == 1 and pl['p'][0]['p'] == 'field' and pl['p'][0]['name'] == name


def s01c_single_slot_mapping(ctx):
    """Every observer that takes a logical index obtains its ring slot from the one mapping function."""
    f = ctx.facts('default')
    m = Model(f)
    r = RuleResult('S01c', 'Window::get and Index<PeriodType>::index both obtain the ring slot from Window::slice_index applied to their own '
                           'index parameter (one index->slot mapping for all indexed observers)')
    import wroles
    slot_fn = wroles.window_roles(f).slot_fn_path        # the private index -> slot mapping (`slice_index` today)
    if f.generic_body(slot_fn) is None:
        raise Broken('anchor %s not found' % slot_fn)
    observers = []
    gb = f.generic_body('core::window::Window::<T>::get')
    if gb:
        observers.append(('get', Body(gb)))
    for i in f.impls:
        if i['trait'] == 'std::ops::Index' and i['self_tyj'].get('def') == 'core::window::Window':
            b = m.body(m.impl_fn_path(i, 'index'), prefer_mono=False)
            if b:
                observers.append(('index', b))
    def locate(b, param, depth):
        """(body, block, call) of the slice_index call that receives `param` of b unchanged, looking through crate-local helpers"""
        for bi, t in b.calls():
            d = callee_def_(t) or ''
            if d == slot_fn:
                if len(t['args']) > 1:
                    a1 = _strip(b.tree_of_operand(t['args'][1]))
                    if a1[0] == 'arg' and a1[1] == param:
                        return (b, bi, t)
                    return (b, bi, None)
        if depth >= 3:
            return None
        for bi, t in b.calls():
            d = callee_def_(t) or ''
            if not t['callee'].get('local') or d == slot_fn:
                continue
            hb = f.generic_body(d)
            if hb is None:
                continue
            for k, a in enumerate(t['args']):
                tr = _strip(b.tree_of_operand(a))
                if tr[0] == 'arg' and tr[1] == param:
                    got = locate(Body(hb), k + 1, depth + 1)
                    if got:
                        return got
        return None

    for name, b in observers:
        key = 'Window|%s' % name
        r.inst(key)
        got = locate(b, 2, 0)
        if got is None:
            r.violate(key + '|slot-mapping-bypassed', 'Window::%s does not obtain its slot from slice_index (directly or through a helper): indexed observers may disagree '
                      'about which element a logical index denotes' % name, b.file, b.line)
            continue
        hb, bi, t = got
        if t is None:
            r.violate(key + '|slot-of-other-index', 'Window::%s maps something else than its own index parameter' % name, hb.file, hb.term_line(bi))
            continue
        if hb is not b:
            r.sample({'observer': 'Window::' + name, 'slot': 'slice_index(own index) through helper %s' % hb.defp})
            continue
        # the buffer must be indexed with the mapped slot: some later use of buf takes a value derived from the call
        used = False
        for bj, t2 in b.calls():
            if bj != bi:
                for a in t2['args'][1:]:
                    tr = b.tree_of_operand(a)
                    if any(x[0] == 'call' and x[3] == bi for x in walk_tree(tr)):
                        used = True
        for bj in range(b.n):
            for s_ in b.blocks[bj]['stmts']:
                if s_['s'] == 'assign' and s_['rv']['r'] in ('ref', 'use'):
                    pl = s_['rv'].get('pl') or (s_['rv'].get('a') or {}).get('pl')
                    if pl and any(e['p'] == 'index' for e in pl['p']):
                        for e in pl['p']:
                            if e['p'] == 'index':
                                tr = b.tree_of_local(e['local'])
                                if any(x[0] == 'call' and x[3] == bi for x in walk_tree(tr)):
                                    used = True
        if not used:
            r.violate(key + '|slot-unused', 'Window::%s calls slice_index but does not use its result to reach the buffer' % name, b.file, b.term_line(bi))
        else:
            r.sample({'observer': 'Window::' + name, 'slot': 'slice_index(own index) -> buffer access'})
    r.floor('indexed observers', 2, len(observers))
    return r


def callee_def_(t):
    from mir import callee_def
    return callee_def(t['callee'])


# ---------------------------------------------------------------------------------------
# S03: constructors of a type agree on the state they derive from its length

def _agg_fields(b, adt_path):
    """[(field -> tree)] for every struct literal of adt_path built in body b"""
    out = []
    for bi, si, s in b.stmts():
        if s['s'] == 'assign' and s['rv']['r'] == 'agg' and s['rv']['kind'] == 'adt' and s['rv']['def'] == adt_path:
            t = b.tree_of_rvalue(s['rv'])
            out.append((dict(zip(t[4], t[3])), s['sp']['l']))
    return out


def _agg_fields_through_helpers(f, b, adt_path, depth=0):
    """struct literals of adt_path built by b itself or by a crate-local builder it calls (the helper's parameters replaced by the
    caller's argument expressions), so that `Self::from_raw(buf, index, size)`-style constructors are seen through"""
    own = _agg_fields(b, adt_path)
    if own or depth >= 2:
        return own
    out = []
    for bi, t in b.calls():
        c = t['callee']
        if not c.get('local'):
            continue
        d = callee_def_(t)
        hb = f.generic_body(d) if d else None
        if hb is None:
            continue
        hbody = Body(hb)
        inner = _agg_fields_through_helpers(f, hbody, adt_path, depth + 1)
        if not inner:
            continue
        args = [b.tree_of_operand(a) for a in t['args']]

        def sub(x):
            if isinstance(x, tuple):
                if x and x[0] == 'arg' and isinstance(x[1], int) and 1 <= x[1] <= len(args):
                    return args[x[1] - 1]
                return tuple(sub(y) for y in x)
            return x
        for fields, line in inner:
            out.append(({k: sub(v) for k, v in fields.items()}, b.term_line(bi)))
    return out


def _subst(t, pat, token):
    """replace every occurrence of subtree `pat` (modulo refs/derefs/lossless int casts and call sites) by token"""
    n = _canon(t)
    p = _canon(pat)
    def go(x):
        if x == p:
            return token
        if isinstance(x, tuple):
            return tuple(go(y) for y in x)
        return x
    return go(n)


def _canon(t):
    if not isinstance(t, tuple):
        return t
    if t and t[0] in ('ref', 'deref'):
        return _canon(t[1])
    if t and t[0] == 'cast' and t[1] == 'IntToInt':
        return _canon(t[2])
    if t and t[0] == 'call':
        return ('call', t[4], tuple(_canon(a) for a in t[2]))
    if t and t[0] == 'local':
        return ('local', t[1])
    if t and t[0] == 'arg':
        return ('arg', t[1])
    return tuple(_canon(x) for x in t)


def s03_sibling_constructors(ctx):
    f = ctx.facts('default')
    m = Model(f)
    r = RuleResult('S03', 'every constructor of Window and of SMM (including the hand-written Deserialize) derives the non-serialized state '
                          'from the length with the same expression')
    # ---- Window: s_1 = size.saturating_sub(1); size = length of buf   (fields are identified by role, see wroles.py)
    W = 'core::window::Window'
    import wroles
    WR = wroles.window_roles(f)
    ctors = []
    for fp in ('core::window::Window::<T>::new', 'core::window::Window::<T>::from_parts', 'core::window::Window::<T>::empty'):
        gb = f.generic_body(fp)
        if gb is None:
            raise Broken('anchor %s missing' % fp)
        ctors.append((fp.rsplit('::', 1)[-1], Body(gb)))
    nlit = 0
    for name, b in ctors:
        for fields, line in _agg_fields_through_helpers(f, b, W):
            nlit += 1
            key = 'Window|%s' % name
            r.inst(key)
            if not all(k in fields for k in (WR.size, WR.last, WR.buf, WR.cursor)):
                r.violate(key + '|fields', 'Window literal lacks expected fields', b.file, line)
                continue
            # today's names for the roles (keys of violations and the texts below keep the familiar spelling)
            fields = {'size': fields[WR.size], 's_1': fields[WR.last], 'buf': fields[WR.buf], 'index': fields[WR.cursor]}
            S = fields['size']
            s1 = _subst(fields['s_1'], S, 'L')
            cs, c1 = _canon(S), _canon(fields['s_1'])
            ok = False
            if s1[0] == 'call' and s1[1].endswith('::saturating_sub') and s1[2][0] == 'L' and s1[2][1][0] == 'const' and s1[2][1][2] == 1:
                ok = True
            if cs[0] == 'const' and c1[0] == 'const' and c1[2] == max(cs[2] - 1, 0):
                ok = True
            if not ok:
                r.violate(key + '|s_1', 'Window::%s sets s_1 to %s, which is not size.saturating_sub(1) for size = %s' % (name, tree_str(fields['s_1'])[:70], tree_str(S)[:40]), b.file, line)
            # buffer length = size
            bt = _subst(fields['buf'], S, 'L')
            bl = None
            def find_len(x):
                nonlocal bl
                if isinstance(x, tuple):
                    if x and x[0] == 'call' and x[1] == 'std::vec::from_elem' and len(x[2]) == 2:
                        bl = x[2][1]
                    if x and x[0] == 'call' and x[1].endswith('Vec::<T>::new'):
                        bl = ('const', 'usize', 0)
                    for y in x:
                        find_len(y)
            find_len(bt)
            if bl is not None:
                if not (bl == 'L' or (bl[0] == 'const' and cs[0] == 'const' and bl[2] == cs[2])):
                    r.violate(key + '|buf-len', 'Window::%s allocates a buffer of length %s but records size %s' % (name, tree_str(bl)[:40], tree_str(S)[:40]), b.file, line)
            else:
                # buffer handed in: size must be its length
                ls = _canon(S)
                bb = _canon(fields['buf'])
                if not (ls[0] == 'call' and ls[1].endswith('::len') and _canon(ls[2][0]) == bb or any(isinstance(x, tuple) and x and x[0] == 'call' and x[1].endswith('::len') for x in walk_tree(S))):
                    r.violate(key + '|size-not-len', 'Window::%s takes a buffer but size (%s) is not its length' % (name, tree_str(S)[:50]), b.file, line)
            if name == 'from_parts':
                # (buffer, index of the oldest) is taken as given: the logical sequence the caller described must be the one the window holds
                PERMUTING = ('rotate_left', 'rotate_right', 'reverse', 'swap', 'fill', 'fill_with', 'copy_within', 'copy_from_slice', 'clone_from_slice',
                             'swap_with_slice', 'sort', 'sort_by', 'sort_unstable', 'sort_unstable_by', 'sort_by_key', 'iter_mut', 'split_at_mut', 'as_mut_ptr')
                perm = [(bi, t) for bi, t in b.calls() if (t['callee'].get('name') or '') in PERMUTING]
                r.inst(key + '|representation')
                ci = _canon(fields['index'])
                rotated_ok = False
                if len(perm) == 1 and perm[0][1]['callee']['name'] == 'rotate_left' and len(perm[0][1]['args']) == 2:
                    amount = _canon(b.tree_of_operand(perm[0][1]['args'][1]))
                    if amount == ('arg', 2) and ci[0] == 'const' and ci[2] == 0:
                        rotated_ok = True       # normalised layout: the oldest element moved to slot 0, cursor 0
                if perm and not rotated_ok:
                    bi, t = perm[0]
                    r.violate(key + '|buffer-permuted|' + t['callee']['name'], 'Window::from_parts rearranges the buffer it is given (`%s`) and stores cursor %s: the window no longer '
                              'denotes the sequence described by (slice, index of the oldest element)' % (t['callee']['name'], tree_str(fields['index'])[:30]), b.file, b.term_line(bi))
                elif not perm and ci != ('arg', 2):
                    r.violate(key + '|cursor-not-index', 'Window::from_parts stores cursor %s instead of the index of the oldest element it is given' % tree_str(fields['index'])[:40], b.file, line)
                elif not any(x == ('arg', 1) for x in walk_tree(_canon(fields['buf']))) and not perm:
                    r.violate(key + '|buffer-not-slice', 'Window::from_parts does not store the slice it is given', b.file, line)
            r.sample({'constructor': 'Window::' + name, 'size': tree_str(S)[:40], 's_1': tree_str(fields['s_1'])[:50]})
    r.floor('Window literals', 3, nlit)
    # ---- SMM: half, half_m1 as functions of the window length; slice sorted
    SM = 'methods::smm::SMM'
    smm_ctors = []
    for i in m.method_impls:
        if m.adt_path_of_impl(i) == SM:
            smm_ctors.append(('new', m.body(m.impl_fn_path(i, 'new'), prefer_mono=False), 'param'))
    for i in f.impls:
        if (i.get('trait_crate') or '').startswith('serde') and i['trait_name'] == 'Deserialize' and not i['derived'] and i['self_tyj'].get('def') == SM:
            smm_ctors.append(('deserialize', m.body(m.impl_fn_path(i, 'deserialize'), prefer_mono=False), 'len'))
    canon_forms = {}
    for name, b, mode in smm_ctors:
        lits = _agg_fields_through_helpers(f, b, SM)
        key = 'SMM|%s' % name
        r.inst(key)
        if len(lits) != 1:
            r.violate(key + '|literal', 'expected one SMM literal in %s' % name, b.file, b.line)
            continue
        fields, line = lits[0]
        # the length expression: the size handed to Window::new (new) / window.len() (deserialize)
        L = None
        if mode == 'param':
            w = fields['window']
            for x in walk_tree(w):
                if x[0] == 'call' and x[4].endswith('Window::<T>::new') or (x[0] == 'call' and 'Window' in x[4] and x[4].endswith('::new')):
                    L = x[2][0]
        else:
            for x in walk_tree(fields['half']):
                if x[0] == 'call' and x[4].endswith('::len'):
                    L = x
        if L is None:
            r.violate(key + '|no-length', 'cannot identify the window length expression in SMM::%s' % name, b.file, line)
            continue
        canon_forms[name] = {k: _subst(fields[k], L, 'L') for k in ('half', 'half_m1')}
        if mode == 'len':
            # slice must be sorted before Ok: a sort call on the path
            sorts = [(bi, t) for bi, t in b.calls() if (t['callee'].get('name') or '').startswith('sort')]
            if not sorts:
                r.violate(key + '|slice-not-sorted', 'SMM::deserialize rebuilds the sorted slice without sorting it', b.file, b.line)
            for bi, t in sorts:
                nm = t['callee']['name']
                numeric = False
                if nm in ('sort_by', 'sort_unstable_by') and len(t['args']) == 2:
                    cl = b.tree_of_operand(t['args'][1])
                    cid = None
                    for x in walk_tree(cl):
                        if x[0] == 'agg' and x[1] == 'closure':
                            cid = x[2]
                    cb = m.body_by_id(cid) if cid else None
                    if cb is None and cid:
                        cb = Body(f.bodies[cid]) if cid in f.bodies else None
                    if cb is not None:
                        for cbi, ct in cb.calls():
                            if ct['callee'].get('name') in ('partial_cmp', 'total_cmp') and any(a in ('f64', 'f32', '&f64', '&f32') for a in ct['callee'].get('args', [])):
                                # ascending: compares the closure's first parameter with its second, result not reversed
                                a0 = _strip(cb.tree_of_operand(ct['args'][0]))
                                a1 = _strip(cb.tree_of_operand(ct['args'][1]))
                                in_order = a0[0] == 'arg' and a1[0] == 'arg' and a0[1] < a1[1]
                                reversed_ = any((c2['callee'].get('name') or '') in ('reverse', 'then', 'then_with') for _, c2 in cb.calls())
                                numeric = in_order and not reversed_
                    if cl[0] == 'fn' and cl[1].endswith('total_cmp'):
                        numeric = True
                r.inst(key + '|sort-order')
                if not numeric:
                    r.violate(key + '|sort-order|' + nm, 'SMM::deserialize sorts the restored slice with `%s` whose order is not the ascending numeric order of f64 (partial_cmp / total_cmp of the first with the second element): '
                              'next() searches the slice by numeric order, so a restored SMM with negative values is inconsistent' % nm, b.file, b.term_line(bi))
    if 'new' in canon_forms and 'deserialize' in canon_forms:
        for k in ('half', 'half_m1'):
            r.inst('SMM|%s' % k)
            a, c = canon_forms['new'][k], canon_forms['deserialize'][k]
            if a != c:
                r.violate('SMM|%s|constructors-differ' % k, 'SMM::new computes %s as %s but Deserialize recomputes it as %s (L = window length)' % (
                    k, tree_str(a)[:70], tree_str(c)[:70]), smm_ctors[1][1].file, smm_ctors[1][1].line)
            else:
                r.sample({'type': 'SMM', 'field': k, 'as function of L': tree_str(a)[:80]})
    else:
        raise Broken('SMM constructors not found')
    return r
