"""C12 rule S16: every operation that can turn finite operands into NaN / inf inside a step function is guarded
(G1 non-zero literal, G2 integer-derived >= 1 / constructor-fixed non-zero float, G3 dominated by a numeric test on the
same value) or carries a recorded argument (G4 indirect guard, G5 formula undefined there)."""
import re

from engine import RuleResult, Broken
from model import Model
from mir import Body, tree_str, callee_def, walk_tree

NAN_FNS = ('sqrt', 'ln', 'log', 'log10', 'log2', 'ln_1p', 'powf', 'atanh', 'acos', 'asin', 'recip', 'acosh', 'tan')
CTOR_FNS = ('new', 'init', 'from_parts', 'empty', 'default', 'deserialize', 'from', 'from_str', 'try_from', 'validate', 'set', 'fmt', 'serialize')

# (function definition path, operation, divisor description) -> (class, argument)
NAN_TABLE = {
    ('<indicators::chaikin_money_flow::ChaikinMoneyFlowInstance as core::indicator::instance::IndicatorInstance>::next', 'Div', 'self.vol_sum'):
        ('G5', 'money flow volume is normalised by the total volume of the window: undefined for a window of zero-volume bars (property exempts zero total volume)'),
    ('<methods::vwma::VWMA as core::method::Method>::next', 'Div', 'self.vol_sum'):
        ('G5', 'volume-weighted average: undefined when the total volume of the window is zero (property exempts it)'),
    ('<methods::vwma::VWMA as helpers::history::Peekable<<methods::vwma::VWMA as core::method::Method>::Output>>::peek', 'Div', 'self.vol_sum'):
        ('G5', 'same as VWMA::next'),
    ('<methods::rate_of_change::RateOfChange as core::method::Method>::next', 'Div', 'push(self.0, arg2)'):
        ('G5', 'relative change with respect to the price `length` steps ago: undefined for a zero previous price (property: positive inputs for relative changes)'),
    ('<methods::renko::Renko as core::method::Method>::next', 'Div', 'self.last_block_upper'):
        ('G5', 'brick arithmetic on positive prices: block edges are products of the first (positive) price with positive factors'),
    ('<methods::renko::Renko as core::method::Method>::next', 'Div', 'self.last_block_lower'):
        ('G5', 'as above'),
    ('<indicators::fisher_transform::FisherTransformInstance<M> as core::indicator::instance::IndicatorInstance>::next', 'Div', 'Sub(.., ..)'):
        ('G4', 'guarded by highest.to_bits() == lowest.to_bits(): bit equality coincides with numeric equality except for +0.0/-0.0, excluded for positive prices'),
    ('<indicators::money_flow_index::MoneyFlowIndexInstance as core::indicator::instance::IndicatorInstance>::next', 'recip', 'Add(1.0, mfr)'):
        ('G4', 'mfr is a ratio of sums of non-negative money flows (or the constant branch): 1 + mfr >= 1'),
    ('<indicators::chande_momentum_oscillator::ChandeMomentumOscillatorInstance as core::indicator::instance::IndicatorInstance>::next', 'Div', 'Add(self.pos_sum, self.neg_sum)'):
        ('G4', 'guarded by `pos_sum != 0 || neg_sum != 0` on the summands; pos_sum/neg_sum are running sums of max(x,0) and -min(x,0) (non-negative up to rounding residue: the residue case is numeric and not decided)'),
    ('<indicators::relative_strength_index::RelativeStrengthIndexInstance<M> as core::indicator::instance::IndicatorInstance>::next', 'Div', 'Add(.., ..)'):
        ('G4', 'guarded by `pos != 0 || neg != 0` on the summands, which are averages of max(x,0) and -min(x,0) (non-negative for non-overshooting averages)'),
    ('<methods::vidya::Vidya as core::method::Method>::next', 'Div', 'Add(self.up_sum, self.dn_sum)'):
        ('G4', 'guarded by `up_sum != 0 || dn_sum != 0` on the summands, running sums of positive / negated negative changes'),
}


def _norm(t):
    if not isinstance(t, tuple):
        return t
    if t and t[0] in ('ref', 'deref'):
        return _norm(t[1])
    if t and t[0] == 'call':
        return ('call', t[4], tuple(_norm(a) for a in t[2]))
    if t and t[0] == 'local':
        return ('local', t[1])
    if t and t[0] == 'arg':
        return ('arg', t[1])
    return tuple(_norm(x) for x in t)


def short_desc(t, depth=0):
    """compact, line-free description used as a table key"""
    while t[0] in ('ref', 'deref'):
        t = t[1]
    k = t[0]
    if k == 'field':
        return short_desc(t[1], depth) + '.' + t[2]
    if k == 'arg':
        return t[2] or 'arg%d' % t[1]
    if k == 'local':
        return (t[2] if len(t) > 2 and t[2] else 'tmp')
    if k == 'const':
        return str(t[2])
    if k == 'cast':
        return short_desc(t[2], depth)
    if k == 'call':
        name = t[4].rsplit('::', 1)[-1]
        if depth >= 1:
            return '%s(..)' % name
        args = [short_desc(a, depth + 1) for a in t[2]]
        if any(len(a) > 24 or '(' in a for a in args):
            args = [a if (len(a) <= 24 and '(' not in a) else '..' for a in args]
        return '%s(%s)' % (name, ', '.join(args))
    if k == 'bin':
        if depth >= 1:
            return '%s(..)' % t[1]
        a, b = short_desc(t[2], depth + 1), short_desc(t[3], depth + 1)
        a = a if len(a) <= 24 and '(' not in a else '..'
        b = b if len(b) <= 24 and '(' not in b else '..'
        return '%s(%s, %s)' % (t[1], a, b)
    if k == 'un':
        return '%s(%s)' % (t[1], short_desc(t[2], depth + 1))
    return k


def _blank_locals(desc):
    """operand description with plain identifiers (local names) replaced by `_`; `self.x`, literals and call names are kept"""
    import re as _re
    return _re.sub(r'(?<![A-Za-z0-9_.:])([a-z_][a-z0-9_]*)(?![A-Za-z0-9_(.:])', lambda mm: mm.group(1) if mm.group(1) in ('self',) else '_', desc)


def _is_zero(t):
    return t[0] == 'const' and isinstance(t[2], float) and t[2] == 0.0


def guarded_by_test(b, bi, T):
    """Is block bi reached only through an edge on which a numeric test excludes T == 0 (T: normalised divisor tree)?"""
    dom = b.dominators().get(bi, set())
    for d in sorted(dom):
        t = b.blocks[d]['term']
        if t['t'] != 'switch':
            continue
        dt = b.tree_of_operand(t['discr'])
        neg = False
        while dt[0] == 'un' and dt[1] == 'Not':
            neg = not neg
            dt = dt[2]
        if dt[0] != 'bin' or dt[1] not in ('Eq', 'Ne', 'Gt', 'Lt', 'Ge', 'Le'):
            continue
        op, x, y = dt[1], _norm(dt[2]), _norm(dt[3])
        excl_true = excl_false = False     # which truth value of the comparison excludes T == 0
        if x == T and _is_zero(dt[3]) or y == T and _is_zero(dt[2]):
            if op == 'Eq':
                excl_false = True
            elif op == 'Ne':
                excl_true = True
            elif op in ('Gt', 'Lt'):
                excl_true = True      # T > 0, T < 0, 0 < T, 0 > T
        if T[0] == 'bin' and T[1] == 'Sub':
            a, c = T[2], T[3]
            if (x == a and y == c) or (x == c and y == a):
                if op == 'Eq':
                    excl_false = True
                elif op in ('Ne', 'Gt', 'Lt'):
                    excl_true = True
        if not (excl_true or excl_false):
            continue
        zero_t = [bb for v, bb in t['targets'] if v == 0]
        false_succ = zero_t[0] if zero_t else None
        true_succ = t['otherwise']
        if neg:
            false_succ, true_succ = true_succ, false_succ
        for want, succ in ((True, true_succ), (False, false_succ)):
            if succ is None:
                continue
            if (want and excl_true) or ((not want) and excl_false):
                if bi in b.dominated_by_edge(d, succ) or bi == succ and len([p for p in b.pred(succ)]) == 1:
                    return True
    return False


def clamp_bounds(f, t):
    """If tree t is clamp(x, lo, hi) with constant bounds, directly or through a crate-local helper whose body is such a clamp,
    return (lo, hi)."""
    while t[0] in ('ref', 'deref'):
        t = t[1]
    if t[0] != 'call':
        return None
    if t[4].endswith('::clamp') and len(t[2]) == 3:
        def cval(x):
            while x[0] in ('ref', 'deref'):
                x = x[1]
            if x[0] == 'const' and isinstance(x[2], float):
                return x[2]
            if x[0] == 'un' and x[1] == 'Neg':
                v = cval(x[2])
                return None if v is None else -v
            return None
        lo, hi = cval(t[2][1]), cval(t[2][2])
        if lo is not None and hi is not None:
            return lo, hi
        return None
    gb = f.generic_body(t[4])
    if gb is None:
        return None
    hb = Body(gb)
    res = None
    for bi, si, s in hb.stmts():
        pass
    for bi, c in hb.calls():
        if c['dest']['l'] == 0:
            tr = hb.tree_of_call(c, 0, bi)
            res = clamp_bounds(f, tr)
    return res


def instance_float_int_facts(ctx):
    """{(adt path, field name): ('int', lo, hi) | ('float', lo, hi, nan)} for fields of instances that are invariant after
    construction, from the abstract interpreter's joined Ok-state of init()/new()."""
    import r_absint
    from absint import St
    from absexec import Exec
    f = ctx.facts('default')
    m = Model(f)
    written = r_absint.fields_written_outside_constructors(f)
    facts = {}
    targets = []
    for ci in m.config_impls:
        ims = f.mono_bodies_of(m.impl_fn_path(ci, 'init'))
        if ims:
            targets.append(ims[0]['id'])
    for i in m.method_impls:
        ims = f.mono_bodies_of(m.impl_fn_path(i, 'new'))
        if ims:
            targets.append(ims[0]['id'])
    for init_id in targets:
        ex = Exec(f)
        st = St()
        ib = ex.body(init_id)
        try:
            outs = ex.run_fn(ib, st, r_absint.initial_args(ex, st, ib), [init_id])
        except Exception:
            continue
        oks = [(s, s.cells[v[3]['Ok']['0']]) for s, v in outs if v[0] == 'adt' and v[2] is not None and 'Ok' in v[2]]
        if not oks:
            continue
        s0, inst = ex.join_outcomes(oks) if len(oks) > 1 else oks[0]

        def walk(v, depth=0):
            if v[0] != 'adt' or depth > 6:
                return
            for vn, fl in v[3].items():
                if v[2] is not None and vn not in v[2]:
                    continue
                for fn, c in fl.items():
                    cv = ex.fview(s0, s0.cells[c])
                    key = (v[1], fn)
                    if key in written:
                        continue
                    if cv[0] == 'int':
                        lo, hi = ex.rng(s0, cv[2])
                        old = facts.get(key)
                        facts[key] = ('int', min(lo, old[1]) if old else lo, max(hi, old[2]) if old else hi)
                    elif cv[0] == 'float':
                        old = facts.get(key)
                        facts[key] = ('float', min(cv[1], old[1]) if old else cv[1], max(cv[2], old[2]) if old else cv[2], cv[3] or (old[3] if old else False))
                    elif cv[0] == 'adt':
                        walk(cv, depth + 1)
        walk(inst)
    return facts


def _field_chain(t):
    """for self.a.b.c return ['a','b','c'] (through refs, derefs, lossless casts)"""
    out = []
    while True:
        while t[0] in ('ref', 'deref'):
            t = t[1]
        if t[0] == 'field':
            out.append(t[2])
            t = t[1]
            continue
        break
    if t[0] == 'arg' and t[1] == 1:
        return list(reversed(out))
    return None


def s16_nan_sources(ctx):
    f = ctx.facts('default')
    m = Model(f)
    r = RuleResult('S16', 'every float division / sqrt / ln / atanh / recip in a step function has a non-zero literal operand, an operand '
                          'derived from an integer >= 1 or a constructor-fixed non-zero float, a dominating numeric test on the same value, '
                          'or a recorded argument')
    facts = instance_float_int_facts(ctx)
    classes = {}
    used = set()
    table_file = {}
    for (tfn, tkind, tdesc) in NAN_TABLE:
        gbj = f.generic_body(tfn) or next((bj_ for bj_ in f.bodies.values() if bj_['def'] == tfn), None)
        if gbj is not None:
            table_file[tfn] = gbj['file']
    def self_adt_of(b_):
        if b_.arg_count >= 1:
            tj = b_.locals[1]['tyj']
            if tj['t'] == 'ref' and tj['to']['t'] == 'adt':
                return tj['to']
            if tj['t'] == 'adt':
                return tj
        return None

    def classify(bj, b, bi, kind, tree, self_adt, line, key, desc, use_table=True):
        T = _norm(tree)
        cls = None
        why = None
        x = tree
        while x[0] in ('ref', 'deref'):
            x = x[1]
        # G1
        if x[0] == 'const' and isinstance(x[2], float):
            if (kind in ('Div', 'recip') and x[2] != 0.0) or (kind == 'sqrt' and x[2] >= 0) or (kind in ('ln', 'log') and x[2] > 0):
                cls, why = 'G1', 'literal %s' % x[2]
        # G2: integer-derived or constructor-fixed float
        if cls is None:
            y = x
            through_int = False
            if y[0] == 'cast' and y[1] == 'IntToFloat':
                through_int = True
                y = y[2]
                while y[0] == 'cast' or y[0] in ('ref', 'deref'):
                    y = y[2] if y[0] == 'cast' else y[1]
            if through_int and y[0] == 'const' and isinstance(y[2], int) and not isinstance(y[2], bool) and y[2] != 0 and kind in ('Div', 'recip', 'Rem'):
                cls, why = 'G1', 'non-zero integer constant %d converted to float' % y[2]
            if through_int and y[0] == 'const' and isinstance(y[2], int) and not isinstance(y[2], bool) and (kind == 'sqrt' and y[2] >= 0 or kind in ('ln', 'log') and y[2] > 0):
                cls, why = 'G1', 'integer constant %d converted to float' % y[2]
            if cls is None and through_int and y[0] == 'call' and y[4].endswith('::max') and any(a[0] == 'const' and isinstance(a[2], int) and a[2] >= 1 for a in y[2]):
                cls, why = 'G2', 'integer operand is max(.., c) with c >= 1'
            chain = _field_chain(y)
            if cls is None and chain and self_adt is not None:
                # resolve the owning adt of the last field through the chain
                adt = self_adt['def']
                ok = True
                for nm in chain[:-1]:
                    a = f.adts.get(adt)
                    nxt = None
                    if a:
                        for v in a['variants']:
                            for fl in v['fields']:
                                if fl['name'] == nm and fl['tyj']['t'] == 'adt':
                                    nxt = fl['tyj']['def']
                    if nxt is None:
                        ok = False
                        break
                    adt = nxt
                fact = facts.get((adt, chain[-1])) if ok else None
                if fact:
                    if fact[0] == 'int' and through_int and fact[1] >= 1:
                        cls, why = 'G2', '%s.%s in [%d, %d] for every accepted instance (abstract interpretation of init/new)' % (adt.rsplit('::', 1)[-1], chain[-1], fact[1], fact[2])
                    elif fact[0] == 'float' and not through_int and not fact[3] and (fact[1] > 0 or fact[2] < 0):
                        cls, why = 'G2', '%s.%s is fixed at construction inside [%g, %g] and never written afterwards' % (adt.rsplit('::', 1)[-1], chain[-1], fact[1], fact[2])
        # G3: sqrt of abs / square; dominating test
        if cls is None and kind == 'sqrt':
            if x[0] == 'call' and x[4].endswith('::abs'):
                cls, why = 'G3', 'sqrt of abs(..)'
            elif x[0] == 'bin' and x[1] == 'Mul' and _norm(x[2]) == _norm(x[3]):
                cls, why = 'G3', 'sqrt of a square'
        if cls is None and kind in ('atanh', 'acos', 'asin'):
            lim = clamp_bounds(f, x)
            if lim is not None:
                lo, hi = lim
                if kind == 'atanh' and -1.0 < lo <= hi < 1.0 or kind in ('acos', 'asin') and -1.0 <= lo <= hi <= 1.0:
                    cls, why = 'G3', 'argument clamped to [%s, %s]' % (lo, hi)
                else:
                    r.violate(key + '|clamp-too-wide', '%s: the argument of %s is clamped to [%s, %s], which reaches the pole/outside of the domain' % (bj['def'], kind, lo, hi), b.file, line)
                    cls = 'unguarded'
        if cls is None and kind in ('Div', 'recip', 'Rem') and guarded_by_test(b, bi, T):
            cls, why = 'G3', 'dominated by a numeric test excluding zero for the same value'
        if cls is None:
            tk = (bj['def'], kind, desc)
            ent = NAN_TABLE.get(tk)
            if not ent:
                # the same computation moved into a helper of the same source file (or with a renamed local) keeps its recorded argument:
                # entries are matched by (source file, operation, operand with local names blanked)
                for (tfn, tkind, tdesc), tv in NAN_TABLE.items():
                    if tkind == kind and _blank_locals(tdesc) == _blank_locals(desc) and table_file.get(tfn) == b.file:
                        tk, ent = (tfn, tkind, tdesc), tv
                        break
            if ent and ent[1]:
                cls, why = ent[0], ent[1]
                used.add(tk)
        return cls, why

    # call sites of crate-local functions (for operands that are parameters of a private helper)
    call_sites = {}
    for bid0, bj0 in f.bodies.items():
        if not bj0['generic'] or '::tests::' in bj0['def']:
            continue
        b0 = Body(bj0)
        for bi0, t0 in b0.calls():
            if t0['callee'].get('local') and t0['callee'].get('def'):
                call_sites.setdefault(t0['callee']['def'], []).append((bj0, b0, bi0, t0))

    def classify_in_callers(bj, b, kind, tree, key, desc, depth=0):
        """the operand is (built from) parameters of a private helper: decide it at every call site, with the caller's arguments substituted
        and the caller's dominating tests; a call from a constructor-like function counts as the constructor doing the arithmetic itself"""
        fn_ = f.fns.get(bj['def'])
        sites_ = call_sites.get(bj['def']) or []
        if depth >= 2 or fn_ is None or fn_.get('vis') == 'pub' or not sites_:
            return None, None
        if not any(isinstance(x_, tuple) and x_ and x_[0] == 'arg' for x_ in walk_tree(tree)):
            return None, None
        whys = []
        for cbj, cb, cbi, ct in sites_:
            cname = cbj['def'].split('::{closure')[0].rsplit('::', 1)[-1]
            if cname in CTOR_FNS:
                whys.append('called from constructor %s' % cname)
                continue
            args_ = [cb.tree_of_operand(a_) for a_ in ct['args']]

            def sub(x_):
                if isinstance(x_, tuple):
                    if x_ and x_[0] == 'arg' and isinstance(x_[1], int) and 1 <= x_[1] <= len(args_):
                        return args_[x_[1] - 1]
                    return tuple(sub(y_) for y_ in x_)
                return x_
            t2 = sub(tree)
            c2, w2 = classify(cbj, cb, cbi, kind, t2, self_adt_of(cb), cb.term_line(cbi), key, short_desc(t2), use_table=True)
            if c2 is None:
                c2, w2 = classify_in_callers(cbj, cb, kind, t2, key, short_desc(t2), depth + 1)
            if c2 is None or c2 == 'unguarded':
                return None, None
            whys.append('%s at the call in %s' % (w2, cbj['def'].rsplit('::', 1)[-1]))
        return 'G2c', 'operand is a parameter of a private helper, decided at its %d call site(s): %s' % (len(sites_), '; '.join(sorted(set(whys)))[:160])

    n = 0
    seen_sites = set()
    skipped_helpers = set()
    for bid, bj in sorted(f.bodies.items()):
        if not bj['generic'] or '::tests::' in bj['def'] or 'helpers::' in bj['def'] and 'RandomCandles' in bj['def']:
            continue
        fname = bj['def'].rsplit('::', 1)[-1]
        owner = bj['def'].split('::{closure')[0].rsplit('::', 1)[-1]       # a closure written inside a constructor is constructor code
        if fname in CTOR_FNS or owner in CTOR_FNS or bj['def'].startswith('helpers::assert') or bj['def'].startswith('helpers::signi'):
            continue
        # a private helper that is only called inside the crate is analysed where it is used: the callers below are analysed with their
        # private helpers inlined, so that an operand computed in a helper and used by the caller (or the reverse) is one expression
        fn_rec = f.fns.get(bj['def'])
        is_trait_method = bj['def'].startswith('<') and ' as ' in bj['def'].split('>::')[0]
        if fn_rec is not None and fn_rec.get('vis') != 'pub' and not is_trait_method and not bj.get('closure_of') and call_sites.get(bj['def']):
            if all((cbj_['def'].split('::{closure')[0].rsplit('::', 1)[-1] in CTOR_FNS) or True for cbj_, _, _, _ in call_sites[bj['def']]):
                skipped_helpers.add(bj['def'])
                continue
        import inline as _inline
        b = Body(_inline.inlined(f, bj, 3) if not bj.get('closure_of') else bj)
        self_adt = None
        if b.arg_count >= 1:
            tj = b.locals[1]['tyj']
            if tj['t'] == 'ref' and tj['to']['t'] == 'adt':
                self_adt = tj['to']
            elif tj['t'] == 'adt':
                self_adt = tj
        sites = []
        for bi, si, s in b.stmts():
            if s['s'] == 'assign' and s['rv']['r'] == 'bin' and s['rv']['op'] in ('Div', 'Rem') and s['rv']['ty'] in ('f64', 'f32'):
                sites.append((bi, 'Div', b.tree_of_operand(s['rv']['b']), s['sp']['l']))
        for bi, t in b.calls():
            d = callee_def(t['callee']) or ''
            if ('<impl f64>' in d or '<impl f32>' in d) and t['callee']['name'] in NAN_FNS and t['args']:
                sites.append((bi, t['callee']['name'], b.tree_of_operand(t['args'][0]), b.term_line(bi)))
        for bi, kind, tree, line in sites:
            desc = short_desc(tree)
            key = '%s|%s|%s' % (bj['def'], kind, desc)
            if key in seen_sites:
                continue
            seen_sites.add(key)
            n += 1
            r.inst(key)
            cls, why = classify(bj, b, bi, kind, tree, self_adt, line, key, desc)
            if cls is None:
                cls, why = classify_in_callers(bj, b, kind, tree, key, desc)
            if cls == 'unguarded':
                classes[cls] = classes.get(cls, 0) + 1
                continue
            if cls is None:
                r.violate(key + '|unguarded', '%s: `%s` of %s has no non-zero literal, no integer-derived or constructor-fixed operand, no dominating '
                          'numeric test on the same value and no recorded argument: finite inputs can produce NaN / inf here' % (bj['def'], kind, desc), b.file, line)
                cls = 'unguarded'
            classes[cls] = classes.get(cls, 0) + 1
            if len(r.samples) < 12:
                r.sample({'site': '%s:%d' % (b.file, line), 'fn': bj['def'].rsplit('::', 2)[-2] + '::' + fname, 'op': kind, 'operand': desc, 'class': cls, 'because': why})
    r.info['classes'] = classes
    r.info['table_entries_used'] = len(used)
    r.info['stale_table_entries'] = ['|'.join(k) for k, v in NAN_TABLE.items() if v[1] and k not in used]
    r.floor('NaN-source sites', 25, n)
    return r


# ---------------------------------------------------------------------------------------
# S16b: dispersion measures are non-negative by construction (sign analysis of the returned value tree)

def nonneg(t, facts, self_adt, f, depth=0):
    """True if the value tree is >= 0 (or NaN-free non-negative) by construction."""
    if depth > 12:
        return False
    while t[0] in ('ref', 'deref'):
        t = t[1]
    k = t[0]
    if k == 'const':
        return isinstance(t[2], (int, float)) and t[2] >= 0
    if k == 'call':
        name = t[4].rsplit('::', 1)[-1]
        if name in ('abs', 'sqrt'):
            return True
        if name == 'sum' and t[2]:
            x = t[2][0]
            while x[0] in ('ref', 'deref'):
                x = x[1]
            # sum over map(.., abs) / map(.., closure returning a non-negative value)
            if x[0] == 'call' and x[4].endswith('::map') and len(x[2]) == 2:
                fn = x[2][1]
                if fn[0] == 'fn' and fn[1].endswith('::abs'):
                    return True
                cid = next((y[2] for y in walk_tree(fn) if isinstance(y, tuple) and y and y[0] == 'agg' and y[1] == 'closure'), None)
                cbj = f.bodies.get(cid) if cid else None
                if cbj is not None and _returns_nonneg(cbj, facts, self_adt, f, depth + 1):
                    return True
            return False
        if name in ('max',) and any(nonneg(a, facts, self_adt, f, depth + 1) for a in t[2]):
            return True
        if name in ('get_divider',):
            return True if _accessor_positive(t, facts, f) else False
        # a crate-local helper all of whose results are non-negative (`abs_dev_sum(&self, center)`, ...)
        hb = f.generic_body(t[4]) if f.fns.get(t[4]) is not None or t[4] in getattr(f, 'fns', {}) else None
        if hb is not None and _returns_nonneg(hb, facts, self_adt, f, depth + 1):
            return True
        return False
    if k == 'bin':
        if t[1] in ('Mul',):
            if _norm(t[2]) == _norm(t[3]):
                return True
            return nonneg(t[2], facts, self_adt, f, depth + 1) and nonneg(t[3], facts, self_adt, f, depth + 1)
        if t[1] in ('Add',):
            return nonneg(t[2], facts, self_adt, f, depth + 1) and nonneg(t[3], facts, self_adt, f, depth + 1)
        if t[1] == 'Div':
            return nonneg(t[2], facts, self_adt, f, depth + 1) and nonneg(t[3], facts, self_adt, f, depth + 1)
        return False
    if k == 'cast':
        if t[1] == 'IntToFloat' and (t[3].startswith('u') or t[3] == 'bool'):
            return True
        return nonneg(t[2], facts, self_adt, f, depth + 1)
    if k == 'field':
        chain = _field_chain(t)
        if chain and self_adt:
            adt = self_adt
            for nm in chain[:-1]:
                a = f.adts.get(adt)
                nxt = None
                if a:
                    for v in a['variants']:
                        for fl in v['fields']:
                            if fl['name'] == nm and fl['tyj']['t'] == 'adt':
                                nxt = fl['tyj']['def']
                if nxt is None:
                    return False
                adt = nxt
            fact = facts.get((adt, chain[-1]))
            if fact and fact[0] == 'float' and not fact[3] and fact[1] >= 0:
                return True
            if fact and fact[0] == 'int' and fact[1] >= 0:
                return True
        return False
    return False


def _returns_nonneg(bj, facts, self_adt, f, depth):
    from paths import all_path_facts, TooManyPaths
    if depth > 6:
        return False
    b = Body(bj)
    adt = self_adt
    if b.arg_count >= 1 and not bj.get('closure_of'):
        tj = b.locals[1]['tyj']
        tj = tj['to'] if tj['t'] == 'ref' else tj
        if tj.get('t') == 'adt':
            adt = tj['def']
    try:
        pfs = [pf for pf in all_path_facts(b) if pf.returns]
    except TooManyPaths:
        return False
    return bool(pfs) and all(pf.ret is not None and nonneg(pf.ret, facts, adt, f, depth + 1) for pf in pfs)


def _accessor_positive(t, facts, f):
    # SMA::get_divider returns self.divider: constructor-fixed reciprocal of a length >= 1
    fact = facts.get(('methods::sma::SMA', 'divider'))
    return bool(fact and fact[0] == 'float' and not fact[3] and fact[1] > 0)


DISPERSION = ('methods::st_dev::StDev', 'methods::mean_abs_dev::MeanAbsDev', 'methods::median_abs_dev::MedianAbsDev')


def s16b_dispersion_sign(ctx):
    from paths import all_path_facts
    f = ctx.facts('default')
    m = Model(f)
    r = RuleResult('S16b', 'StDev, MeanAbsDev and MedianAbsDev are non-negative by construction (abs / sqrt / sums of abs times a positive '
                           'constructor-fixed factor)')
    facts = instance_float_int_facts(ctx)
    n = 0
    for i in m.peek_impls:
        adt = m.adt_path_of_impl(i)
        if adt not in DISPERSION:
            continue
        n += 1
        b = m.body(m.impl_fn_path(i, 'peek'))
        short = adt.rsplit('::', 1)[-1]
        for pf in all_path_facts(b):
            if not pf.returns:
                continue
            r.inst(short + '|peek')
            if pf.ret is None or not nonneg(pf.ret, facts, adt, f):
                r.violate(short + '|peek|sign-undecided', '%s::peek returns %s, which is not non-negative by construction' % (short, tree_str(pf.ret)[:120] if pf.ret else None), b.file, b.line)
            else:
                r.sample({'method': short, 'returns': tree_str(pf.ret)[:100], 'sign': '>= 0 by construction'})
    # next() of these returns peek() (checked by S11); nothing else to do here
    r.floor('dispersion measures', 3, n)
    return r


# ---------------------------------------------------------------------------------------
# S16c: band ordering by construction

# indicator instance -> positions of (upper, middle, lower) in the values array
BANDS_BY_CONSTRUCTION = {
    'indicators::bollinger_bands::BollingerBandsInstance': (0, 1, 2),
    # values = [source, upper, lower]; the middle line (the moving average) is not among the reported values
    'indicators::keltner_channel::KeltnerChannelInstance': (1, None, 2),
}
# averages all of whose weights are non-negative (C15 lists them): fed non-negative values they return a non-negative value.
# HMA, DEMA, TEMA, LinReg (negative weights) and a configurable `M::Instance` (any kind) are NOT in this table.
NONNEG_WEIGHT_AVERAGES = ('methods::sma::SMA', 'methods::wma::WMA', 'methods::swma::SWMA', 'methods::trima::TRIMA', 'methods::ema::EMA',
                          'methods::ema::DMA', 'methods::ema::TMA', 'methods::rma::RMA', 'methods::wsma::WSMA')
# OHLCV quantities that are a maximum minus a minimum over a set containing both
NONNEG_CANDLE_QUANTITIES = ('tr', 'tr_close')


def s16c_band_order(ctx):
    """upper = fma(x, s, m), lower = fma(x, -s, m) with x >= 0 and s >= 0: rounding is monotone, so upper >= m >= lower in floating
    point too (x*s >= 0 exactly, one rounding of m + x*s)."""
    from paths import all_path_facts
    f = ctx.facts('default')
    m = Model(f)
    r = RuleResult('S16c', 'bands built as middle +- k*dispersion with k >= 0 (validate) and dispersion >= 0 (S16b) are ordered upper >= middle >= lower')
    facts = instance_float_int_facts(ctx)
    nonneg_peek = set()
    for adt in DISPERSION:
        nonneg_peek.add(adt)
    n = 0
    for ii in m.instance_impls:
        adt = m.adt_path_of_impl(ii)
        if adt not in BANDS_BY_CONSTRUCTION:
            continue
        n += 1
        up, mid, lowp = BANDS_BY_CONSTRUCTION[adt]
        b = m.body_inlined(m.impl_fn_path(ii, 'next')) or m.body(m.impl_fn_path(ii, 'next'))
        short = adt.rsplit('::', 1)[-1]
        cfg_adt = None
        for v in f.adts[adt]['variants']:
            for fl in v['fields']:
                if fl['name'] == 'cfg' and fl['tyj']['t'] == 'adt':
                    cfg_adt = fl['tyj']['def']
        # find the values array handed to IndicatorResult::new
        done = False
        for bi, t in b.calls():
            if not (callee_def(t['callee']) or '').endswith('IndicatorResult::new'):
                continue
            arr = b.tree_of_operand(t['args'][0])
            while arr[0] in ('ref', 'deref', 'cast'):
                arr = arr[1] if arr[0] != 'cast' else arr[2]
            if arr[0] != 'agg' or arr[1] != 'array':
                continue
            vals = arr[3]
            key = short + '|band-order'
            r.inst(key)
            done = True
            U, M_, L = vals[up], (vals[mid] if mid is not None else None), vals[lowp]

            def decomp(t):
                """fma(x, s, m) / m + x*s / m - x*s  ->  (x, s, m, sign)"""
                while t[0] in ('ref', 'deref'):
                    t = t[1]
                if t[0] == 'call' and t[4].endswith('::mul_add') and len(t[2]) == 3:
                    x, s, mm = t[2]
                    sign = 1
                    while s[0] in ('ref', 'deref'):
                        s = s[1]
                    if s[0] == 'un' and s[1] == 'Neg':
                        s = s[2]
                        sign = -1
                    return _norm(x), _norm(s), _norm(mm), sign, x, s
                if t[0] == 'bin' and t[1] in ('Add', 'Sub') and t[3][0] == 'bin' and t[3][1] == 'Mul':
                    return _norm(t[3][2]), _norm(t[3][3]), _norm(t[2]), (1 if t[1] == 'Add' else -1), t[3][2], t[3][3]
                return None
            du, dl = decomp(U), decomp(L)
            if not du or not dl or du[3] != 1 or dl[3] != -1 or du[:3] != dl[:3] or (M_ is not None and du[2] != _norm(M_)):
                r.violate(key + '|shape', '%s::next no longer builds its bands as middle + k*x / middle - k*x around the value it reports as middle' % short, b.file, b.term_line(bi))
                continue
            x_tree, s_tree = du[4], du[5]
            # x: output of next() of a method whose peek is non-negative by construction
            xs = x_tree
            while xs[0] in ('ref', 'deref'):
                xs = xs[1]
            x_ok = False
            if xs[0] == 'call' and xs[4].endswith('Method>::next'):
                for d in DISPERSION:
                    if d in xs[4]:
                        x_ok = True
            if not x_ok and xs[0] == 'call' and xs[4].endswith('Method>::next') and len(xs[2]) == 2 \
                    and any(('<%s as ' % a) in xs[4] for a in NONNEG_WEIGHT_AVERAGES):
                # an average with non-negative weights of a non-negative quantity
                fed = xs[2][1]
                while fed[0] in ('ref', 'deref'):
                    fed = fed[1]
                if (fed[0] == 'call' and fed[4].rsplit('::', 1)[-1] in NONNEG_CANDLE_QUANTITIES and 'OHLCV' in fed[4]) or nonneg(fed, facts, adt, f):
                    x_ok = True
            x_ok = x_ok or nonneg(x_tree, facts, adt, f)
            # s: configuration factor >= 0
            chain = _field_chain(s_tree)
            s_ok = False
            if chain and chain[0] == 'cfg' and cfg_adt:
                fact = facts.get((cfg_adt, chain[-1]))
                s_ok = bool(fact and fact[0] == 'float' and not fact[3] and fact[1] >= 0)
            if not x_ok:
                r.violate(key + '|dispersion-sign', 'the dispersion term of %s is %s, not non-negative by construction' % (short, tree_str(x_tree)[:60]), b.file, b.term_line(bi))
            if not s_ok:
                r.violate(key + '|factor-sign', 'the band factor of %s (%s) is not bounded >= 0 by validate()' % (short, tree_str(s_tree)[:40]), b.file, b.term_line(bi))
            if x_ok and s_ok:
                r.sample({'indicator': short, 'upper': 'fma(x, k, middle)', 'lower': 'fma(x, -k, middle)', 'x': tree_str(x_tree)[:50], 'k': '.'.join(chain)})
        if not done:
            r.violate(short + '|band-order|no-array', 'cannot find the values array of %s::next' % short, b.file, b.line)
    r.floor('band indicators ordered by construction', len(BANDS_BY_CONSTRUCTION), n)
    return r
