"""C05 rule S07: every stateful component of an instance is stepped exactly once per input."""
from engine import RuleResult, Broken
from model import Model, T_METHOD, T_INSTANCE
from mir import Body, callee_is, callee_def, self_field_of_place, tree_str
from paths import enumerate_paths, path_ends_in_return, TooManyPaths

# fields whose step is legitimately conditional / absent (one symbol each, reason confirmed by reading)
# field -> (why a path of next() may skip the step, guard): every skipping path must have taken the guard decision
# guard = (substring of the switch discriminant, truth value it must have on the skipping path)
STEP_EXCEPTIONS = {
    'Integral.window': ('windowless mode (length 0): push guarded by !window.is_empty()', ('::is_empty(&*self.window)', True)),
    'ADI.window': ('windowless mode (length 0): push guarded by !window.is_empty()', ('::is_empty(&*self.window)', True)),
    'SWMA.right_window': ('length 1 has no right half: early return when right_window.is_empty()', ('::is_empty(&*self.right_window)', True)),
    'SWMA.left_window': ('length 1: the early-return path of next() answers without touching the (single-element) left window', ('::is_empty(&*self.right_window)', True)),
    # semantic guard: the path must have established `self.cfg.filter_period <= 1`, however the comparison is written (> 1 false, <= 1 true, < 2 ..)
    'KaufmanInstance.st_dev': ('stepped iff cfg.filter_period > 1 (a configuration constant): filtering disabled otherwise', ('self.cfg.filter_period', ('le', 1))),
    'AverageDirectionalIndexInstance.plus_di': ('skipped when the averaged true range is exactly 0, where +DI is undefined', ('::next(&*self.tr_ma', True)),
    'AverageDirectionalIndexInstance.minus_di': ('skipped when the averaged true range is exactly 0, where -DI is undefined', ('::next(&*self.tr_ma', True)),
}


def unguarded_skips(m, b, fp, guard, depth=0):
    """returning paths of b (following self-helpers) on which component fp is not stepped and the excusing guard decision was not taken"""
    from paths import PathFacts
    token, truth = guard
    site = {}

    def establishes(d, vals):
        """does taking this decision establish the guard?"""
        is_true = not (vals != 'otherwise' and 0 in vals)
        if not isinstance(truth, tuple):
            return token in tree_str(d) and is_true == truth
        # (field, ('le', c)): a comparison of that field with a constant which, with the truth value taken, implies field <= c
        if not (isinstance(d, tuple) and d and d[0] == 'bin' and d[1] in ('Gt', 'Ge', 'Lt', 'Le', 'Eq', 'Ne')):
            return False
        op, a, b_ = d[1], d[2], d[3]

        def cst(x):
            while isinstance(x, tuple) and x and x[0] in ('ref', 'deref', 'cast'):
                x = x[2] if x[0] == 'cast' else x[1]
            return x[2] if isinstance(x, tuple) and x and x[0] == 'const' and isinstance(x[2], int) and not isinstance(x[2], bool) else None

        def is_field(x):
            return tree_str(x).replace('*', '').replace('&', '').replace('(', '').replace(')', '') == token
        if cst(b_) is not None and is_field(a):
            c = cst(b_)
        elif cst(a) is not None and is_field(b_):
            c = cst(a)
            op = {'Gt': 'Lt', 'Ge': 'Le', 'Lt': 'Gt', 'Le': 'Ge', 'Eq': 'Eq', 'Ne': 'Ne'}[op]
        else:
            return False
        if not is_true:
            op = {'Gt': 'Le', 'Ge': 'Lt', 'Lt': 'Ge', 'Le': 'Gt', 'Eq': 'Ne', 'Ne': 'Eq'}[op]
        bound = truth[1]
        return (op == 'Le' and c <= bound) or (op == 'Lt' and c <= bound + 1) or (op == 'Eq' and c <= bound)

    helpers = {}
    for bi, t in b.calls():
        sf = _stepper_of_call(b, t)
        if sf:
            site[bi] = sf[0]
            continue
        res = t['callee'].get('res')
        if res and res.get('local') and t['args'] and depth < 3:
            x = b.tree_of_operand(t['args'][0])
            while x[0] in ('ref', 'deref'):
                x = x[1]
            if x[0] == 'arg' and x[1] == 1:
                hb = m.body_by_id(res['id'])
                if hb is not None and hb.arg_count >= 1 and hb.local_ty(1).startswith('&mut'):
                    helpers[bi] = hb
    bad = []
    for p in enumerate_paths(b, limit=60000):
        if not path_ends_in_return(b, p):
            continue
        if any(bb in site and site[bb] == fp for bb in p if bb != 'loop'):
            continue
        pf = PathFacts(b, p)
        guarded = False
        for d, vals, blk, allv in pf.decisions:
            if establishes(d, vals):
                guarded = True
        if guarded:
            continue
        hs = []
        for bb in p:
            if bb != 'loop' and bb in helpers:
                cnt = step_counts(m, helpers[bb], [fp], {}, depth + 1).get(fp, {0})
                if max(cnt) > 0:
                    hs.append((helpers[bb], cnt))       # a helper that can step this component
        if hs:
            if any(0 not in cnt for _, cnt in hs):
                continue
            sub = []
            for hb, cnt in hs:
                sub.extend(unguarded_skips(m, hb, fp, guard, depth + 1))
            if not sub:
                continue
            bad.extend(sub)
        else:
            bad.append('%s: path with decisions [%s]' % (b.defp.rsplit('::', 1)[-1], '; '.join('%s=%s' % (tree_str(d)[:50], v) for d, v, _, _ in pf.decisions[:4])))
    return bad


def _stepper_of_call(body, t):
    """If the call steps a component of self, return (field path tuple, kind)."""
    c = t['callee']
    if not t['args']:
        return None
    kind = None
    if callee_is(c, 'Method', 'next'):
        kind = 'next'
    else:
        d = callee_def(c) or ''
        if d.endswith('Window::<T>::push') or '::window::Window' in d and d.endswith('::push'):
            kind = 'push'
        elif d.endswith('CrossAbove::binary') or d.endswith('CrossUnder::binary'):
            kind = 'binary'
    if kind is None:
        return None
    a0 = body.tree_of_operand(t['args'][0])
    path = []
    x = a0
    while x[0] in ('ref', 'deref'):
        x = x[1]
    while x[0] == 'field':
        path.append(x[2])
        x = x[1]
        while x[0] in ('ref', 'deref'):
            x = x[1]
    if x[0] == 'arg' and x[1] == 1 and path:
        return tuple(reversed(path)), kind
    return None


def _stateful_fields(m, adt, method_types, depth=0, prefix=()):
    """field paths (tuples) of self whose type is a Method or a Window, including fields of plain (non-Method) structs"""
    out = []
    if adt is None or len(adt['variants']) != 1:
        return out
    for fl in adt['variants'][0]['fields']:
        tj = fl['tyj']
        if tj['t'] == 'adt':
            d = tj['def']
            if d in method_types or d.endswith('core::window::Window'):
                out.append(prefix + (fl['name'],))
        elif tj['t'] == 'alias' and 'MovingAverageConstructor>::Instance' in tj.get('s', ''):
            # `M::Instance` of a configurable moving average: a MovingAverage, hence a Method
            out.append(prefix + (fl['name'],))
    return out


def step_counts(m, b, fields, memo, depth=0):
    """{field path: set of possible numbers of steps over the returning paths of b}, following crate-local helpers
    that receive the whole `self`."""
    if b.id in memo:
        return memo[b.id]
    memo[b.id] = {}
    paths = enumerate_paths(b, limit=60000)
    site_field = {}
    helper_sites = {}
    for bi, t in b.calls():
        sf = _stepper_of_call(b, t)
        if sf:
            site_field[bi] = sf
            continue
        c = t['callee']
        res = c.get('res')
        if res and res.get('local') and t['args'] and depth < 3:
            a0 = b.tree_of_operand(t['args'][0])
            x = a0
            while x[0] in ('ref', 'deref'):
                x = x[1]
            if x[0] == 'arg' and x[1] == 1:
                hb = m.body_by_id(res['id'])
                if hb is not None and hb.arg_count >= 1 and hb.local_ty(1).startswith('&mut'):
                    helper_sites[bi] = step_counts(m, hb, fields, memo, depth + 1)
    # blocks that store directly into the state OF a component (`self.ema.value = ..`): the inlined body of a private step helper of the
    # component's own type; such a path advanced the component once even though no Method::next call is left to see
    store_blocks = {}
    for bi, si, st in b.stmts():
        if st['s'] != 'assign':
            continue
        sf = self_field_of_place(st['pl'])
        if not sf:
            continue
        for fp in fields:
            if len(sf) > len(fp) and tuple(sf[:len(fp)]) == tuple(fp):
                store_blocks.setdefault(tuple(fp), set()).add(bi)
    out = {}
    for fp in fields:
        acc = set()
        for p in paths:
            if not path_ends_in_return(b, p):
                continue
            cur = {0}
            for bb in p:
                if bb == 'loop':
                    continue
                if bb in site_field and site_field[bb][0] == fp:
                    cur = {x + 1 for x in cur}
                elif bb in helper_sites:
                    hs = helper_sites[bb].get(fp, {0})
                    cur = {x + y for x in cur for y in hs}
            if cur == {0} and any(bb in store_blocks.get(tuple(fp), ()) for bb in p if bb != 'loop'):
                cur = {1}
            acc |= cur
        out[fp] = acc or {0}
    memo[b.id] = out
    return out


def s07_step_once(ctx, only_types=None, rule_id='S07'):
    f = ctx.facts('default')
    m = Model(f)
    r = RuleResult(rule_id, 'every stateful component (field that is a Method or a Window) of every method / indicator instance is stepped '
                          'exactly once on every path of next()')
    method_types = m.types_implementing(T_METHOD)
    nfields = 0
    nfn = 0
    used_exc = set()
    for impls, trait in ((m.method_impls, 'Method'), (m.instance_impls, 'IndicatorInstance')):
        for i in impls:
            adt = m.adt_of_impl(i)
            if adt is None:
                continue
            short = m.short(i)
            if only_types and only_types != 'windowed' and short not in only_types:
                continue
            fields = _stateful_fields(m, adt, method_types)
            if only_types == 'windowed':
                # types that own a Window directly, or a windowed running sum (ADI / Integral) next to one: their windows must advance in lock-step
                def windowed(fl):
                    d = fl['tyj'].get('def', '') if fl['tyj']['t'] == 'adt' else ''
                    return d.endswith('core::window::Window') or d.endswith('::ADI') or d.endswith('::Integral')
                if not any(windowed(fl) for fl in adt['variants'][0]['fields']):
                    continue
            if not fields:
                continue
            b = m.body_inlined(m.impl_fn_path(i, 'next'))
            if b is None:
                raise Broken('no body for %s::next' % short)
            nfn += 1
            try:
                summary = step_counts(m, b, fields, {})
            except TooManyPaths:
                r.undecided.append('%s::next: too many paths' % short)
                continue
            for fp in fields:
                nfields += 1
                key = '%s.%s' % (short, '.'.join(fp))
                r.inst(key)
                counts = summary.get(fp, {0})
                if b.has_loop():
                    # a step inside a loop is not countable per path: require the step sites to lie outside every loop
                    pass
                if counts == {1}:
                    if len(r.samples) < 6:
                        r.sample({'field': key, 'steps per path': [1]})
                    continue
                if key in STEP_EXCEPTIONS and counts <= {0, 1} and 1 in counts:
                    used_exc.add(key)
                    why, guard = STEP_EXCEPTIONS[key]
                    bad = unguarded_skips(m, b, fp, guard)
                    if bad:
                        r.violate(key + '|skipped-outside-exception', 'component %s may legitimately be skipped only when %s; next() also skips it on: %s' % (key, why, bad[0][:200]), b.file, b.line)
                    else:
                        r.sample({'field': key, 'steps per path': sorted(counts), 'exception': why, 'guard on every skipping path': '%s is %s' % (guard[0], guard[1])})
                    continue
                if _ref_escapes_into_aggregate(b, fp):
                    r.undecided.append('%s: a mutable reference to the component is stored in an array / tuple and handed on; how often it is stepped there is not decided' % key)
                    continue
                if counts == {0}:
                    r.violate(key + '|never-stepped', 'component %s is never stepped by next(): its window no longer holds the last n of anything' % key, b.file, b.line)
                elif max(counts) > 1:
                    r.violate(key + '|stepped-%d-times' % max(counts), 'component %s is stepped %s times on some path of next()' % (key, sorted(counts)), b.file, b.line)
                else:
                    r.violate(key + '|conditionally-stepped', 'component %s is stepped on some paths of next() and skipped on others (%s)' % (key, sorted(counts)), b.file, b.line)
    if only_types == 'windowed':
        r.floor('next functions of windowed types', 32, nfn)
        r.floor('stateful fields', 60, nfields)
    else:
        r.floor('next functions with stateful components', 60 if not only_types else len(only_types), nfn)
        r.floor('stateful fields', 150 if not only_types else len(only_types), nfields)
    r.info.update({'fields': nfields, 'functions': nfn, 'exceptions_used': sorted(used_exc),
                   'stale_exceptions': sorted(set(STEP_EXCEPTIONS) - used_exc) if not only_types else []})
    return r


def _ref_escapes_into_aggregate(b, fp):
    """does next() take `&mut self.<fp>` and put that reference (or a reborrow of it) into an aggregate (array, tuple, struct)?"""
    refs = set()
    changed = True
    rounds = 0
    while changed and rounds < 4:
        changed = False
        rounds += 1
        for bi, si, st in b.stmts():
            if st['s'] != 'assign' or st['pl']['p']:
                continue
            rv = st['rv']
            if rv['r'] in ('ref', 'rawptr'):
                sf = self_field_of_place(rv['pl'])
                src_l = rv['pl']['l']
                if (sf is not None and list(sf)[:len(fp)] == list(fp)) or (src_l in refs):
                    if st['pl']['l'] not in refs:
                        refs.add(st['pl']['l'])
                        changed = True
            elif rv['r'] == 'use' and rv['a'].get('o') in ('copy', 'move') and rv['a']['pl']['l'] in refs and not rv['a']['pl']['p']:
                if st['pl']['l'] not in refs:
                    refs.add(st['pl']['l'])
                    changed = True
            elif rv['r'] == 'cast' and rv['a'].get('o') in ('copy', 'move') and rv['a']['pl']['l'] in refs:
                if st['pl']['l'] not in refs:
                    refs.add(st['pl']['l'])
                    changed = True
    for bi, si, st in b.stmts():
        if st['s'] == 'assign' and st['rv']['r'] == 'agg':
            for o in st['rv']['ops']:
                if o.get('o') in ('copy', 'move') and o['pl']['l'] in refs:
                    return True
    return False


# ---------------------------------------------------------------------------------------------------------------
# S07n: the construction value reaches the constructed state
# ---------------------------------------------------------------------------------------------------------------
S07N_EXCEPTIONS = {
    # type -> (reason, predicate on the printed payload that must hold for the exception to apply)
    'ADI': ('windowless ADI (length 0) is the documented cumulative mode: it starts from zero', 'Window::<f64>::empty'),
    'CollapseTimeframe': ('a fresh chunk is started by the first input itself; the method is one of the counting methods the properties exempt', ''),
}


def s07n_seed_reaches_state(ctx, only_types=None, rule_id='S07n'):
    """`Method::new(params, &value)` documents value as "initial value (simply first input value)". On every path that returns Ok the
    constructed state must be computed from that value: a constructor that builds its state from defaults (or primes copies it then
    throws away) starts from no history at all instead of the constant prehistory of `value`."""
    from paths import enumerate_paths
    from symexec import PathSym
    from mir import walk_tree, tree_str
    f = ctx.facts('default')
    m = Model(f)
    r = RuleResult(rule_id, 'the state Method::new returns is computed from the construction value on every Ok path')
    n = 0
    for impl in m.method_impls:
        adt = m.adt_path_of_impl(impl)
        if not adt:
            continue
        short = adt.rsplit('::', 1)[-1]
        if only_types and short not in only_types:
            continue
        pth = m.impl_fn_path(impl, 'new')
        b = m.body_inlined(pth, prefer_mono=False) if pth else None
        if b is None or b.arg_count != 2:
            continue
        # a unit-like method without any state has nothing to seed
        fields = [fl for v in f.adts.get(adt, {}).get('variants', []) for fl in v['fields']]
        if not fields:
            continue
        n += 1
        try:
            paths = list(enumerate_paths(b, limit=3000))
        except Exception:
            r.undecided.append('%s::new: too many paths' % short)
            continue
        for path in paths:
            ps = PathSym(b, path)
            if not ps.returns or ps.infeasible or ps.ret is None:
                continue
            t = ps.ret
            while isinstance(t, tuple) and t and t[0] in ('ref', 'deref'):
                t = t[1]
            if t[0] == 'agg' and t[1] == 'adt' and str(t[2]).endswith('Result::Err'):
                continue
            if t[0] == 'call' and 'from_residual' in t[1]:
                continue
            key = '%s|new' % short
            r.inst(key)
            if any(isinstance(x, tuple) and x and x[0] == 'arg' and x[1] == 2 for x in walk_tree(t)):
                continue
            try:
                shown = tree_str(t)
            except Exception:
                shown = str(t)
            exc = S07N_EXCEPTIONS.get(short)
            if exc and (not exc[1] or exc[1] in shown):
                r.sample({'type': short, 'exception': exc[0]})
                continue
            r.violate(key + '|value-unused', '%s::new returns, on a path that succeeds, a state that does not depend on the construction value (%s): '
                      'the instance starts from defaults, not from the constant prehistory of its first input' % (short, shown[:100]), b.file, b.line)
            break
    r.floor('method constructors', 30 if not only_types else len(only_types), n)
    return r
