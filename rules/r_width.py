"""C20 rules: S21-iso (the PeriodType-width builds are one program up to the integer type) and
S21-ops (width-sensitive operations enumerated)."""
import json
import re

from engine import RuleResult, Broken

WIDTHS = {'default': ('u8', 8), 'u16': ('u16', 16), 'u32': ('u32', 32), 'u64': ('u64', 64)}


def _tok_sub(s, a, b):
    return re.sub(r'(?<![A-Za-z0-9_])%s(?![A-Za-z0-9_])' % a, b, s)


class Diff:
    def __init__(self, ta, tb, bits_a, bits_b):
        self.ta, self.tb, self.ba, self.bb = ta, tb, bits_a, bits_b
        self.bad = []
        self.pt_sites = 0
        self.cap_sites = []

    def capacity_pair(self, va, vb):
        ma, mb = (1 << self.ba) - 1, (1 << self.bb) - 1
        for j in (0, 1, 2):
            for k in range(0, 9):
                if va == (ma >> j) - k and vb == (mb >> j) - k:
                    return True
        return False

    def same_str(self, a, b):
        if a == b:
            return True
        # identical after replacing the PeriodType name (token-wise); the narrower build may also use that
        # name for genuinely fixed-width integers, so substitute only where needed: align token streams
        ta = re.findall(r'[A-Za-z0-9_]+|[^A-Za-z0-9_]', a)
        tb = re.findall(r'[A-Za-z0-9_]+|[^A-Za-z0-9_]', b)
        if len(ta) != len(tb):
            return False
        for x, y in zip(ta, tb):
            if x != y and not (x == self.ta and y == self.tb):
                return False
        self.pt_sites += 1
        return True

    def walk(self, a, b, path):
        if type(a) != type(b):
            self.bad.append((path, 'kind', a, b))
            return
        if isinstance(a, dict):
            # scalar constants of PeriodType
            if a.get('c') == 'scalar' and b.get('c') == 'scalar':
                if a == b:
                    return
                ty_ok = (a['ty'] == self.ta and b['ty'] == self.tb) or a['ty'] == b['ty']
                if ty_ok:
                    self.pt_sites += 1
                    if a['ty'] != b['ty'] and a['bits'] == b['bits'] and a['bits'] <= (1 << (self.ba - 1)):
                        return
                    if self.capacity_pair(a['bits'], b['bits']):
                        self.cap_sites.append((path, a['bits'], b['bits']))
                        return
                    self.bad.append((path, 'constant is neither equal nor a capacity constant (MAX/2^j - k)', a, b))
                    return
                self.bad.append((path, 'constant', a, b))
                return
            if set(a) != set(b):
                self.bad.append((path, 'keys', sorted(a), sorted(b)))
                return
            for k in a:
                if k in ('sp', 'l', 'line', 'file'):
                    continue
                self.walk(a[k], b[k], path + (k,))
        elif isinstance(a, list):
            if len(a) != len(b):
                self.bad.append((path, 'length', len(a), len(b)))
                return
            for i, (x, y) in enumerate(zip(a, b)):
                self.walk(x, y, path + (i,))
        elif isinstance(a, str):
            if not self.same_str(a, b):
                self.bad.append((path, 'string', a, b))
        else:
            if a != b:
                if isinstance(a, int) and isinstance(b, int) and not isinstance(a, bool) and self.capacity_pair(a, b):
                    self.cap_sites.append((path, a, b))
                    return
                self.bad.append((path, 'value', a, b))


def s21_iso(ctx):
    r = RuleResult('S21-iso', 'the period_type_u16/u32/u64 builds are the default build with PeriodType renamed: same items, same MIR up '
                              'to the integer type and MAX-k capacity constants')
    fd = ctx.facts('default')
    others = [s for s in ('u16', 'u32', 'u64') if s in ctx.sets]
    if not others:
        raise Broken('no wide PeriodType feature set requested')
    for fs in others:
        fo = ctx.facts(fs)
        ta, ba = WIDTHS['default']
        tb, bb = WIDTHS[fs]
        # instance ids mention the type: normalise
        ids_d = {k: k for k in fd.bodies}
        ids_o = {}
        for k in fo.bodies:
            ids_o[_tok_sub(k, tb, ta)] = k
        only_d = set(ids_d) - set(ids_o)
        only_o = set(ids_o) - set(ids_d)
        # ids legitimately mentioning u8 in both builds map to themselves; tolerate ids where the substitution collides
        for k in sorted(only_d):
            r.violate('iso|%s|missing-in-%s|%s' % (fs, fs, k), 'function %s exists in the default build but not in the %s build' % (k, fs))
        for k in sorted(only_o):
            r.violate('iso|%s|extra-in-%s|%s' % (fs, fs, k), 'function %s exists only in the %s build' % (ids_o[k], fs))
        npt = 0
        caps = {}
        for k in sorted(set(ids_d) & set(ids_o)):
            a, b = fd.bodies[k], fo.bodies[ids_o[k]]
            d = Diff(ta, tb, ba, bb)
            d.walk({'locals': a['locals'], 'blocks': a['blocks'], 'arg_count': a['arg_count']},
                   {'locals': b['locals'], 'blocks': b['blocks'], 'arg_count': b['arg_count']}, ())
            r.inst('iso|%s|%s' % (fs, k), d.pt_sites > 0)
            npt += d.pt_sites
            if d.bad:
                p, why, x, y = d.bad[0]
                r.violate('iso|%s|%s|%s' % (fs, a['def'], why), 'MIR of %s differs between the default and %s builds beyond the PeriodType rename: %s at %s: %s vs %s' % (
                    a['def'], fs, why, '/'.join(str(q) for q in p[-6:]), json.dumps(x)[:120], json.dumps(y)[:120]), a['file'], a['line'])
            elif d.pt_sites and len(r.samples) < 6:
                r.sample({'build': fs, 'fn': k, 'PeriodType-typed sites renamed': d.pt_sites})
            if d.cap_sites:
                caps.setdefault(a['def'], []).extend((x, y) for _, x, y in d.cap_sites)
        for name, A, B in (('adts', fd.adts, fo.adts), ('fns', fd.fns, fo.fns), ('consts', fd.consts, fo.consts)):
            B = {_tok_sub(k, tb, ta): v for k, v in B.items()}
            for k in sorted(set(A) ^ set(B)):
                r.violate('iso|%s|item|%s' % (fs, k), '%s %s exists only in one of the default / %s builds' % (name, k, fs))
        r.info['pt_sites_' + fs] = npt
        r.info['capacity_constant_functions_' + fs] = {k: sorted(set(v))[:4] for k, v in sorted(caps.items())}
    r.floor('bodies compared', 1500, r.instances // max(1, len(others)))
    return r


# ---------------------------------------------------------------------------------------
# S21-ops: width-sensitive operations on PeriodType-typed values

INSENSITIVE_CALLS = ('saturating_sub', 'checked_sub', 'min', 'max', 'clamp', 'abs_diff', 'cmp', 'partial_cmp', 'eq', 'ne',
                     'lt', 'le', 'gt', 'ge', 'clone', 'fmt', 'is_power_of_two', 'count_ones', 'hash', 'default', 'into', 'from',
                     'to_string', 'parse', 'from_str', 'serialize', 'deserialize', 'serialize_field', 'next_element', 'next_value',
                     'sum', 'product', 'pow', 'sub', 'div', 'rem')
CONSTRUCTOR_FNS = ('new', 'validate', 'init', 'deserialize', 'from_parts', 'from', 'try_from', 'from_str', 'default', 'empty')

# step-function sites argued by hand (function definition path, operation) -> one-line argument
SLOT_FN = '@Window index->slot mapping'       # resolved by role (wroles.py): `Window::slice_index` today
WIDTH_TABLE = {
    (SLOT_FN, 'call saturating_add'):
        'the saturated sum is used only multiplied by (1 - overflow) where overflow = (saturated >= size): whenever the true sum '
        'exceeds the type it also exceeds size <= MAX-1, so the saturated value is discarded in every width',
    ('<methods::highest_lowest_index::HighestIndex as core::method::Method>::next', 'cast usize'):
        'the cast operand is an enumerate() position over the window iterator, < window.len() <= PeriodType::MAX-1 in the narrow build',
    ('<methods::highest_lowest_index::LowestIndex as core::method::Method>::next', 'cast usize'):
        'same as HighestIndex::next',
}


def s21_ops(ctx):
    r = RuleResult('S21-ops', 'every width-sensitive operation on a PeriodType-typed value (narrowing/float cast into it, '
                              'saturating/checked/wrapping add-mul-shl, capacity constants) lies in a constructor-like function or '
                              'carries a table argument')
    fd = ctx.facts('default')
    fs = 'u16' if 'u16' in ctx.sets else [s for s in ctx.sets if s in ('u32', 'u64')][0]
    fo = ctx.facts(fs)
    ta, tb = WIDTHS['default'][0], WIDTHS[fs][0]
    used_table = set()
    n_sens = 0
    import wroles
    slot_path = wroles.window_roles(fd).slot_fn_path
    WIDTH_TABLE = {((slot_path if k_[0] == SLOT_FN else k_[0]), k_[1]): v_ for k_, v_ in globals()['WIDTH_TABLE'].items()}
    # a private helper all of whose callers are constructor-like is constructor-like itself (a range check moved out of deserialize, ...)
    callers = {}
    for k0, a0 in fd.bodies.items():
        if not a0['generic']:
            continue
        for blk in a0['blocks']:
            t0 = blk['term']
            if t0['t'] == 'call' and t0['callee'].get('local') and t0['callee'].get('def'):
                callers.setdefault(t0['callee']['def'], set()).add(a0['def'].split('::{closure')[0])
    memo = {}

    def constructor_like(d, depth=0):
        base = d.split('::{closure')[0]
        if base in memo:
            return memo[base]
        fname_ = base.rsplit('::', 1)[-1]
        if fname_ in CONSTRUCTOR_FNS:
            memo[base] = True
            return True
        memo[base] = False
        fn_ = fd.fns.get(base)
        cs = callers.get(base) or set()
        if depth < 4 and fn_ is not None and fn_.get('vis') != 'pub' and cs and all(constructor_like(c, depth + 1) for c in cs if c != base):
            memo[base] = True
        return memo[base]
    for k, a in sorted(fd.bodies.items()):
        if not a['generic']:
            continue
        b = fo.bodies.get(k) or fo.bodies.get(_tok_sub(k, ta, tb))
        if b is None or len(a['blocks']) != len(b['blocks']):
            continue    # reported by S21-iso
        fname = a['def'].rsplit('::', 1)[-1]
        constructor = fname in CONSTRUCTOR_FNS or '{closure' in fname and any(('::' + c + '::') in a['def'] for c in CONSTRUCTOR_FNS) or constructor_like(a['def'])
        for ba, bb in zip(a['blocks'], b['blocks']):
            sites = []
            for sa, sb in zip(ba['stmts'], bb['stmts']):
                if sa['s'] == 'assign' and sa['rv'].get('r') == 'cast' and sb['rv'].get('r') == 'cast' and sa['rv']['to'] != sb['rv']['to']:
                    frm = sa['rv']['from']
                    if sa['rv'].get('kind', '').startswith('PointerCoercion') or frm.startswith('fn(') or sa['rv']['to'].startswith('fn('):
                        continue        # a function item coerced to a function pointer: the PeriodType in its signature is not a value
                    if frm == 'bool':
                        r.inst('%s|cast bool' % a['def'], False)
                        continue
                    sites.append(('cast ' + frm, sa['sp']['l']))
            t1, t2 = ba['term'], bb['term']
            if t1['t'] == 'call' and t2['t'] == 'call' and t1['callee'].get('def') and t1['callee']['def'] != t2['callee'].get('def'):
                nm = t1['callee'].get('name')
                if nm in INSENSITIVE_CALLS:
                    r.inst('%s|call %s' % (a['def'], nm), False)
                else:
                    sites.append(('call ' + nm, ba['sp']['l']))
            for op, line in sites:
                n_sens += 1
                key = '%s|%s' % (a['def'], op)
                r.inst(key)
                if constructor:
                    r.sample({'fn': a['def'], 'op': op, 'class': 'constructor-like: capacity check / range-checked parameter', 'line': line})
                    continue
                tk = (a['def'], op)
                if tk not in WIDTH_TABLE:
                    # the argued computation moved into a helper of the same source file keeps its argument (matched by file and operation)
                    for (tfn, top), why_ in WIDTH_TABLE.items():
                        tb_ = fd.generic_body(tfn)
                        if top == op and tb_ is not None and tb_['file'] == a['file'] and not any(
                                x['def'] == tfn and any(s_['s'] == 'assign' and s_['rv'].get('r') == 'cast' and ('cast ' + s_['rv']['from']) == op for blk_ in x['blocks'] for s_ in blk_['stmts'])
                                for x in [tb_]):
                            tk = (tfn, top)
                            break
                if tk in WIDTH_TABLE:
                    used_table.add(tk)
                    r.sample({'fn': a['def'], 'op': op, 'class': 'table', 'argument': WIDTH_TABLE[tk]})
                    continue
                r.violate(key + '|unargued', '%s performs `%s` on a PeriodType-typed value in a non-constructor function: its result depends on '
                          'the width of PeriodType (saturation/truncation point), so the u8 and wider builds can diverge for parameters that '
                          'fit; no argument is recorded for it' % (a['def'], op), a['file'], line)
    # capacity constants outside constructor-like functions (from the iso diff)
    iso = s21_iso(ctx)
    caps = iso.info.get('capacity_constant_functions_' + fs, {})
    for d in sorted(caps):
        fname = d.rsplit('::', 1)[-1]
        r.inst('%s|capacity-constant' % d)
        if fname not in CONSTRUCTOR_FNS and not constructor_like(d):
            r.violate('%s|capacity-constant|step-function' % d, '%s compares against a PeriodType::MAX-derived constant %s outside a constructor / '
                      'validate / deserialize function: behaviour depends on the width for parameters that fit' % (d, caps[d][:2]))
    r.info['sensitive_sites'] = n_sens
    r.info['table_entries_used'] = len(used_table)
    r.info['stale_table_entries'] = [list(k) for k in WIDTH_TABLE if k not in used_table]
    r.floor('width-sensitive sites', 10, n_sens)
    return r
