"""C19 rule S20: the unsafe_performance build is the default build up to checked/unchecked twins."""
import json

from engine import RuleResult, Broken
from model import Model

SEL_MACROS = ('cfg', '$crate::cfg')


def _mask_body(b):
    """Canonical text of a MIR body: spans dropped, `cfg!` selector constants masked."""
    def strip(o):
        if isinstance(o, dict):
            if o.get('s') == 'assign' and isinstance(o.get('sp'), dict) and any(m in SEL_MACROS for m in o['sp'].get('m', [])):
                rv = o['rv']
                if rv.get('r') == 'use' and rv['a'].get('o') == 'const' and rv['a']['v'].get('ty') == 'bool':
                    return {'s': 'assign', 'pl': strip(o['pl']), 'rv': 'CFG-SELECTOR'}
            return {k: strip(v) for k, v in o.items() if k not in ('sp', 'file', 'line', 'l')}
        if isinstance(o, list):
            return [strip(x) for x in o]
        return o
    return json.dumps({'locals': [l['ty'] for l in b['locals']], 'blocks': strip(b['blocks'])}, sort_keys=True)


def _selectors(b):
    """[(bb, stmt index, value)] of user-written cfg! selector constants (not those inside debug_assert!)."""
    out = []
    for bi, blk in enumerate(b['blocks']):
        for si, s in enumerate(blk['stmts']):
            if s['s'] == 'assign' and s['sp'].get('m') and s['sp']['m'][0] in SEL_MACROS and 'debug_assert' not in s['sp']['m'] and 'assert' not in s['sp']['m']:
                rv = s['rv']
                if rv.get('r') == 'use' and rv['a'].get('o') == 'const' and rv['a']['v'].get('ty') == 'bool':
                    out.append((bi, si, bool(rv['a']['v']['bits'])))
    return out


def _canon_hir(e):
    """HIR tree without line numbers / macro tags / type strings (structure + resolved names)."""
    if isinstance(e, dict):
        return {k: _canon_hir(v) for k, v in e.items() if k not in ('l', 'm', 'ty', 'aty', 'recv_ty', 'base_ty', 'scrut_ty', 'from', 'to', 'unsafe')}
    if isinstance(e, list):
        return [_canon_hir(x) for x in e]
    return e


def _unwrap_block(e):
    """{ expr } -> expr"""
    while isinstance(e, dict) and e.get('e') == 'block' and not e['stmts'] and e.get('expr'):
        e = e['expr']
    return e


def _find(e, pred, out, ctx=()):
    if isinstance(e, dict):
        if pred(e):
            out.append((e, ctx))
        for k, v in e.items():
            _find(v, pred, out, ctx + ((e, k),))
    elif isinstance(e, list):
        for x in e:
            _find(x, pred, out, ctx)


def _is_cfg_lit(e):
    return (isinstance(e, dict) and e.get('e') == 'lit' and e.get('kind') == 'bool' and e.get('m') and e['m'][0] in SEL_MACROS
            and not any(x in ('debug_assert', 'assert', '$crate::assert') for x in e['m']))


def _normalise_negated_selectors(e):
    """`if !cfg!(..) { A } else { B }` is the diamond `if cfg!(..) { B } else { A }`: rewrite it so (any number of `!`s)."""
    if isinstance(e, list):
        return [_normalise_negated_selectors(x) for x in e]
    if not isinstance(e, dict):
        return e
    e = {k: _normalise_negated_selectors(v) for k, v in e.items()}
    if e.get('e') == 'if' and e.get('else') is not None:
        c = e['cond']
        neg = 0
        while isinstance(c, dict) and c.get('e') == 'un' and c.get('op') == 'Not':
            c = c['a']
            neg += 1
        c = _unwrap_block(c)
        if neg and _is_cfg_lit(c):
            e = dict(e)
            e['cond'] = c
            if neg % 2:
                e['then'], e['else'] = e['else'], e['then']
                # the literal keeps its own value: the arms moved instead
    return e


def _cfg_if_values(e, out):
    """{line of the selector literal: its value} for every `if <cfg literal>` with an else arm"""
    if isinstance(e, list):
        for x in e:
            _cfg_if_values(x, out)
    elif isinstance(e, dict):
        if e.get('e') == 'if' and e.get('else') is not None and _is_cfg_lit(e.get('cond')):
            out[e['cond'].get('l')] = e['cond'].get('v')
        for v in e.values():
            _cfg_if_values(v, out)


def _flip_selected(e, lines):
    """swap the arms (and flip the literal) of the cfg-ifs whose selector sits on one of `lines`: `cfg!(not(feature = ..))` diamonds become
    `cfg!(feature = ..)` diamonds, in both builds alike"""
    if isinstance(e, list):
        return [_flip_selected(x, lines) for x in e]
    if not isinstance(e, dict):
        return e
    e = {k: _flip_selected(v, lines) for k, v in e.items()}
    if e.get('e') == 'if' and e.get('else') is not None and _is_cfg_lit(e.get('cond')) and e['cond'].get('l') in lines:
        c = dict(e['cond'])
        c['v'] = 'false' if c.get('v') == 'true' else 'true'
        e['cond'] = c
        e['then'], e['else'] = e['else'], e['then']
    return e


def _single_call(arm):
    """the crate-local call an arm consists of (`{ self.helper(a, b); }` / `{ helper(a, b) }`), else None"""
    a = arm
    for _ in range(4):
        if isinstance(a, dict) and a.get('e') == 'block' and not a.get('unsafe'):
            if not a['stmts'] and a.get('expr'):
                a = a['expr']
                continue
            if len(a['stmts']) == 1 and not a.get('expr') and a['stmts'][0].get('s') in ('semi', 'expr'):
                a = a['stmts'][0]['e']
                continue
        break
    if isinstance(a, dict) and a.get('e') in ('mcall', 'call'):
        res = a.get('resolved') if a['e'] == 'mcall' else (a.get('f') or {}).get('resolved')
        if isinstance(res, dict) and res.get('local') and res.get('def'):
            return a, res['def']
    return None


def _inline_arm_helpers(e, hir, inlined_defs):
    """a cfg-selected arm that only calls a private helper with its own locals as arguments (same names as the helper's parameters) is the
    helper's body: replace it, so that the unsafe block and its checked twin moved into `replace_unchecked` / `replace_checked` are examined
    as the two arms of the diamond they still are"""
    if isinstance(e, list):
        return [_inline_arm_helpers(x, hir, inlined_defs) for x in e]
    if not isinstance(e, dict):
        return e
    e = {k: _inline_arm_helpers(v, hir, inlined_defs) for k, v in e.items()}
    if e.get('e') == 'if' and e.get('else') is not None and _is_cfg_lit(e.get('cond')):
        for arm in ('then', 'else'):
            sc = _single_call(e[arm])
            if not sc:
                continue
            call, d = sc
            hh = hir.get(d)
            if hh is None:
                continue
            params = [p.get('name') for p in hh.get('params', []) if isinstance(p, dict) and p.get('p') == 'bind']
            if len(params) != len(hh.get('params', [])):
                continue
            args = ([call['recv']] if call['e'] == 'mcall' else []) + list(call['args'])
            names = []
            for a in args:
                a = _strip_autoref(a)
                names.append(a.get('name') if isinstance(a, dict) and a.get('e') == 'path' and a.get('res') == 'local' else None)
            if names == params:
                e[arm] = hh['body']
                inlined_defs.add(d)
    return e


def _norm_pair(fd, fu):
    """HIR of both builds with negated selectors (`!cfg!(f)`, `cfg!(not(f))`) rewritten to the positive form"""
    if getattr(fu, '_s20_norm_pair', None) is None:
        nd = {d: dict(h, body=_normalise_negated_selectors(h['body'])) for d, h in fd.hir.items()}
        nu = {d: dict(h, body=_normalise_negated_selectors(h['body'])) for d, h in fu.hir.items()}
        for d, hu in nu.items():
            vals_u = {}
            _cfg_if_values(hu['body'], vals_u)
            if not vals_u or d not in nd:
                continue
            vals_d = {}
            _cfg_if_values(nd[d]['body'], vals_d)
            # selectors that are off in the feature build and on in the default build: the condition is the negation of the feature
            lines = {l for l, v in vals_u.items() if v == 'false' and vals_d.get(l) == 'true'}
            if lines:
                nu[d] = dict(hu, body=_flip_selected(hu['body'], lines))
                nd[d] = dict(nd[d], body=_flip_selected(nd[d]['body'], lines))
        inl_u, inl_d = set(), set()
        nu = {d: dict(h, body=_inline_arm_helpers(h['body'], nu, inl_u)) for d, h in nu.items()}
        nd = {d: dict(h, body=_inline_arm_helpers(h['body'], nd, inl_d)) for d, h in nd.items()}
        fu._s20_norm_pair = (nd, nu)
        fu._s20_inlined_helpers = inl_u
    return fu._s20_norm_pair


def _textual_unsafe_blocks():
    import os
    import re as _re
    from engine import REPO
    n = 0
    for root, dirs, files in os.walk(os.path.join(REPO, 'src')):
        for fn in files:
            if not fn.endswith('.rs'):
                continue
            txt = open(os.path.join(root, fn), encoding='utf-8', errors='replace').read()
            cut = txt.find('#[cfg(test)]')
            if cut >= 0:
                txt = txt[:cut]
            txt = _re.sub(r'//[^\n]*', '', txt)
            txt = _re.sub(r'"(?:\\.|[^"\\])*"', '""', txt)
            n += len(_re.findall(r'\bunsafe\s*\{', txt))
    return n


def _only_called_from_feature_arms(fu, fu_hir, d):
    """every call of d in the (un-normalised) HIR of the feature build is the single statement of the then-arm of a selector that is on"""
    total = []
    for dd, h in fu.hir.items():
        calls = []
        _find(h['body'], lambda e: e.get('e') in ('mcall', 'call') and ((e.get('resolved') if e.get('e') == 'mcall' else (e.get('f') or {}).get('resolved')) or {}).get('def') == d, calls)
        for c_, cx in calls:
            ok = False
            ifs = [(e, k) for e, k in cx if e.get('e') == 'if']
            if ifs:
                e_if, k_ = ifs[-1]
                cond = e_if.get('cond')
                neg = 0
                while isinstance(cond, dict) and cond.get('e') == 'un' and cond.get('op') == 'Not':
                    cond = cond['a']
                    neg += 1
                if _is_cfg_lit(cond):
                    on = (cond.get('v') == 'true') != (neg % 2 == 1)
                    taken = 'then' if on else 'else'
                    sc = _single_call(e_if.get(taken))
                    ok = k_ == taken and sc is not None and sc[1] == d
            total.append(ok)
    return bool(total) and all(total)


def _judge_pair(ife):
    """('twin', accessor) | ('affine', None) | ('bad', why) for the unchecked (then) and checked (else) version of one access"""
    then_ = _unwrap_block(ife['then'])
    else_ = _unwrap_block(ife['else']) if ife.get('else') else None
    t_inner = None
    if then_.get('e') == 'block' and then_.get('unsafe') and not then_['stmts']:
        t_inner = _unwrap_block(then_['expr'])
    elif then_.get('e') == 'mcall':
        t_inner = then_
    why = ''
    if t_inner and t_inner.get('e') == 'mcall' and t_inner['name'] in ('get_unchecked', 'get_unchecked_mut') and else_ is not None:
        mut = t_inner['name'].endswith('_mut')
        recv = _strip_autoref(t_inner['recv'])
        idx = t_inner['args'][0]
        if else_.get('e') == 'addr' and else_['a'].get('e') == 'index':
            if else_['mut'] != mut:
                why = 'mutability of the two arms differs'
            elif _canon_hir(_strip_autoref(else_['a']['base'])) != _canon_hir(recv):
                why = 'the two arms access different containers'
            elif _canon_hir(else_['a']['idx']) != _canon_hir(idx):
                why = 'the two arms use different index expressions'
            else:
                return 'twin', t_inner['name']
        else:
            why = 'the checked arm is not `&base[index]`'
    res = affine_equiv(ife)
    if res is True:
        return 'affine', None
    return 'bad', 'neither a checked/unchecked twin (%s) nor affine-equivalent block moves (%s)' % (why or 'shape', res)


def s20_unsafe_twins(ctx):
    fd = ctx.facts('default')
    fu = ctx.facts('unsafe')
    fd_hir, fu_hir = _norm_pair(fd, fu)
    r = RuleResult('S20', 'unsafe_performance build == default build except inside cfg!-selected diamonds whose arms are '
                          'checked/unchecked twins of the same access (and one affine-equivalent block move)')
    # ---- (1) inventory
    ids_d = {k for k, b in fd.bodies.items()}
    ids_u = {k for k, b in fu.bodies.items()}
    for k in sorted(ids_d ^ ids_u):
        r.violate('inventory|body-only-in-one-build|' + k, 'function %s exists only in the %s build' % (k, 'default' if k in ids_d else 'unsafe_performance'))
    for name, a, b in (('adts', fd.adts, fu.adts), ('fns', fd.fns, fu.fns), ('consts', fd.consts, fu.consts)):
        for k in sorted(set(a) ^ set(b)):
            r.violate('inventory|%s|%s' % (name, k), 'item %s exists only in one of the two builds' % k)
    twin_helpers = []
    n_same = 0
    flipped = {}   # body id -> list of selector positions whose value flips
    for k in sorted(ids_d & ids_u):
        bd, bu = fd.bodies[k], fu.bodies[k]
        r.inst('shape|' + k, False)
        same = _mask_body(bd) == _mask_body(bu)
        sd, su = _selectors(bd), _selectors(bu)
        if same:
            n_same += 1
            fl = [(x[0], x[1]) for x, y in zip(sd, su) if x[2] != y[2]]
            if fl:
                flipped[k] = fl
            continue
        if (bd['file'], bd['line']) != (bu['file'], bu['line']):
            if bd['def'] not in twin_helpers:
                twin_helpers.append(bd['def'])      # two #[cfg]-selected definitions of one function
        else:
            r.violate('inventory|differs-outside-diamond|' + k, 'the MIR of %s differs between the builds outside a cfg! selector '
                      '(feature-dependent code that is not a checked/unchecked twin)' % k, bd['file'], bd['line'])
    r.info['bodies_compared'] = len(ids_d & ids_u)
    r.info['bodies_identical_up_to_selectors'] = n_same
    # ---- (2) confinement of unsafe blocks, (3) twins  (HIR of the unsafe build)
    n_unsafe = 0
    n_diamonds = 0
    diamond_fns = set()
    for d, h in sorted(fu_hir.items()):
        found = []
        _find(h['body'], lambda e: e.get('e') == 'block' and e.get('unsafe') and not e.get('m'), found)
        for blk, cx in found:
            n_unsafe += 1
            key = 'unsafe|%s' % d
            r.inst(key + '@%s' % blk.get('l'))
            # enclosing if whose condition is a cfg! literal and we are in its `then`
            encl = [(e, k) for e, k in cx if e.get('e') == 'if' and _is_cfg_lit(e.get('cond'))]
            if encl and all(k == 'then' for e, k in encl[-1:]):
                sel = encl[-1][0]
                if sel['cond']['v'] != 'true':
                    r.violate(key + '|selector-false', 'unsafe block lives in the arm taken when the feature is OFF', h['file'], blk.get('l'))
                # the same selector must be false in the default build (i.e. it is the unsafe_performance one)
                hd = fd_hir.get(d)
                conds = []
                if hd:
                    _find(hd['body'], lambda e: e.get('e') == 'if' and _is_cfg_lit(e.get('cond')) and e['cond'].get('l') == sel['cond'].get('l'), conds)
                if not conds or conds[0][0]['cond']['v'] != 'false':
                    r.violate(key + '|selector-not-feature', 'the cfg! selector guarding this unsafe block does not flip between the default and '
                              'unsafe_performance builds', h['file'], blk.get('l'))
                diamond_fns.add(d)
                continue
            # twin helper: whole function exists in two cfg-selected versions
            if d in twin_helpers:
                continue
            # a private helper whose every call is the whole `then` arm of a feature diamond: examined there (inlined above)
            if d in getattr(fu, '_s20_inlined_helpers', ()) and _only_called_from_feature_arms(fu, fu_hir, d):
                n_unsafe_in_helpers = r.info.get('unsafe_blocks_in_arm_helpers', 0) + 1
                r.info['unsafe_blocks_in_arm_helpers'] = n_unsafe_in_helpers
                continue
            r.violate(key + '|outside-diamond', 'unsafe block in %s is not confined to a cfg!(feature = "unsafe_performance") arm nor to a '
                      'feature-selected twin definition' % d, h['file'], blk.get('l'))
    # unsafe fns / impls
    for p, fn in fu.fns.items():
        if fn['sig'].startswith('unsafe ') or ' unsafe fn' in fn['sig']:
            r.violate('unsafe-fn|' + p, 'unsafe fn %s' % p, fn['file'], fn['line'])
    # ---- (3) twins per diamond
    examined = {}
    for d in sorted(diamond_fns):
        h = fu_hir[d]
        ifs = []
        _find(h['body'], lambda e: e.get('e') == 'if' and _is_cfg_lit(e.get('cond')), ifs)
        for ife, cx in ifs:
            # only outermost selector ifs
            if any(e.get('e') == 'if' and _is_cfg_lit(e.get('cond')) for e, k in cx):
                continue
            n_diamonds += 1
            examined[d] = examined.get(d, 0) + 1
            key = 'diamond|%s@%s' % (d, '')
            if ife['cond']['v'] != 'true':
                r.violate('diamond|%s|selector-off-in-feature-build' % d, 'a cfg! selector of %s is false in the unsafe_performance build: the '
                          'arms are swapped with respect to the feature' % d, h['file'], ife.get('l'))
                continue
            verdict, detail = _judge_pair(ife)
            if verdict == 'twin':
                r.sample({'fn': d, 'twin': '%s(%s) / checked index' % (detail, 'same base, same index'), 'line': ife.get('l')})
                r.inst('twin|%s@%s' % (d, ife.get('l')))
                continue
            r.inst('affine|%s@%s' % (d, ife.get('l')))
            if verdict == 'affine':
                r.sample({'fn': d, 'twin': 'affine block-move equivalence (both orderings) + same store', 'line': ife.get('l')})
            else:
                r.violate('diamond|%s|not-twin' % d, 'the arms of the unsafe_performance diamond in %s are %s' % (d, detail), h['file'], ife.get('l'))
    # ---- twin helpers
    for d in twin_helpers:
        r.inst('twin-helper|' + d)
        hu, hd = fu_hir.get(d), fd_hir.get(d)
        if not hu or not hd:
            r.violate('twin-helper|%s|no-hir' % d, 'cannot compare the two definitions of %s' % d)
            continue
        su, sd = fu.fns[d]['sig'], fd.fns[d]['sig']
        if su != sd:
            r.violate('twin-helper|%s|signature' % d, 'the two cfg-selected definitions of %s have different signatures' % d, hu['file'], hu['line'])
        # the two definitions are the two arms of a diamond whose selector is the #[cfg] attribute
        verdict, detail = _judge_pair({'e': 'if', 'then': hu['body'], 'else': hd['body'], 'l': hu.get('line')})
        if verdict == 'bad':
            r.violate('twin-helper|%s|not-twin' % d, 'the two cfg-selected definitions of %s are %s' % (d, detail), hu['file'], hu['line'])
        elif verdict == 'twin':
            r.sample({'fn': d, 'twin': 'feature-selected helper: %s(slice,index) / &slice[index]' % detail})
        else:
            r.sample({'fn': d, 'twin': 'feature-selected helper: affine block-move equivalence (both orderings) + same store'})
    # every flipped selector must be the condition of an examined diamond
    for k, fl in flipped.items():
        if not fu.bodies[k]['generic']:
            continue
        d = fu.bodies[k]['def']
        r.inst('selector|' + d)
        if d not in diamond_fns:
            r.violate('selector|%s|unexamined' % d, 'a cfg! selector flips between the builds in %s but guards no examined diamond' % d,
                      fu.bodies[k]['file'], fu.bodies[k]['line'])
        elif len(fl) != examined.get(d, 0):
            r.violate('selector|%s|not-a-plain-diamond' % d, '%s contains %d feature selector(s) but %d examined `if cfg!(..) {..} else {..}` diamond(s): a '
                      'selector is combined with other conditions or used as a value, so feature-dependent behaviour escapes the twin check' % (
                          d, len(fl), examined.get(d, 0)), fu.bodies[k]['file'], fu.bodies[k]['line'])
    # the extractor must see every `unsafe` block the source text contains (counted independently, outside comments, strings and test
    # modules): a refactoring may merge or split blocks, so the expected number is recomputed from the working tree, not frozen
    n_text = _textual_unsafe_blocks()
    r.floor('unsafe blocks (= `unsafe {` in the source text)', n_text, n_unsafe)
    r.floor('unsafe blocks', 3, n_unsafe)
    r.floor('diamonds and feature-selected twin definitions', 2, n_diamonds + len(twin_helpers))
    r.floor('bodies compared', 1500, len(ids_d & ids_u))
    r.info.update({'unsafe_blocks': n_unsafe, 'diamonds': n_diamonds, 'twin_helpers': twin_helpers})
    return r


def _strip_autoref(e):
    while isinstance(e, dict) and (e.get('e') == 'addr' or (e.get('e') == 'un' and e.get('op') == 'Deref')):
        e = e['a']
    return e


# ---------------------------------------------------------------------------------------
# affine forms with one boolean split (DESIGN §4.4)

class Undecided(Exception):
    pass


class Aff:
    """c0 + sum ci*xi over named variables"""
    def __init__(self, c=0, t=None):
        self.c = c
        self.t = {k: v for k, v in (t or {}).items() if v != 0}

    def __add__(self, o):
        t = dict(self.t)
        for k, v in o.t.items():
            t[k] = t.get(k, 0) + v
        return Aff(self.c + o.c, t)

    def __neg__(self):
        return Aff(-self.c, {k: -v for k, v in self.t.items()})

    def __sub__(self, o):
        return self + (-o)

    def scale(self, k):
        return Aff(self.c * k, {a: b * k for a, b in self.t.items()})

    def is_const(self):
        return not self.t

    def key(self):
        return (self.c, tuple(sorted(self.t.items())))

    def __repr__(self):
        s = ' + '.join('%d*%s' % (v, k) for k, v in sorted(self.t.items()))
        return (s + (' + %d' % self.c if self.c or not s else '')) if s else str(self.c)


class AffEval:
    """Evaluates HIR integer expressions to affine forms under an order fact a<b / a>b between two variables."""

    def __init__(self, order):
        self.order = order          # ('gt'|'lt'|'eq', a, b): a ? b
        self.env = {}

    def cmp_truth(self, op, a, b):
        """truth of `a op b` for plain local variables under the order fact (else None)"""
        o, x, y = self.order
        rel = None
        if (a, b) == (x, y):
            rel = o
        elif (a, b) == (y, x):
            rel = {'gt': 'lt', 'lt': 'gt', 'eq': 'eq'}[o]
        if rel is None:
            return None
        table = {'Gt': rel == 'gt', 'Lt': rel == 'lt', 'Ge': rel in ('gt', 'eq'), 'Le': rel in ('lt', 'eq'), 'Eq': rel == 'eq', 'Ne': rel != 'eq'}
        return table.get(op)

    def var_of(self, e):
        e = _unwrap_block(e)
        if e.get('e') == 'path' and e.get('res') == 'local':
            # a let-bound name that is itself an input variable
            n = e['name']
            v = self.env.get(n)
            if v is None:
                return n
            if len(v.t) == 1 and v.c == 0 and list(v.t.values()) == [1]:
                return list(v.t)[0]
        return None

    def ev(self, e):
        e = _unwrap_block(e)
        k = e.get('e')
        if k == 'lit' and e['kind'] == 'int':
            return Aff(int(e['v']))
        if k == 'path' and e.get('res') == 'local':
            n = e['name']
            return self.env.get(n, Aff(0, {n: 1}))
        if k == 'bin':
            op = e['op']
            if op in ('Add', 'Sub'):
                a, b = self.ev(e['a']), self.ev(e['b'])
                return a + b if op == 'Add' else a - b
            if op == 'Mul':
                a, b = self.ev(e['a']), self.ev(e['b'])
                if a.is_const():
                    return b.scale(a.c)
                if b.is_const():
                    return a.scale(b.c)
                raise Undecided('non-affine product')
            raise Undecided('operator ' + op)
        if k == 'cast':
            inner = _unwrap_block(e['a'])
            if inner.get('e') == 'bin' and inner['op'] in ('Gt', 'Lt', 'Ge', 'Le', 'Eq', 'Ne'):
                a, b = self.var_of(inner['a']), self.var_of(inner['b'])
                if a is None or b is None:
                    raise Undecided('comparison of non-variables')
                t = self.cmp_truth(inner['op'], a, b)
                if t is None:
                    raise Undecided('second split variable')
                return Aff(1 if t else 0)
            return self.ev(inner)
        if k == 'call' and len(e.get('args') or []) == 1:
            # `usize::from(flag)` / `From::from(x)` of a bool or a narrower unsigned integer is the same number as `x as usize`
            fpath = e.get('f') or {}
            res = fpath.get('resolved') or {}
            nm = (res.get('def') or res.get('name') or fpath.get('name') or '')
            if nm.endswith('::from') or nm == 'from' or (fpath.get('e') == 'path' and str(fpath.get('name', '')).endswith('from')):
                return self.ev({'e': 'cast', 'a': e['args'][0]})
        if k == 'mcall' and e['name'] == 'saturating_sub' and len(e['args']) == 1:
            a, b = self.ev(e['recv']), self.ev(e['args'][0])
            d = a - b
            if d.is_const():
                return Aff(max(d.c, 0))
            va, vb = self.var_of(e['recv']), self.var_of(e['args'][0])
            if va is not None and vb is not None:
                t = self.cmp_truth('Ge', va, vb)
                if t is True:
                    return d
                t2 = self.cmp_truth('Le', va, vb)
                if t2 is True:
                    return Aff(0)
            raise Undecided('saturating_sub not resolved by the case')
        raise Undecided('expression kind ' + str(k))


def _stmts_and_tail(block):
    b = block
    if b.get('e') != 'block':
        return [], b
    return b['stmts'], b.get('expr')


def _moves_unsafe(arm, order):
    """moves [(src,dst,count)] and stores [(index, value-canon)] performed by the unsafe arm under `order`."""
    ev = AffEval(order)
    moves, stores = [], []

    def run(block):
        stmts, tail = _stmts_and_tail(block)
        items = [(s['s'], s) for s in stmts] + ([('tail', {'e': tail})] if tail else [])
        for kind, s in items:
            if kind == 'let':
                pat = s['pat']
                if pat.get('p') != 'bind' or s.get('init') is None:
                    raise Undecided('let pattern')
                init = _unwrap_block(s['init'])
                # let q = slice.get_unchecked_mut(i)
                if init.get('e') == 'mcall' and init['name'] in ('get_unchecked_mut',):
                    ev.env['@ref:' + pat['name']] = (ev.ev(init['args'][0]), _canon_hir(_strip_autoref(init['recv'])))
                    continue
                ev.env[pat['name']] = ev.ev(init)
                continue
            e = _unwrap_block(s['e'])
            if e is None:
                continue
            k = e.get('e')
            if k == 'if':
                c = _unwrap_block(e['cond'])
                if c.get('e') == 'bin' and c['op'] in ('Ne', 'Eq', 'Gt', 'Lt', 'Ge', 'Le'):
                    a, b = ev.var_of(c['a']), ev.var_of(c['b'])
                    t = ev.cmp_truth(c['op'], a, b) if a and b else None
                    if t is None:
                        raise Undecided('branch on an undecided condition')
                    if t:
                        run(e['then'])
                    elif e.get('else'):
                        run(e['else'])
                    continue
                raise Undecided('if condition')
            if k == 'block':
                run(e)
                continue
            if k == 'call' and e['f'].get('e') == 'path' and (e['f'].get('def') or '').endswith('ptr::copy'):
                src, dst, cnt = e['args']
                moves.append((_ptr_off(ev, src), _ptr_off(ev, dst), ev.ev(cnt)))
                continue
            if k == 'assign':
                lhs = _unwrap_block(e['lhs'])
                if lhs.get('e') == 'un' and lhs['op'] == 'Deref' and lhs['a'].get('e') == 'path':
                    ref = ev.env.get('@ref:' + lhs['a']['name'])
                    if ref:
                        stores.append((ref[0], ref[1], _canon_hir(e['rhs'])))
                        continue
                if lhs.get('e') == 'index':
                    stores.append((ev.ev(lhs['idx']), _canon_hir(_strip_autoref(lhs['base'])), _canon_hir(e['rhs'])))
                    continue
                if lhs.get('e') == 'un' and lhs['op'] == 'Deref':
                    inner = _unwrap_block(lhs['a'])
                    if inner.get('e') == 'mcall' and inner['name'] == 'get_unchecked_mut' and len(inner['args']) == 1:
                        # `*slice.get_unchecked_mut(i) = v` without the intermediate `let q`
                        stores.append((ev.ev(inner['args'][0]), _canon_hir(_strip_autoref(inner['recv'])), _canon_hir(e['rhs'])))
                        continue
                raise Undecided('assignment target')
            raise Undecided('statement kind ' + str(k))
    run(arm)
    return moves, stores


def _ptr_off(ev, e):
    """slice.as_ptr().add(off) / slice.as_mut_ptr().add(off) -> (base canon, off)"""
    e = _unwrap_block(e)
    if e.get('e') == 'mcall' and e['name'] == 'add':
        base = _unwrap_block(e['recv'])
        if base.get('e') == 'mcall' and base['name'] in ('as_ptr', 'as_mut_ptr'):
            return (json.dumps(_canon_hir(_strip_autoref(base['recv'])), sort_keys=True), ev.ev(e['args'][0]).key())
    raise Undecided('pointer expression')


def _moves_safe(arm, order):
    ev = AffEval(order)
    moves, stores = [], []

    def range_of(e):
        e = _unwrap_block(e)
        # a..b  /  a..=b are lowered to struct literals / calls
        if e.get('e') == 'struct' and e['path'].get('def', '').endswith('Range'):
            fs = {f['name']: f['v'] for f in e['fields']}
            lo, hi = ev.ev(fs['start']), ev.ev(fs['end'])
            return lo, hi - lo
        if e.get('e') == 'call' and 'RangeInclusive' in json.dumps(e['f'])[:400]:
            lo, hi = ev.ev(e['args'][0]), ev.ev(e['args'][1])
            return lo, hi - lo + Aff(1)
        raise Undecided('range expression')

    def do_copy_within(e):
        base = json.dumps(_canon_hir(_strip_autoref(e['recv'])), sort_keys=True)
        lo, cnt = range_of(e['args'][0])
        dst = ev.ev(e['args'][1])
        moves.append(((base, lo.key()), (base, dst.key()), cnt))

    def run(block):
        stmts, tail = _stmts_and_tail(block)
        items = [(s['s'], s) for s in stmts] + ([('tail', {'e': tail})] if tail else [])
        for kind, s in items:
            if kind == 'let':
                ev.env[s['pat']['name']] = ev.ev(s['init'])
                continue
            e = _unwrap_block(s['e'])
            if e is None:
                continue
            k = e.get('e')
            if k == 'match':
                sc = _unwrap_block(e['scrut'])
                if sc.get('e') == 'mcall' and sc['name'] == 'cmp':
                    a, b = ev.var_of(sc['recv']), ev.var_of(_strip_autoref(sc['args'][0]))
                    o, x, y = ev.order
                    rel = o if (a, b) == (x, y) else ({'gt': 'lt', 'lt': 'gt', 'eq': 'eq'}[o] if (a, b) == (y, x) else None)
                    if rel is None:
                        raise Undecided('cmp operands')
                    want = {'gt': 'Greater', 'lt': 'Less', 'eq': 'Equal'}[rel]
                    for arm_ in e['arms']:
                        p = arm_['pat']
                        pd = json.dumps(p)
                        if ('Ordering::' + want) in pd or p.get('p') == 'wild':
                            body = _unwrap_block(arm_['body'])
                            if body.get('e') == 'mcall' and body['name'] == 'copy_within':
                                do_copy_within(body)
                            elif body.get('e') == 'block' and not body['stmts'] and not body.get('expr'):
                                pass
                            elif body.get('e') == 'tup' and not body['xs']:
                                pass
                            else:
                                run(body)
                            break
                    else:
                        raise Undecided('no arm for ' + want)
                    continue
                raise Undecided('match scrutinee')
            if k == 'mcall' and e['name'] == 'copy_within':
                do_copy_within(e)
                continue
            if k == 'if':
                # `if index > old_index { .. } else if index < old_index { .. }` instead of `match index.cmp(&old_index)`
                c = _unwrap_block(e['cond'])
                if c.get('e') == 'bin' and c['op'] in ('Ne', 'Eq', 'Gt', 'Lt', 'Ge', 'Le'):
                    a_, b_ = ev.var_of(c['a']), ev.var_of(c['b'])
                    t_ = ev.cmp_truth(c['op'], a_, b_) if a_ and b_ else None
                    if t_ is None:
                        raise Undecided('branch on an undecided condition')
                    if t_:
                        run(e['then'])
                    elif e.get('else'):
                        run(e['else'])
                    continue
                raise Undecided('if condition')
            if k == 'assign' and _unwrap_block(e['lhs']).get('e') == 'index':
                lhs = _unwrap_block(e['lhs'])
                stores.append((ev.ev(lhs['idx']), _canon_hir(_strip_autoref(lhs['base'])), _canon_hir(e['rhs'])))
                continue
            if k == 'block':
                run(e)
                continue
            raise Undecided('statement kind ' + str(k))
    run(arm)
    return moves, stores


def affine_equiv(ife):
    """True, or a string explaining why equivalence could not be established."""
    then_, else_ = ife['then'], ife.get('else')
    if else_ is None:
        return 'no checked arm'
    # discover the two compared variables from the first comparison in the unsafe arm
    cmps = []
    _find(then_, lambda e: e.get('e') == 'bin' and e.get('op') in ('Ne', 'Gt', 'Lt') and e['a'].get('res') == 'local' and e['b'].get('res') == 'local', cmps)
    if not cmps:
        return 'no order test between two variables'
    a, b = cmps[0][0]['a']['name'], cmps[0][0]['b']['name']
    try:
        for rel in ('gt', 'lt', 'eq'):
            mu, su = _moves_unsafe(then_, (rel, a, b))
            ms, ss = _moves_safe(else_, (rel, a, b))
            nm = lambda ms_: sorted((s, d, c.key()) for s, d, c in ms_ if not (c.is_const() and c.c == 0))
            if nm(mu) != nm(ms):
                return 'case %s %s %s: moves differ: unchecked %s vs checked %s' % (a, rel, b, nm(mu), nm(ms))
            ns = lambda ss_: sorted((i.key(), json.dumps(bs, sort_keys=True), json.dumps(v, sort_keys=True)) for i, bs, v in ss_)
            if ns(su) != ns(ss):
                return 'case %s %s %s: stores differ' % (a, rel, b)
            if len(su) != 1:
                return 'expected exactly one store'
    except Undecided as e:
        return 'undecided: %s' % e
    return True
