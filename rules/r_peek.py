"""C09 rule S11: peek() returns the value most recently produced by next()."""
from engine import RuleResult, Broken
from model import Model, T_METHOD, T_PEEK
from mir import Body, tree_str, walk_tree
from paths import enumerate_paths, TooManyPaths
from symexec import PathSym


def _strip(t):
    while isinstance(t, tuple) and t and t[0] in ('ref', 'deref'):
        t = t[1]
    return t


def unclone(t):
    while isinstance(t, tuple) and t and (t[0] in ('ref', 'deref') or (t[0] == 'call' and t[4].endswith('::clone') and len(t[2]) == 1)):
        t = t[1] if t[0] != 'call' else t[2][0]
    return t


class PeekCheck:
    def __init__(self, m):
        self.m = m
        self.f = m.f
        self.peek_fn = {}     # adt path -> peek def path
        self.next_fn = {}
        for i in m.peek_impls:
            p = m.adt_path_of_impl(i)
            if p:
                self.peek_fn[p] = m.impl_fn_path(i, 'peek')
        for i in m.method_impls:
            p = m.adt_path_of_impl(i)
            if p:
                self.next_fn[p] = m.impl_fn_path(i, 'next')
        self.by_peek_def = {v: k for k, v in self.peek_fn.items()}
        self.by_next_def = {v: k for k, v in self.next_fn.items()}
        self.memo = {}
        self.peek_trees = {}
        self.helper_trees = {}

    # ---- canonical form: current-state field leaves, inlined sub-peeks -------------------------------------
    def peek_tree(self, adt):
        """single canonical tree of X::peek over ('SF', fieldpath) leaves, or None if peek branches"""
        if adt in self.peek_trees:
            return self.peek_trees[adt]
        self.peek_trees[adt] = None
        b = self.m.body_inlined(self.peek_fn[adt], only_mut=True)
        if b is None:
            return None
        trees = []
        try:
            for p in enumerate_paths(b, limit=2000):
                ps = PathSym(b, p)
                if ps.returns:
                    trees.append(self.canon(ps.ret, ps, final=True, post_call_ok=False))
        except TooManyPaths:
            return None
        uniq = []
        for t in trees:
            if t not in uniq:
                uniq.append(t)
        res = uniq[0] if len(uniq) == 1 else None
        self.peek_trees[adt] = res
        return res

    def helper_tree(self, d):
        """canonical result of a crate-local `fn(&self) -> V` that only reads its receiver (one result expression on all paths), else None"""
        if d in self.helper_trees:
            return self.helper_trees[d]
        self.helper_trees[d] = None
        b = self.m.body(d)
        if b is None or b.arg_count != 1 or not b.local_ty(1).startswith('&') or b.local_ty(1).startswith('&mut'):
            return None
        trees = []
        try:
            for p in enumerate_paths(b, limit=200):
                ps = PathSym(b, p)
                if ps.returns:
                    if ps.stores or any(tr[6] for _, tr in ps.calls):
                        return None
                    trees.append(self.canon(ps.ret, ps, final=True, post_call_ok=False))
        except TooManyPaths:
            return None
        if len(trees) >= 1 and all(t == trees[0] for t in trees) and not any(x and x[0] in ('local', 'rt') for x in walk_tree(trees[0])):
            self.helper_trees[d] = trees[0]
        return self.helper_trees[d]

    def rebase(self, tree, prefix):
        if not isinstance(tree, tuple):
            return tree
        if tree and tree[0] == 'SF':
            return ('SF', prefix + tree[1])
        return tuple(self.rebase(x, prefix) for x in tree)

    def canon(self, t, ps, final, post_call_ok=True):
        """Rewrite a PathSym tree: reads of self fields at their final version -> ('SF', path); stale reads -> ('STALE', path);
        values equal to what was last stored into a field -> ('SF', path); sub-method next()/peek() calls on a field -> the
        inlined peek tree of that field's type (valid when the call is the last mutation of that field)."""
        if not isinstance(t, tuple) or not t:
            return t
        k = t[0]
        if k in ('ref', 'deref'):
            return self.canon(t[1], ps, final, post_call_ok)
        if k == 'call' and t[4].endswith('::clone') and len(t[2]) == 1:
            return self.canon(t[2][0], ps, final, post_call_ok)        # a clone is the same value
        # value identical to the last store into some field
        ut = unclone(t)
        hits = sorted(fp for (fp, v), tr in ps.known.items() if v == ps.final_version(fp[0]) and ut[0] != 'const' and unclone(tr) == ut)
        if len(hits) == 1:
            return ('SF', hits[0])
        if hits:
            return ('SFANY', tuple(hits))       # the same value was stored into several fields: it is the final value of each of them
        if k == 'sf':
            fp, v = t[1], t[2]
            if not fp:
                return ('SELF',)
            if v == ps.final_version(fp[0]):
                return ('SF', fp)
            # the field was rewritten later: maybe with a value we know
            kn = ps.known.get((fp, v))
            return ('STALE', fp)
        if k == 'call':
            d = t[4]
            args = t[2]
            if d in self.by_peek_def and args:
                a0 = _strip(args[0])
                if a0[0] == 'sf':
                    fp = a0[1]
                    if fp and a0[2] != ps.final_version(fp[0]):
                        return ('STALE-CALL', d, fp)
                    sub = self.peek_tree(self.by_peek_def[d])
                    if sub is not None:
                        return self.rebase(sub, fp)
                    return ('peek', self.by_peek_def[d], fp)
                if (a0[0] == 'arg' and a0[1] == 1) or (a0[0] == 'sf' and not a0[1]):
                    # self.peek(): valid only if nothing is mutated afterwards
                    if t[5] == ps.final_snapshot():
                        sub = self.peek_tree(self.by_peek_def[d])
                        return sub if sub is not None else ('peek', self.by_peek_def[d], ())
                    return ('STALE-CALL', d, ())
            if d in self.by_next_def and args and post_call_ok:
                a0 = _strip(args[0])
                if a0[0] == 'sf':
                    fp = a0[1]
                    adt = self.by_next_def[d]
                    # the call must be the last mutation of that field
                    epoch, vers = t[5]
                    ver_after = dict(vers).get(fp[0], 0) + epoch
                    if ver_after == ps.final_version(fp[0]) and adt in self.peek_fn and self.check_type(adt):
                        sub = self.peek_tree(adt)
                        if sub is not None:
                            return self.rebase(sub, fp)
                        return ('peek', adt, fp)
            if len(args) == 1 and d not in self.by_peek_def and d not in self.by_next_def:
                # a crate-local read-only accessor `fn h(&self) -> V` applied to self or to a field: inline its (single) result expression
                a0 = _strip(args[0])
                target = None
                if a0[0] == 'sf':
                    target = a0[1]
                    stale = bool(target) and a0[2] != ps.final_version(target[0])
                    if not target:
                        stale = t[5] != ps.final_snapshot()
                elif a0[0] == 'arg' and a0[1] == 1:
                    target = ()
                    stale = t[5] != ps.final_snapshot()
                if target is not None:
                    sub = self.helper_tree(d)
                    if sub is not None:
                        if stale:
                            return ('STALE-CALL', d, target)
                        return self.rebase(sub, target)
            return ('call', d, tuple(self.canon(a, ps, final, post_call_ok) for a in args))
        if k == 'cast' and t[1] in ('PointerCoercion',):
            return self.canon(t[2], ps, final, post_call_ok)
        return tuple(self.canon(x, ps, final, post_call_ok) if isinstance(x, tuple) else x for x in t)

    # ---- the rule per type ---------------------------------------------------------------------------------------
    def check_type(self, adt):
        """True if next() of `adt` provably returns peek() evaluated on the post-state on every path."""
        if adt in self.memo:
            return self.memo[adt] is True
        self.memo[adt] = 'in-progress'
        res = self._check(adt)
        self.memo[adt] = res
        return res is True

    def _check(self, adt):
        if adt not in self.peek_fn or adt not in self.next_fn:
            return 'no peek/next pair'
        nb = self.m.body_inlined(self.next_fn[adt], only_mut=True)
        if nb is None:
            return 'no body'
        P = self.peek_tree(adt)
        try:
            paths = enumerate_paths(nb, limit=4000)
        except TooManyPaths:
            return 'too many paths in next()'
        bad = []
        for p in paths:
            ps = PathSym(nb, p)
            if not ps.returns or ps.ret is None:
                continue
            R = self.canon(ps.ret, ps, final=True)
            if P is not None and same_tree(R, P):
                continue
            if P is not None and P[0] == 'SF' and isinstance(R, tuple) and R and R[0] == 'const':
                # the path returns a literal and stored that very literal into the field peek() reads, as its last write
                fin = ps.known.get((P[1], ps.final_version(P[1][0])))
                if fin is not None and unclone(fin) == R:
                    continue
            if R[0] == 'peek' and R[1] == adt and R[2] == ():
                continue    # returns self.peek() evaluated last (peek branches: kept opaque)
            bad.append((R, ps))
        if not bad:
            return True
        R, ps = bad[0]
        return ('differs', R, P)


def same_tree(r, p):
    """r == p where an ('SFANY', fields) leaf of r equals ('SF', f) for any of its fields"""
    if r == p:
        return True
    if isinstance(r, tuple) and r and r[0] == 'SFANY':
        return isinstance(p, tuple) and p and p[0] == 'SF' and p[1] in r[1]
    if isinstance(r, tuple) and isinstance(p, tuple) and len(r) == len(p):
        return all(same_tree(x, y) for x, y in zip(r, p))
    return False


def s11_peek_next_agreement(ctx):
    f = ctx.facts('default')
    m = Model(f)
    r = RuleResult('S11', 'on every path of next(), the returned value is peek() evaluated on the state next() leaves behind')
    pc = PeekCheck(m)
    n = 0
    for adt in sorted(pc.peek_fn):
        if adt not in pc.next_fn:
            continue
        n += 1
        short = adt.rsplit('::', 1)[-1]
        res = pc._check(adt) if adt not in pc.memo or pc.memo[adt] == 'in-progress' else pc.memo[adt]
        pc.memo[adt] = res
        r.inst(short)
        nb = m.body(pc.next_fn[adt])
        if res is True:
            P = pc.peek_tree(adt)
            r.sample({'type': short, 'peek': tree_str(P)[:80] if P else 'self.peek() (opaque)', 'next': 'returns it on every path'})
        elif isinstance(res, tuple) and (m.body_inlined(pc.next_fn[adt], only_mut=True) or nb).has_loop():
            # the returned value comes out of a loop (stages stepped through a slice of references, ...): the per-path comparison below
            # would judge the zero-iteration path; listed, not decided
            r.undecided.append('%s::next returns a value computed in a loop: peek / next agreement not decided' % short)
        elif isinstance(res, tuple):
            _, R, P = res
            r.violate(short + '|peek-differs-from-next', '%s::next can return %s while peek() afterwards is %s: peek does not give the value most recently produced' % (
                short, show(R)[:110], show(P)[:90] if P else 'a branching expression'), nb.file, nb.line)
        else:
            r.violate(short + '|undecided|' + str(res), 'cannot decide peek/next agreement for %s: %s' % (short, res), nb.file if nb else None, nb.line if nb else None)
    r.floor('Peekable methods', 28, n)
    return r


def show(t):
    if not isinstance(t, tuple) or not t:
        return str(t)
    k = t[0]
    if k == 'SF':
        return 'self.' + '.'.join(t[1])
    if k == 'STALE':
        return 'OLD(self.%s)' % '.'.join(t[1])
    if k == 'arg':
        return t[2] or 'arg%d' % t[1]
    if k == 'call':
        return '%s(%s)' % (t[1].rsplit('::', 1)[-1], ', '.join(show(a) for a in t[2]))
    if k == 'bin':
        return '%s(%s, %s)' % (t[1], show(t[2]), show(t[3]))
    if k == 'const':
        return str(t[2])
    if k == 'peek':
        return 'peek(self.%s)' % '.'.join(t[2])
    return tree_str(t)
