"""C10 rule S12: validate() dominates every Ok of init()."""
from engine import RuleResult, Broken
from model import Model
from mir import Body, callee_is, callee_id, tree_str


def _ok_blocks(body):
    out = []
    for bi, si, s in body.stmts():
        if s['s'] == 'assign' and s['pl']['l'] == 0 and not s['pl']['p']:
            rv = s['rv']
            if rv['r'] == 'agg' and rv['kind'] == 'adt' and rv.get('is_enum') and rv['variant'] == 'Ok':
                out.append((bi, s['sp']['l']))
    return out


def _init_with_validate_false(f, m, ci, validate_def):
    """None when, with validate() overridden to return false, the abstract semantics of init has only Err outcomes; else the reason"""
    import r_absint
    from absint import Budget
    monos = f.mono_bodies_of(m.impl_fn_path(ci, 'init'))
    if not monos or not validate_def:
        return 'its semantics could not be evaluated (no monomorphic body)'

    def setup(ex):
        ex.callee_overrides = {validate_def: (lambda ex_, st_, fr_, t_: ex_.mk_bool(st_, False))}
    bid = [k for k, v in f.bodies.items() if v is monos[0]][0]
    ex, outs, status, dt = r_absint.run_entry(f, bid, setup=setup)
    if status != 'ok':
        return 'its semantics could not be evaluated (%s)' % status
    variants = set()
    for s2, rv in outs:
        if rv[0] == 'adt' and rv[2] is not None:
            variants |= set(rv[2])
        else:
            variants.add('?')
    if variants and variants <= {'Err'}:
        return None
    return 'with validate() returning false init can still return %s' % sorted(variants)


def s12_validate_dominates_init(ctx):
    f = ctx.facts('default')
    m = Model(f)
    r = RuleResult('S12', 'IndicatorConfig::init: every construction of Ok(instance) is reachable only through the true branch of '
                          'self.validate(); the false branch reaches only Err; the configuration is not modified afterwards')
    n = 0
    for ci in m.config_impls:
        cname = m.short(ci)
        b = m.body(m.impl_fn_path(ci, 'init'))
        if b is None:
            raise Broken('no body for %s::init' % cname)
        n += 1
        key = '%s|init' % cname
        r.inst(key)
        vcalls = []
        for bi, t in b.calls():
            if callee_is(t['callee'], 'IndicatorConfig', 'validate'):
                a = b.tree_of_operand(t['args'][0])
                x = a
                while x[0] in ('ref', 'deref'):
                    x = x[1]
                if x[0] == 'arg' and x[1] == 1:
                    vcalls.append((bi, t))
        oks = _ok_blocks(b)
        if not oks:
            r.violate(key + '|no-ok', 'init never constructs Ok(..) directly; cannot decide', b.file, b.line)
            continue
        if not vcalls:
            r.violate(key + '|no-validate-call', '%s::init does not call self.validate(): invalid configurations are not rejected up front' % cname, b.file, b.line)
            continue
        # find the switch on the validate result (possibly negated)
        guarded = False
        for vbi, vt in vcalls:
            dest = vt['dest']['l']
            for si in range(b.n):
                t = b.blocks[si]['term']
                if t['t'] != 'switch':
                    continue
                dt = b.tree_of_operand(t['discr'])
                neg = False
                x = dt
                if x[0] == 'un' and x[1] == 'Not':
                    neg = True
                    x = x[2]
                if not (x[0] == 'call' and x[3] == vbi):
                    continue
                zero_t = [bb for v, bb in t['targets'] if v == 0]
                other = t['otherwise']
                # discr value 0 <=> (neg ? validate true : validate false)
                false_succ = other if neg else (zero_t[0] if zero_t else None)
                true_succ = (zero_t[0] if zero_t else None) if neg else other
                if false_succ is None or true_succ is None:
                    continue
                guarded = True
                rf = b.reachable(false_succ)
                for ob, line in oks:
                    if ob in rf:
                        r.violate(key + '|ok-reachable-when-invalid', '%s::init can return Ok although validate() returned false' % cname, b.file, line)
                dom = b.dominators()
                for ob, line in oks:
                    if si not in dom.get(ob, set()):
                        r.violate(key + '|ok-not-dominated', 'an Ok(..) of %s::init is not dominated by the validate() test' % cname, b.file, line)
                r.sample({'config': cname, 'validate_call_bb': vbi, 'test_bb': si, 'negated': neg, 'ok_blocks': [o for o, _ in oks]})
        if not guarded:
            # the result may reach the decision through combinators (`self.validate().then_some(()).ok_or(WrongConfig)?`): decide the
            # clause semantically -- with validate() answering false, every outcome of init must be Err
            why = _init_with_validate_false(f, m, ci, vcalls[0][1]['callee'].get('def'))
            if why:
                r.violate(key + '|validate-result-unused', '%s::init calls validate() but does not branch on its result, and %s' % (cname, why), b.file, b.line)
            else:
                r.sample({'config': cname, 'validate': 'result reaches the decision through combinators; with validate() = false every outcome of init is Err (abstract interpretation)'})
        # no write into self / cfg copy fields
        for bi, si2, s in b.stmts():
            if s['s'] == 'assign' and s['pl']['p'] and s['pl']['p'][0]['p'] == 'field':
                base = s['pl']['l']
                ty = b.local_ty(base)
                if base == 1 or (ty == b.local_ty(1) and b.local_name(base) in ('cfg', 'self')):
                    r.violate(key + '|config-modified|%s' % s['pl']['p'][0]['name'], '%s::init modifies configuration field `%s` (validated value differs from stored value)' % (
                        cname, s['pl']['p'][0]['name']), b.file, s['sp']['l'])
    r.floor('init functions', 37, n)
    return r
