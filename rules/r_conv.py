"""C17 rules: S19a CollapseTimeframe emission discipline, S19b same-name OHLCV wiring."""
from engine import RuleResult, Broken
from model import Model, T_OHLCV, T_METHOD
from mir import Body, walk_tree, tree_str, callee_is, callee_def, self_field_of_place
from paths import all_path_facts
from r_counters import classify_write

ACCESSORS = ('open', 'high', 'low', 'close', 'volume')


def _strip(t):
    while t[0] in ('ref', 'deref'):
        t = t[1]
    return t


def _leaves(tree):
    """(kind, operand arg index, name) leaves: fields of args and OHLCV accessor calls on args"""
    out = []
    def go(t):
        t0 = t
        if t[0] in ('ref', 'deref'):
            return go(t[1])
        if t[0] == 'field':
            b = _strip(t[1])
            if b[0] == 'arg':
                out.append(('field', b[1], t[2]))
                return
            return go(t[1])
        if t[0] == 'call':
            nm = t[4].rsplit('::', 1)[-1]
            if nm in ACCESSORS and 'OHLCV' in t[4] or (nm in ACCESSORS and len(t[2]) == 1):
                b = _strip(t[2][0])
                if b[0] == 'arg':
                    out.append(('accessor', b[1], nm))
                    return
            out.append(('op', None, t[4]))
            for a in t[2]:
                go(a)
            return
        if t[0] == 'bin':
            out.append(('op', None, t[1]))
            go(t[2]); go(t[3])
            return
        if t[0] in ('cast',):
            return go(t[2])
        if t[0] == 'arg':
            out.append(('arg', t[1], None))
        if t[0] == 'index':
            go(t[1])
    go(tree)
    return out


def s19b_same_name_wiring(ctx):
    f = ctx.facts('default')
    m = Model(f)
    r = RuleResult('S19b', 'candle construction and aggregation wire every OHLCV component to the same-named component '
                           '(first open, highest high, lowest low, last close, summed volume)')
    ohlcv = f.traits[T_OHLCV]
    required = [it['name'] for it in ohlcv['items'] if it['kind'] == 'Fn' and not it['has_default']]
    if required != list(ACCESSORS):
        raise Broken('OHLCV required accessors are %s (expected %s)' % (required, list(ACCESSORS)))
    n_impl = 0
    # (i) accessor impls
    for i in f.impls:
        if i['trait'] != T_OHLCV:
            continue
        n_impl += 1
        adtp = m.adt_path_of_impl(i)
        fields = [fl['name'] for fl in f.adts[adtp]['variants'][0]['fields']] if adtp in f.adts else None
        for idx, acc in enumerate(ACCESSORS):
            b = m.body(m.impl_fn_path(i, acc))
            if b is None:
                raise Broken('no body for %s::%s' % (i['self_ty'], acc))
            key = '%s|accessor|%s' % (i['self_ty'], acc)
            r.inst(key)
            rets = [pf.ret for pf in all_path_facts(b) if pf.returns]
            for ret in rets:
                t = _strip(ret) if ret else None
                if t is None:
                    continue
                if fields is not None and acc in fields:
                    if not (t[0] == 'field' and t[2] == acc and _strip(t[1])[0] == 'arg'):
                        r.violate(key + '|returns-other', '%s::%s() returns %s instead of self.%s' % (i['self_ty'], acc, tree_str(t)[:60], acc), b.file, b.line)
                elif fields is None:
                    # positional impls: i-th accessor returns component i
                    ok = (t[0] == 'field' and t[2] == str(idx)) or (t[0] in ('index', 'cindex') and (t[2] == idx or (isinstance(t[2], tuple) and t[2][0] == 'const' and t[2][2] == idx)))
                    if not ok:
                        r.violate(key + '|position', '%s::%s() returns %s, not component %d' % (i['self_ty'], acc, tree_str(t)[:60], idx), b.file, b.line)
                else:
                    # struct without that field: only constants or same-named derived values are acceptable
                    lv = _leaves(t)
                    ops = [nm.rsplit('::', 1)[-1] for kind, arg, nm in lv if kind == 'op']
                    others = sorted({nm for kind, arg, nm in lv if kind in ('field', 'accessor') and nm in ACCESSORS and nm != acc})
                    if others:
                        # a body-only candle (no wick fields): high = max(open, close), low = min(open, close) is the definition
                        if acc in ('high', 'low') and set(others) <= {'open', 'close'} and ({'high': 'max', 'low': 'min'}[acc] in ops):
                            r.sample({'type': i['self_ty'], 'accessor': acc, 'derived_as': '%s(%s)' % ({'high': 'max', 'low': 'min'}[acc], ','.join(others))})
                        else:
                            r.violate(key + '|cross-wired|' + '+'.join(others), '%s::%s() is computed from component(s) %s with %s' % (i['self_ty'], acc, others, ops), b.file, b.line)
    r.floor('OHLCV impls', 5, n_impl)
    # (ii) builders: functions returning a struct literal of a type implementing OHLCV
    ohlcv_types = {m.adt_path_of_impl(i) for i in f.impls if i['trait'] == T_OHLCV and m.adt_path_of_impl(i)}
    n_build = 0
    seen_defs = set()
    for bid, bj in f.bodies.items():
        if bj['generic'] is False and ('G:' + bj['def']) in f.bodies:
            pass
        if bj['def'] in seen_defs or '::tests::' in bj['def'] or 'RandomCandles' in bj['def'] or bj.get('closure_of'):
            continue
        fname = bj['def'].rsplit('::', 1)[-1]
        if fname not in ('from', 'add'):
            continue
        import inline
        b = Body(inline.inlined(f, bj, 2))      # a private assembling helper (`from_parts(open, high, ..)`) is part of the builder
        built = None
        for bi, si, s in b.stmts():
            if s['s'] == 'assign' and s['rv']['r'] == 'agg' and s['rv']['kind'] == 'adt' and s['rv']['def'] in ohlcv_types:
                whole_ret = s['pl']['l'] == 0 and not s['pl']['p']
                if not whole_ret:
                    # the literal lands in a temporary that is then moved into the return place
                    whole_ret = not s['pl']['p'] and any(pf.returns and pf.ret is not None and pf.ret[0] == 'agg' and pf.ret[1] == 'adt'
                                                         and pf.ret[2] == s['rv']['def'] and bi in pf.path for pf in all_path_facts(b))
                if whole_ret:
                    built = (s, b.tree_of_rvalue(s['rv']))
        if built is None:
            continue
        seen_defs.add(bj['def'])
        n_build += 1
        r.info.setdefault('builders', []).append(bj['def'])
        s, tree = built
        names = tree[4]
        # every way out of the builder returns the candle it builds: a path that hands back an operand unchanged drops the other operand's
        # high / low / close (or the conversion's source fields)
        r.inst('%s|every-path-builds' % bj['def'])
        for pf in all_path_facts(b):
            if pf.returns and not (pf.ret is not None and pf.ret[0] == 'agg' and pf.ret[1] == 'adt' and str(pf.ret[2]).split('::')[-1] in [t_.rsplit('::', 1)[-1] for t_ in ohlcv_types]):
                r.violate('%s|path-without-merge' % bj['def'], '%s has a path that returns %s instead of the candle built from all components: on that path %s' % (
                    bj['def'], tree_str(pf.ret)[:50] if pf.ret else 'nothing', 'the right operand is ignored' if fname == 'add' else 'the source is not converted'), b.file, b.line)
                break
        is_add = fname == 'add'
        tuple_src = b.arg_count == 1 and b.locals[1]['tyj']['t'] == 'tuple'
        for fi, (fname_, val) in enumerate(zip(names, tree[3])):
            key = '%s|%s' % (bj['def'], fname_)
            r.inst(key)
            lv = _leaves(val)
            comp = [(k, a, n) for k, a, n in lv if k in ('field', 'accessor')]
            if tuple_src:
                pos = [n for k, a, n in comp if k == 'field']
                if pos and pos != [str(ACCESSORS.index(fname_))] and fname_ in ACCESSORS:
                    r.violate(key + '|tuple-position|%s' % '+'.join(pos), '%s fills `%s` from tuple component %s (expected %d)' % (bj['def'], fname_, pos, ACCESSORS.index(fname_)), b.file, s['sp']['l'])
                continue
            for k, a, n in comp:
                if n in ACCESSORS and n != fname_:
                    r.violate(key + '|cross-wired|' + n, '%s fills `%s` from component `%s`' % (bj['def'], fname_, n), b.file, s['sp']['l'])
            if is_add and fname_ in ACCESSORS:
                args_used = sorted({a for k, a, n in comp})
                ops = [n for k, a, n in lv if k == 'op']
                want = {'open': ([1], None), 'close': ([2], None), 'high': ([1, 2], 'max'), 'low': ([1, 2], 'min'), 'volume': ([1, 2], 'Add')}[fname_]
                if args_used != want[0]:
                    r.violate(key + '|operands|%s' % args_used, 'aggregation takes `%s` from operand(s) %s (expected %s: %s)' % (
                        fname_, args_used, want[0], {'open': 'first open', 'close': 'last close', 'high': 'max of both', 'low': 'min of both', 'volume': 'sum of both'}[fname_]), b.file, s['sp']['l'])
                if want[1] and not any(o.endswith('::' + want[1]) or o == want[1] for o in ops):
                    r.violate(key + '|operator', 'aggregation combines `%s` with %s (expected %s)' % (fname_, ops, want[1]), b.file, s['sp']['l'])
                r.sample({'fn': bj['def'], 'field': fname_, 'from_operands': args_used, 'ops': [o.rsplit('::', 1)[-1] for o in ops]})
    r.floor('candle builders', 4, n_build)
    # batch collapse goes through the same Add
    # the merge step of the batch collapse: a nested fn (whatever its name), a closure, or the body of collapse_timeframe itself
    seq = None
    base = 'core::sequence::Sequence::collapse_timeframe'
    cands = [bj for bid, bj in sorted(f.bodies.items()) if bj['generic'] and (bj['def'] == base or bj['def'].startswith(base + '::') or bj.get('closure_of') == base)]
    for bj in cands:
        if any('std::ops::Add::add' in str(blk) for blk in bj['blocks']):
            seq = bj
            break
    if seq is None:
        if not cands:
            raise Broken('Sequence::collapse_timeframe not found')
        seq = cands[0]
    sb = Body(seq)
    uses_add = any('Add::add' in str(x) or 'ops::Add' in str(x) for x in (b_['stmts'] for b_ in seq['blocks'])) or any(
        (callee_def(t['callee']) or '').endswith('reduce') for _, t in sb.calls())
    r.inst('Sequence::collapse_timeframe|reduce')
    if not any('std::ops::Add::add' in str(blk) for blk in seq['blocks']):
        r.violate('Sequence::collapse_timeframe|not-via-Add', 'batch collapse does not fold with Add::add', sb.file, sb.line)
    # every candle of the batch result is the sum of exactly `size` inputs: a returning path of collapse_timeframe that folds candles together
    # must have cut the input into chunks of `size` first (windows / chunks / chunks_exact / an explicit range slice); a path that folds the
    # input as a whole (a "short input" fast path) yields a candle of fewer than `size` inputs, which the streaming converter never emits
    main = next((bj for bj in cands if bj['def'] == base), None)
    if main is not None:
        import inline
        mb = Body(inline.inlined(f, main, 2))
        CHUNKERS = ('::windows', '::chunks', '::chunks_exact', '::rchunks', '::array_windows', '::array_chunks')
        FOLDERS = ('::reduce', '::fold', '::sum', 'Add::add', '::map', '::for_each', '::next')
        r.inst('Sequence::collapse_timeframe|chunked-before-folded')
        for pf in all_path_facts(mb):
            if not pf.returns:
                continue
            names = [ct[4] for blk, ct, t in pf.calls]
            folds = any(n_.endswith(FOLDERS) or 'ops::Add' in n_ for n_ in names)
            chunked = any(n_.endswith(CHUNKERS) for n_ in names) or any('Index<std::ops::Range' in n_ or 'index::SliceIndex' in n_ for n_ in names)
            if folds and not chunked:
                r.violate('Sequence::collapse_timeframe|path-folds-unchunked-input', 'collapse_timeframe has a path that combines candles without first cutting the input into '
                          'chunks of `size` (calls on the path: %s): for an input shorter than `size` it returns a candle of fewer than `size` inputs, which the streaming '
                          'CollapseTimeframe never emits' % ', '.join(n_.rsplit('::', 1)[-1] for n_ in names[:6]), mb.file, mb.line)
                break
    return r


def s19a_collapse_discipline(ctx):
    f = ctx.facts('default')
    m = Model(f)
    r = RuleResult('S19a', 'CollapseTimeframe::next: position incremented once per input; Some(candle) exactly on the path where it '
                           'reaches `period`, which resets the position and takes the accumulator; None otherwise')
    imp = [i for i in m.method_impls if (m.adt_path_of_impl(i) or '').endswith('collapse_timeframe::CollapseTimeframe')]
    if len(imp) != 1:
        raise Broken('CollapseTimeframe Method impl not found')
    b = m.body_inlined(m.impl_fn_path(imp[0], 'next'))
    nb = m.body_inlined(m.impl_fn_path(imp[0], 'new'))
    if b is None or nb is None:
        raise Broken('no body for CollapseTimeframe::next/new')
    adt = m.adt_of_impl(imp[0])
    ints = [fl['name'] for fl in adt['variants'][0]['fields'] if fl['tyj']['t'] == 'int']
    n = 0
    from symexec import PathSym
    from paths import enumerate_paths

    def resolve(t, ps, depth=0):
        """expression over the state at entry: reads of rewritten self fields are replaced by what the path stored there"""
        if not isinstance(t, tuple) or not t or depth > 12:
            return t
        if t[0] in ('ref', 'deref'):
            return resolve(t[1], ps, depth + 1)
        if t[0] == 'sf':
            fp, v = t[1], t[2]
            if v == 0:
                return ('S0', fp)
            kn = ps.known.get((fp, v))
            return resolve(kn, ps, depth + 1) if kn is not None else ('S?', fp, v)
        if t[0] == 'field' and t[1][0] == 'bin' and t[1][1].endswith('WithOverflow') and str(t[2]) == '0':
            return resolve(('bin', t[1][1][:-len('WithOverflow')], t[1][2], t[1][3], t[1][4]), ps, depth + 1)
        if t[0] == 'cast':
            return resolve(t[2], ps, depth + 1)
        return tuple(resolve(x, ps, depth + 1) if isinstance(x, tuple) else x for x in t)

    def is_advanced(t, pos):
        return (t[0] == 'bin' and t[1] in ('Add', 'AddUnchecked') and ((t[2] == ('S0', (pos,)) and t[3][0] == 'const' and t[3][2] == 1)
                                                                         or (t[3] == ('S0', (pos,)) and t[2][0] == 'const' and t[2][2] == 1))) or \
               (t[0] == 'call' and t[1].endswith(('::saturating_add', '::wrapping_add')) and len(t[2]) == 2 and resolve_eq(t[2][0], ('S0', (pos,))) and t[2][1][0] == 'const' and t[2][1][2] == 1)

    def resolve_eq(x, y):
        return x == y

    # the position is the integer field next() writes
    written = set()
    paths = enumerate_paths(b)
    syms = [ps_ for ps_ in (PathSym(b, p) for p in paths) if not ps_.infeasible]
    for ps in syms:
        for fp, tree, pos_ in ps.stores:
            if len(fp) == 1 and fp[0] in ints:
                written.add(fp[0])
    if len(written) != 1:
        r.violate('CollapseTimeframe|next|position-field', 'next() writes %s integer fields (expected exactly the position)' % sorted(written), b.file, b.line)
        return r
    pos = next(iter(written))
    for ps in syms:
        if not ps.returns:
            continue
        n += 1
        fv = ps.final_version(pos)
        final = ('S0', (pos,)) if fv == 0 else resolve(('sf', (pos,), fv), ps)
        # the emission test: (position + 1) == self.<other integer field>
        test = None
        for d, vals in ps.decisions:
            d2 = resolve(d, ps)
            if d2[0] == 'bin' and d2[1] in ('Eq', 'Ne'):
                sides = (d2[2], d2[3])
                for x, y in (sides, sides[::-1]):
                    if is_advanced(x, pos) and y[0] == 'S0' and len(y[1]) == 1 and y[1][0] in ints and y[1][0] != pos:
                        holds = not (vals != 'otherwise' and 0 in vals)         # the comparison as written is true on this path
                        test = (y[1][0], holds if d2[1] == 'Eq' else not holds)    # (period field, position + 1 == period on this path)
                    elif x == ('S0', (pos,)) and y[0] == 'S0' and len(y[1]) == 1 and y[1][0] in ints and y[1][0] != pos:
                        test = ('stale', None)
        if test is None:
            r.violate('CollapseTimeframe|next|no-period-test', 'a path of next() does not compare the advanced position (position + 1) with the period', b.file, b.line)
            continue
        if test[0] == 'stale':
            r.violate('CollapseTimeframe|next|test-before-advance', 'a path of next() compares the position with the period before advancing it: one output per period + 1 inputs', b.file, b.line)
            continue
        r.inst('CollapseTimeframe|next|%s' % ('emit' if test[1] else 'hold'))
        ret = ps.ret
        takes = [tr for _, tr in ps.calls if tr[4].endswith('Option::<T>::take')]
        if test[1]:
            if not (final[0] == 'const' and final[2] == 0):
                r.violate('CollapseTimeframe|next|emit-without-reset', 'the emitting path leaves the position at %s instead of 0' % tree_str(final)[:60], b.file, b.line)
            if not (ret and ret[0] == 'call' and ret[4].endswith('Option::<T>::take')):
                r.violate('CollapseTimeframe|next|emit-not-take', 'the emitting path does not return the taken accumulator (returns %s)' % (tree_str(ret)[:60] if ret else None), b.file, b.line)
            r.sample({'path': 'emit', 'test': '%s + 1 == %s' % (pos, test[0]), 'position after': tree_str(final)[:40], 'returns': tree_str(ret)[:60] if ret else None})
        else:
            if not is_advanced(final, pos):
                r.violate('CollapseTimeframe|next|increment-count', 'a non-emitting path leaves the position at %s (expected position + 1: exactly one step per input)' % tree_str(final)[:70], b.file, b.line)
            if not (ret and ret[0] == 'agg' and str(ret[2]).endswith('Option::None')):
                r.violate('CollapseTimeframe|next|hold-not-none', 'a non-emitting path returns %s instead of None' % (tree_str(ret)[:60] if ret else None), b.file, b.line)
            if len(takes) > 1:
                r.violate('CollapseTimeframe|next|hold-takes', 'a non-emitting path empties the accumulator', b.file, b.line)
            r.sample({'path': 'hold', 'test': '%s + 1 != %s' % (pos, test[0]), 'position after': tree_str(final)[:40], 'returns': 'None'})
    # accumulate closure: current + candle.clone()
    found_add = False
    for bid, bj in f.bodies.items():
        if bj.get('closure_of') == b.defp and not bj['generic']:
            cb = Body(bj)
            for bi, t in cb.calls():
                if callee_is(t['callee'], 'Add', 'add'):
                    found_add = True
                    a0 = _strip(cb.tree_of_operand(t['args'][0]))
                    r.inst('CollapseTimeframe|next|accumulate')
                    if a0[0] != 'arg':
                        r.violate('CollapseTimeframe|next|accumulate-order', 'the accumulator is not the left operand of + (first open / last close would swap)', cb.file, cb.term_line(bi))
    if not found_add:
        # written without a closure: `match self.current.take() { Some(c) => c + candle.clone(), None => candle.clone() }`
        for bi, t in b.calls():
            if callee_is(t['callee'], 'Add', 'add'):
                found_add = True
                a0 = b.tree_of_operand(t['args'][0])
                a1 = b.tree_of_operand(t['args'][1]) if len(t['args']) > 1 else ('?',)
                r.inst('CollapseTimeframe|next|accumulate')
                from_state = any(isinstance(x, tuple) and x and ((x[0] == 'call' and x[4].endswith('Option::<T>::take')) or
                                                                 (x[0] == 'field' and x[2] == 'current')) for x in walk_tree(a0))
                from_input = any(isinstance(x, tuple) and x and x[0] == 'arg' and x[1] >= 2 for x in walk_tree(a1))
                if not from_state or not from_input:
                    r.violate('CollapseTimeframe|next|accumulate-order', 'the accumulator is not the left operand of + (first open / last close would swap)', b.file, b.term_line(bi))
    if not found_add:
        # generic closure bodies as fallback
        for bid, bj in f.bodies.items():
            if bj.get('closure_of') == b.defp:
                cb = Body(bj)
                for bi, t in cb.calls():
                    if callee_is(t['callee'], 'Add', 'add'):
                        found_add = True
    if not found_add:
        r.violate('CollapseTimeframe|next|no-accumulate', 'next() does not accumulate candles with +', b.file, b.line)
    # new rejects period 0
    rej = False
    for pf in all_path_facts(nb):
        for d, vals, blk, allv in pf.decisions:
            if d[0] == 'bin' and d[1] == 'Eq' and any(x[0] == 'const' and x[2] == 0 for x in (d[2], d[3])):
                truth = not (vals != 'otherwise' and 0 in vals)
                if truth and pf.ret and pf.ret[0] == 'agg' and str(pf.ret[2]).endswith('Result::Err'):
                    rej = True
            if d[0] in ('arg',) and vals != 'otherwise' and 0 in vals and pf.ret and pf.ret[0] == 'agg' and str(pf.ret[2]).endswith('Result::Err'):
                rej = True
    r.inst('CollapseTimeframe|new|period0')
    if not rej:
        r.violate('CollapseTimeframe|new|accepts-zero', 'CollapseTimeframe::new does not reject period = 0', nb.file, nb.line)
    r.floor('paths of next', 2, n)
    return r


def s19c_high_low_mirror(ctx):
    """Wherever a candle is built with a computed `high` and a computed `low`, the two expressions are mirror images (max <-> min, high <-> low):
    one-sided clamps give candles whose low is above (high below) their own body."""
    import r_mirror
    f = ctx.facts('default')
    m = Model(f)
    r = RuleResult('S19c', 'every candle literal with computed `high` and `low` computes them by mirror-image expressions (max/min, high/low swapped)')
    ohlcv_types = set(m.types_implementing(T_OHLCV))
    PAIRS = [('high', 'low'), ('max', 'min'), ('Highest', 'Lowest'), ('highest', 'lowest'), ('Gt:f', 'Lt:f'), ('Ge:f', 'Le:f'),
             ('local_high', 'local_low'), ('local_highest', 'local_lowest'), ('local_max', 'local_min')]

    def find(e, out):
        if isinstance(e, list):
            for x in e:
                find(x, out)
        elif isinstance(e, dict):
            if e.get('e') == 'struct' and isinstance(e.get('fields'), list):
                names = {fl.get('name'): fl for fl in e['fields'] if isinstance(fl, dict)}
                if 'high' in names and 'low' in names:
                    out.append((e, names))
            for v in e.values():
                find(v, out)

    def computed(x):
        found = []
        def go(y):
            if isinstance(y, list):
                for z in y:
                    go(z)
            elif isinstance(y, dict):
                if y.get('e') in ('mcall', 'call', 'bin', 'if', 'match'):
                    found.append(1)
                for z in y.values():
                    go(z)
        go(x)
        return bool(found)

    n = 0
    for d, h in sorted(f.hir.items()):
        if '::tests::' in d or d.startswith('helpers::RandomCandles') or 'RandomCandles' in d:
            continue
        out = []
        find(h['body'], out)
        for e, names in out:
            tyd = (e.get('path') or {}).get('def') or ''
            if ohlcv_types and not any(tyd == t or tyd.startswith(t) for t in ohlcv_types) and 'Candle' not in (e.get('ty') or '') and 'HLC' not in (e.get('ty') or ''):
                continue
            if not (computed(names['high'].get('v')) and computed(names['low'].get('v'))):
                continue
            n += 1
            key = '%s|high~low' % d
            r.inst(key)
            # locals keep their own names here (the two expressions live in one scope: `open` and `close` are different values)
            ident = {}

            def collect(y):
                if isinstance(y, list):
                    for z in y:
                        collect(z)
                elif isinstance(y, dict):
                    if y.get('e') == 'path' and y.get('res') == 'local':
                        ident[y['name']] = 'local_' + y['name']
                    for z in y.values():
                        collect(z)
            collect(names['high'].get('v'))
            collect(names['low'].get('v'))
            hi = r_mirror.canon(names['high'].get('v'), dict(ident))
            lo = r_mirror.canon(names['low'].get('v'), dict(ident))
            sw = r_mirror.swap_tokens(hi, PAIRS)
            if sw != lo:
                diff = r_mirror.first_diff(sw, lo)
                r.violate(key + '|asymmetric', '%s builds a candle whose `low` is not the mirror image of its `high` (at %s: high side mirrored has %s, low side has %s): '
                          'one of the two clamps misses a value the other one covers' % (d, diff[0] if diff else '?', json_short(diff[1]) if diff else '', json_short(diff[2]) if diff else ''),
                          h.get('file'), names['low'].get('l') or h.get('line'))
            else:
                r.sample({'fn': d, 'high': 'mirror image of low'})
    r.floor('computed high/low candle literals', 2, n)
    return r


def json_short(x):
    import json
    return json.dumps(x)[:80]


def s19d_renko_volume_drained(ctx):
    """C17: Renko spreads over the bricks it emits exactly the volume accumulated since the previous emission: on every path of next() that
    emits bricks (output length not the constant 0) the volume accumulator ends as the constant 0 and the per-brick volume is computed from the
    accumulated value; on a path that emits nothing the accumulator is not reset."""
    f = ctx.facts('default')
    m = Model(f)
    r = RuleResult('S19d', 'Renko::next: the volume accumulator (the float field that receives `+ candle.volume()`) is drained to 0 on every emitting path, '
                           'feeds the per-brick volume there, and is kept on non-emitting paths')
    imp = [i for i in m.method_impls if (m.adt_path_of_impl(i) or '').endswith('renko::Renko')]
    if len(imp) != 1:
        raise Broken('Renko Method impl not found')
    b = m.body_inlined(m.impl_fn_path(imp[0], 'next'))
    if b is None:
        raise Broken('no body for Renko::next')

    def vol_call(t):
        return any(isinstance(x, tuple) and x and x[0] == 'call' and x[4].endswith('OHLCV::volume') for x in walk_tree(t))
    from mir import self_field_of_place
    acc = set()
    for bi, si, s in b.stmts():
        if s['s'] == 'assign':
            fp = self_field_of_place(s['pl'])
            if fp and len(fp) == 1 and vol_call(b.tree_of_rvalue(s['rv'])):
                acc.add(fp[0])
    if len(acc) != 1:
        raise Broken('volume accumulator of Renko not identified (%s)' % sorted(acc))
    F = next(iter(acc))
    n_emit = n_idle = 0
    for pf in all_path_facts(b):
        if not pf.returns or pf.ret is None or pf.ret[0] != 'agg':
            continue
        fields = dict(zip(pf.ret[4], pf.ret[3]))
        ln = fields.get('len')
        if ln is None:
            raise Broken('Renko::next does not return a literal with a `len` field')
        ln_ = ln
        while isinstance(ln_, tuple) and ln_ and ln_[0] in ('ref', 'deref'):
            ln_ = ln_[1]
        idle = ln_[0] == 'const' and ln_[2] == 0
        stores = [(tree, line) for pl, tree, line in pf.stores if self_field_of_place(pl) == [F]]
        # `mem::replace(&mut self.volume, 0.0)` / `mem::take(&mut self.volume)` store through the reference they are given
        for blk, ct, t in pf.calls:
            if ct[4] in ('std::mem::replace', 'core::mem::replace', 'std::mem::take', 'core::mem::take') and ct[2]:
                a0 = ct[2][0]
                while isinstance(a0, tuple) and a0 and a0[0] in ('ref', 'deref'):
                    a0 = a0[1]
                if a0[0] == 'field' and a0[2] == F:
                    newv = ct[2][1] if len(ct[2]) > 1 else ('const', 'f64', 0.0)
                    stores.append((newv, b.term_line(blk)))
        key = 'Renko|next|%s' % ('idle' if idle else 'emitting')
        r.inst(key)
        if idle:
            n_idle += 1
            if any(tree[0] == 'const' for tree, line in stores):
                r.violate(key + '|accumulator-reset', 'Renko::next resets `%s` on a path that emits no brick: the volume of that candle is lost' % F, b.file, b.line)
            continue
        n_emit += 1
        last = stores[-1][0] if stores else None
        lt = last
        while isinstance(lt, tuple) and lt and lt[0] in ('ref', 'deref'):
            lt = lt[1]
        if not (lt is not None and lt[0] == 'const' and lt[2] == 0.0):
            r.violate(key + '|accumulator-not-drained', 'Renko::next emits bricks but leaves `%s` = %s instead of 0: volume already spread over these bricks is emitted again with the next ones'
                      % (F, tree_str(last)[:60] if last is not None else 'unchanged'), b.file, stores[-1][1] if stores else b.line)
        bv = [v for k, v in fields.items() if 'vol' in k]
        if bv and not any(any(isinstance(x, tuple) and x and x[0] == 'field' and x[2] == F for x in walk_tree(v)) or vol_call(v) for v in bv):
            r.violate(key + '|brick-volume-not-from-accumulator', 'the per-brick volume of the emitted bricks is not computed from `%s`' % F, b.file, b.line)
    r.floor('emitting paths', 2, n_emit)
    r.floor('idle paths', 1, n_idle)
    r.sample({'accumulator': F, 'emitting paths': n_emit, 'idle paths': n_idle})
    return r
