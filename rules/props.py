"""Property registry: which rules decide which property, on which feature sets, and the
Decided / Not decided texts repeated in the evidence and the manifest."""
import r_iface
import r_formula
from engine import on_build
import r_serde
import r_wrap
import r_tables
import r_action
import r_counters
import r_init
import r_unsafe
import r_width
import r_conv
import r_window
import r_mirror
import r_absint
import r_step
import r_peek
import r_nan
import r_winv
import r_linear
import r_seed


def _sets(quick, thorough=None):
    def f(tier):
        return list(thorough if (tier == 'thorough' and thorough) else quick)
    return f


ALL8 = ['default', 'nodefault', 'unsafe', 'u16', 'u32', 'u64', 'f32', 'ci']
TRUST = ['rustc (nightly) type checking and MIR lowering are faithful to the source', 'facts are extracted from /repo\'s working '
         'tree on every run (content-addressed cache keyed by the hash of Cargo.toml, Cargo.lock and src/**)']

NOT_APPLICABLE = {
    'C06': 'Whether a signal fires exactly under its documented condition compares a branchless boolean/Action expression with a '
           'prose rule per indicator; no machine-readable oracle exists without executing the code.',
    # claimed in DESIGN.md, check not built yet in this commit (moved to `checks` as each is armed):
}

PROPS = {
    'C02': dict(
        rules=[r_linear.rule_L05_from_scratch, r_linear.rule_L05w_compositions, r_linear.rule_L03_all_methods,
               lambda ctx: r_step.s07_step_once(ctx, only_types='windowed', rule_id='S07w')],
        feature_sets=_sets(['default'], ['default', 'u16', 'f32']),
        rules_thorough=[on_build(r_linear.rule_L05_from_scratch, 'u16'), on_build(r_linear.rule_L05_from_scratch, 'f32')],
        explanation=('(L05) for the single-window linear methods SMA, WMA, LinReg, Momentum, Derivative, Past and the windowed Integral: the window of the last n inputs is abstracted by its '
                     'moments M0 = sum of the elements and M1 = sum of age * element (a push of x evicting p maps them to M0 + x - p and M1 + M0 - n p). new() and next() are interpreted over MIR '
                     'with explicit coefficients over the atoms input, evicted element and old value of each accumulator. Decided for every length: the window is filled with the first value and '
                     'pushed exactly the input once per step; every accumulator F satisfies, inductively, F = a*M0 + b*M1 with the (a, b) read off its coefficients of the input and of the evicted '
                     'element (the M0 and M1 coefficient equations hold, and the constructor gives F the value of that combination on a window full of the first value); the returned value, '
                     'rewritten in the moments of the NEW window, is the documented from-scratch formula: M0/n (SMA), (n*M0 - M1)/(n(n+1)/2) (WMA), the least-squares line through the n points '
                     'evaluated at the newest point (LinReg), x - p, (x - p)/n, p, M0 (Momentum, Derivative, Past, Integral). Hence, in exact arithmetic, every output of every stream equals the formula evaluated from scratch on the last n inputs, '
                     'the construction value standing in before the stream began. The table of formulas is the text of the property / the documentation, not read off the code. '
                     '(L05w) TRIMA and HMA are the documented compositions of such components: with inner methods as opaque objects that remember their type, length and seed, TRIMA::new builds SMA(n), SMA(n) and HMA::new builds '
                     'WMA(n/2), WMA(n), WMA(floor sqrt n), all seeded with the first value; next() steps every component exactly once on every path, feeds them input / input and out0 resp. input / input / 2*out0 - out1 and returns the last output. '
                     '(L03m) dimensional analysis of every method over a single value (30 methods, the non-linear ones included: StDev, CCI, MeanAbsDev, LinearVolatility, RateOfChange, Vidya, TSI ...): the stream carries the unit price; '
                     'no comparison of a price-scaled quantity with an absolute non-zero constant and no sum of quantities of different dimension - the documented formulas are homogeneous, so such a test (`mean_deviation > EPSILON`) '
                     'makes the output differ from the formula on streams of another scale (the property quantifies over abrupt changes of scale). '
                     '(S07w) every window (and every windowed inner method) of every method and indicator is advanced exactly once on every path of next(): the window then holds the last n inputs, which is what "evaluated from scratch on the last length inputs" presupposes (windowed ADI, StDev, CCI and the other methods outside L05 included).'),
        not_decided=['SWMA (two windows updated by one function; its weight sum is decided by L01 under C15), Conv (loop), VWMA (product of two streams), StDev / LinearVolatility / CCI / MeanAbsDev / MedianAbsDev (quadratic or selection), RateOfChange (ratio), windowed ADI (candle input): outside the moment domain, not decided',
                     'the floating-point rounding allowance: the argument is over the reals; that the incremental sums do not drift is C07\'s subject'],
        assumptions=TRUST,
        technique='static analysis: abstract interpretation of MIR with explicit symbolic coefficients; inductive moment invariants of the window compared with the documented formula',
        level_text=('For seven single-window linear methods the equality with the from-scratch formula is proved for every length and stream over the reals; multi-window, non-linear and '
                    'candle-input methods and the rounding allowance are not claimed.'),
        design_ref='DESIGN.md §11 "L05"',
    ),
    'C03': dict(
        rules=[r_linear.rule_L04_recurrences,
               lambda ctx: r_step.s07_step_once(ctx, only_types=('DMA', 'TMA', 'DEMA', 'TEMA', 'WSMA', 'TSI', 'Vidya', 'Integral', 'ADI'), rule_id='S07r')],
        feature_sets=_sets(['default'], ['default', 'u16', 'f32']),
        rules_thorough=[on_build(r_linear.rule_L04_recurrences, 'u16'), on_build(r_linear.rule_L04_recurrences, 'f32')],
        explanation=('(L04) for EMA, RMA, WSMA, DMA, TMA, DEMA, TEMA the constructor and next() are interpreted over MIR in the affine-form domain with EXPLICIT coefficients '
                     'over the atoms "input" and "previous value of stage i" (rational functions of the length, one run per residue class of the length, narrowing casts and '
                     'uninterpreted symbols decided over the finite range of the length). Decided: new() starts every stage at the first value; the stages form a cascade '
                     '(stage i is updated from the new value of stage i-1 and its own old value; stage 0 is the input); every stage update is, coefficient by coefficient, '
                     'alpha * previous stage + (1 - alpha) * own old value with the documented alpha (2/(n+1) for the EMA family, 1/n for RMA and WSMA); the returned value is the '
                     'documented combination of the new stage values (e1; e2; e3; 2 e1 - e2; 3 (e1 - e2) + e3). Equal one-step maps from equal initial states give, by induction '
                     'and in exact arithmetic, the documented value at every step of every stream for every length. The table of recurrences is the text of the property, not read off the code. '
                     '(S07r) for all the recursive methods of the property, TSI, Vidya, TR, HeikinAshi, Integral and ADI included: every inner method and window is stepped exactly once on every path of next() - a recurrence that skips a stage on some inputs (a zero momentum, an unchanged value) is not the documented one.'),
        not_decided=['TSI, Vidya, TR, HeikinAshi and the cumulative Integral / ADI: products, ratios and selections of stream values are outside the domain (Vidya and TSI are covered only by L03 / S11 / S16 under other properties)',
                     'floating-point rounding (mul_add vs separate operations): the argument is over the reals'],
        assumptions=TRUST,
        technique='static analysis: abstract interpretation of MIR in an affine-form domain with explicit symbolic coefficients, compared with the documented recurrence',
        level_text=('For the seven exponential kinds the one-step map of next() is proved equal to the documented recurrence for every length (over the reals); '
                    'the non-linear recursive methods and rounding are not claimed.'),
        design_ref='DESIGN.md §11 "L04"',
    ),
    'C15': dict(
        rules=[r_linear.rule_L01_c15, r_linear.rule_L01_convex, r_linear.rule_L03_dimensions],
        feature_sets=_sets(['default'], ['default', 'u16', 'f32']),
        rules_thorough=[on_build(r_linear.rule_L01_c15, 'u16'), on_build(r_linear.rule_L01_c15, 'f32')],
        explanation=('(L01) weight-sum typing. The constructor and next() of every type that implements MovingAverage over a single value are '
                     'interpreted over MIR in the domain "linear form of the stream values whose coefficients depend on the configuration only, '
                     'with coefficient sum w, plus a stream-free offset c" (w, c rational functions of the length, one run per residue class of the '
                     'length modulo 2 so that length / 2 is a polynomial; sqrt and friends are uninterpreted symbols; callees are interpreted, the '
                     'circular buffer is one abstract element plus its capacity). Proved for a kind: on every path of next() every state field keeps '
                     'the (w, c) the constructor gave it and the returned value has w = 1, c = 0 - so, in exact arithmetic and for every length, the kind '
                     'is a homogeneous linear filter whose weights sum to one: it reproduces a constant, commutes with a*x + b, satisfies superposition. '
                     'A violation is a path without stream-dependent branches whose returned (w, c) is decided and differs from (1, 0) at some step of the '
                     'constant stream. Kinds outside the domain (SMM selection, Vidya and VWMA products of stream values, Conv loop) are listed as undecided. '
                     'A narrowing integer cast of a configuration quantity is the identity only when the quantity fits for every accepted length (checked over the finite range of the length); '
                     'otherwise the weights are compared at a length where the cast really loses bits. '
                     '(L01c) range containment of the window-less kinds the property lists as non-negative (EMA, DMA, TMA, RMA, WSMA): with explicit coefficients over the atoms '
                     '"input" and "previous value of each state field", every coefficient of the new state values and of the output is non-negative for every length '
                     '(certificate: after the shift k = kmin + j numerator and denominator have coefficients of one sign; a negative value at some length is the witness of a violation); '
                     'together with coefficient sum 1 every update is a convex combination, so by induction the output stays in the range of the values seen. '
                     '(L03) dimensional analysis of every moving average, including the non-linear ones (Vidya): the stream carries the unit price, configuration quantities and literals are pure numbers, the literal zero has every dimension; '
                     'values outside the affine domain keep their dimension (price^d) and whether a translation of the stream leaves them unchanged. next() and new() may compare two quantities only when both have the same dimension and the same behaviour under translation '
                     '(or a translation-invariant quantity with zero) and may add only quantities of one dimension: `movement > EPSILON` or `value + 1e-9` come out differently for a*x + b than for x.'),
        not_decided=['that each individual weight is the documented one (impulse response / weight profile): only the SUM of the weights and linearity are decided; non-negativity (range containment) only for the window-less kinds EMA, DMA, TMA, RMA, WSMA - the windowed kinds would need the invariant that ties the accumulator to the window contents',
                     'floating-point rounding: the argument is over the reals',
                     'SMM, Vidya, VWMA, Conv and the MA enum dispatch (S06 under C05 decides the wiring): outside the domain, listed as undecided'],
        assumptions=TRUST,
        technique='static analysis: abstract interpretation of MIR in an affine-form domain with symbolic coefficient sums (weight-sum typing of linear filters)',
        level_text=('Linearity and weight sum 1 (constant reproduction, affine equivariance, superposition over the reals) are proved for every length for the '
                    'moving averages inside the domain; individual weights, non-negativity and rounding are not claimed.'),
        design_ref='DESIGN.md §11 "Weight-sum typing"',
    ),
    'C08': dict(
        rules=[r_linear.rule_L01_c08, r_seed.l02_seed_degree, r_step.s07n_seed_reaches_state, r_formula.s07l_latch_seeding, r_formula.s07p_pure_feed_seeding],
        feature_sets=_sets(['default'], ['default', 'u16', 'f32']),
        rules_thorough=[on_build(r_linear.rule_L01_c08, 'u16'), on_build(r_linear.rule_L01_c08, 'f32')],
        explanation=('(L01) for every method over a single value whose constructor and next() stay inside the affine-form domain (see C15): the state the '
                     'constructor builds from its first input v is a fixed point of next(v) - every accumulator is constructed with exactly the coefficient '
                     'sum and offset one more step of the constant stream gives it (numerator = v * n(n+1)/2, total = -v * n, s_xy = v * s_x, ...) - and the '
                     'output is the same at every step; hence, in exact arithmetic, extra leading copies of the first element leave state and outputs unchanged. '
                     'The windowless Integral (length 0) is the documented cumulative exception and is listed as exempt. '
                     '(L02) indicators: init() and next() are interpreted in the same domain with the price accessors of the candle as stream values of coefficient sum 1; '
                     'every inner method (built from one value by Method::new / MovingAverageConstructor::init) remembers the abstract value it was seeded with and every next(&mut inner, &x) '
                     'compares x with it: a seed that is a price level (coefficient sum 1) for a method that is fed differences (coefficient sum 0), or the reverse, is reported - such an inner '
                     'method starts at the seed and decays towards the level of what it is fed, so the constant candle does not give constant values. 31 of 37 indicators are inside the path budget. '
                     '(S07n) on every path of every Method::new that returns Ok, the returned state is computed from the construction value (two named exceptions: the windowless ADI and CollapseTimeframe): '
                     'a constructor that returns defaults - or primes copies it then drops - has no prehistory at all. '
                     '(S07l) every latch - a state field that every store in next() overwrites with one accessor of the current input (prev_close = candle.close(), last_value = value) - is seeded by new() / init() with the same accessor of the construction value. '
                     '(S07p) every component (Window, inner method, configurable average) that next() feeds one pure function g(input, configuration) of the current input on every call is seeded by new() / init() with g(construction value, configuration) (90 components on the pinned tree, all agree).'),
        not_decided=['indicators (candle input), selections, dispersion methods and every method with a product of stream values or a stream-dependent branch: outside the domain, listed as undecided',
                     'exact constancy in floating point / absence of drift: the argument is over the reals',
                     'indicators: only the translation degree of a seed is decided (price level vs difference); a difference-like quantity that is not zero on a constant candle (high - low, volume) seeded with 0.0 is not seen; six indicators exceed the path budget and are listed as undecided'],
        assumptions=TRUST,
        technique='static analysis: abstract interpretation of MIR in an affine-form domain with symbolic coefficient sums (constructor state is a fixed point of the constant stream)',
        level_text=('For the linear single-value methods the closed-form initial accumulators are proved consistent with the step function for every length '
                    '(over the reals); nothing is claimed for indicators and non-linear methods.'),
        design_ref='DESIGN.md §11 "Weight-sum typing"',
    ),
    'C05': dict(
        rules=[r_tables.s06_ma_dispatch, r_step.s07_step_once, r_formula.s07t_true_range_reference,
               lambda ctx: r_mirror.s04_mirror_siblings(ctx, which=('highest_lowest::Highest', 'highest_lowest_index::HighestIndex'))],
        feature_sets=_sets(['default'], ['default', 'ci']),
        rules_thorough=[on_build(r_tables.s06_ma_dispatch, 'ci'), on_build(r_step.s07_step_once, 'ci')],
        explanation=('(S07) every field of every method / indicator instance that is itself a Method, a configurable moving average or a Window is stepped exactly once on every path of next() (inter-procedural through &mut self helpers; seven named exceptions with reasons). Wiring conditions every indicator formula depends on: (S06) for each of the MA kinds, MA::init builds the method '
                     'type held by the same-named MAInstance variant from that arm\'s own period and wraps exactly that instance; '
                     'MAInstance::next steps that payload with the input value and returns it; ma_period returns the arm\'s payload; '
                     'ma_type codes are pairwise distinct; from_str maps exactly lowercase(kind) to the kind with the parsed period and '
                     'rejects everything else. Decided by enumerating every path of the five functions on MIR. (S07t) every true range computed in a step function (TR, ADX, Keltner, ChandeKrollStop) is taken against a state field whose every write stores close() of the current input: the reference is the previous candle\'s close, not another series and not a candle popped from a window.'),
        not_decided=['the formulas themselves (which source, operator and period feed which average) are numeric behaviour: not decided',
                     'S07 does not see a wrong argument handed to a step'],
        assumptions=TRUST,
        technique='static analysis: per-path table extraction from MIR (enum dispatch agreement)',
        level_text=('Necessary wiring condition of "every moving-average kind where one is configurable": decided exactly for all 15 '
                    'kinds x {init, next, ma_period, ma_type, from_str}. It does not decide the numeric formulas.'),
    ),
    'C07': dict(
        rules=[r_counters.s08_monotone_counters, r_counters.s08b_bounded_panicking_counters],
        feature_sets=_sets(['default'], ['default', 'u16', 'ci']),
        explanation=('(S08b) a narrow (<= 16 bit) state counter incremented with panicking arithmetic must have a comparison-guarded reset. Decides the sentence "nothing changes when an internal position counter reaches the capacity of PeriodType": every '
                     'integer field of every Method / IndicatorInstance / Window is classified from the def-use trees of its writes in the '
                     'step function (increment by a positive constant via +, +=, saturating/wrapping/checked add; reset; gated increment; '
                     'other). A field that is only ever incremented and is narrower than 64 bits is a violation; so is a position that a step truncates to a narrower integer (`as u8` of a wider counter) and a counter advanced with wrapping arithmetic whose wrapped value is then compared or used as a length.'),
        not_decided=['growth of rounding error in running sums and equality with the from-scratch definition at late positions '
                     '(floating point): not decided; no numerical allowance is asserted by this check'],
        assumptions=TRUST,
        technique='static analysis: MIR def-use classification of integer state writes (monotone counter rule)',
        level_text=('Necessary condition only (capacity-limited absolute positions). Exact over all 28 integer state fields; says nothing '
                    'about floating-point drift.'),
    ),
    'C09': dict(
        rules=[r_wrap.s09_pass_through, r_serde.s10_state_purity, r_peek.s11_peek_next_agreement],
        feature_sets=_sets(['default'], ['default', 'nodefault', 'ci']),
        rules_thorough=[on_build(r_wrap.s09_pass_through, 'nodefault'), on_build(r_peek.s11_peek_next_agreement, 'ci')],
        explanation=('(S09) every batch/functional wrapper (provided methods of Method, Sequence, IndicatorConfig, IndicatorInstance, '
                     'WithHistory/WithLastValue::next) either steps next() exactly once per element on the element itself or delegates '
                     'its own input to another wrapper; no lossy iterator adaptor or sub-slice lies in between; no impl overrides a '
                     'provided wrapper. (S10) the state of every method/instance/config type is plain owned data (no interior '
                     'mutability, pointers, borrows, Rc/Arc, fn objects, hash containers), Clone is derived, the crate has no mutable '
                     'statics and calls no non-determinism source: by safe-Rust semantics instances are deterministic functions of '
                     'their construction arguments and input history and clones are independent. (S11) for every Peekable method, on every path of '
                     'next() the returned value is peek() evaluated on the state next() leaves behind (fields at their final version, values '
                     'just stored, or the inlined peek of a sub-method stepped last).'),
        not_decided=['S11 decides peek()==last output structurally (versioned symbolic execution of every path of next(), sub-method peeks inlined); numerically equal but structurally different expressions would be reported',
                     'bit-identical results across machines with different fma/libm are a platform matter'],
        assumptions=TRUST + ['safe Rust: a value without interior mutability or shared ownership is changed only through &mut access'],
        technique='static analysis: call-graph / adaptor whitelist on MIR, type-closure walk (ownership argument)',
        level_text=('Structural proof of the pass-through and determinism/clone clauses over all wrappers and all 127 state types; the '
                    'peek clause is decided by S11 when listed in the evidence.'),
    ),
    'C11': dict(
        rules=[r_iface.s13_result_arity, r_iface.s14_set_arms, r_iface.s15_naming_forwarding, r_absint.a03_defaults],
        feature_sets=_sets(['default'], ['default', 'nodefault', 'ci']),
        rules_thorough=[on_build(r_iface.s13_result_arity, 'ci'), on_build(r_iface.s14_set_arms, 'ci'), on_build(r_iface.s15_naming_forwarding, 'nodefault')],
        explanation=('Static rules over the MIR/HIR of every IndicatorConfig / IndicatorInstance impl: (S13) each '
                     'IndicatorResult::new call reachable from next() is fed array-typed slices whose lengths equal the constant '
                     'tuple size() returns and do not exceed IndicatorResult::SIZE; size()/name() are not overridden; (S14) on every '
                     'path of set(): exactly one arm per public field, whose only write is that field := Ok payload of parsing the '
                     'value text, no write and Err on parse failure and for unknown names; (S15) NAME is a literal equal to the '
                     'type name or a public alias, pairwise distinct, and each method of the two Dyn blanket impls forwards to '
                     'the same-named static method with its own parameters and returns that result. (A03) abstract run of Default::default, '
                     'validate(&default) == true and init(default, valid candle) returning Ok without any reachable panic, for all 37 configs.'),
        not_decided=['that the parsed value equals the meaning of the text (delegated to str::parse / FromStr of MA and Source, '
                     'see C18/C05 rules)',
                     'A03 treats Err(InvalidCandles) as candle-dependent (floats are not bounded): only configuration errors count'],
        assumptions=TRUST + ['IndicatorResult::new stores min(SIZE, len) elements (read, not re-derived)'],
        technique='static analysis: custom MIR/HIR rules (per-path arm analysis of set(), array-length vs size() agreement, forwarding call-graph check)',
        level_text=('Every clause of the interface contract except the numeric meaning of parsed text is decided exactly on the '
                    'compiler IR for all 37 indicators: result arity vs size(), set() arms per public field on every path, NAME '
                    'identity, dyn->static forwarding. Structural and complete over the impl table; no execution.'),
    ),
    'C13': dict(
        rules=[r_serde.s17_serde_coverage, r_serde.s02_manual_serde_tables, r_serde.s10_state_purity, r_window.s03_sibling_constructors, r_winv.a07_deserialize_accepts_valid,
               lambda ctx: r_absint.a01_constructors(ctx, groups=('deserialize',), rule_id='A01d', min_entries=2,
                   title='hand-written Deserialize impls (Window, SMM): with the deserialised helper struct unconstrained (any buffer length, any index) no assertion of from_parts and no other panic is reachable: bad data leaves through Err')],
        feature_sets=_sets(['default'], ['default', 'nodefault']),
        explanation=('(S17) every Method / IndicatorInstance / IndicatorConfig / MA type and every crate type in its field closure has '
                     'Serialize and Deserialize impls; derived impls carry no skip/default/with/flatten/from/into attribute (attributes '
                     'read from the expanded AST), so the serialized form is field-complete; (S02) the two hand-written Serialize impls '
                     'write exactly the field names their Deserialize helper structs read, each from the same-named field; (S10) state '
                     'is plain data, so behaviour is a function of the restored fields. (S03) the constructor siblings new / from_parts / Deserialize recompute the derived fields of Window and SMM by the same expressions, '
                     'and SMM\'s restore path re-sorts its slice with the same numeric comparator new() uses. (A01d) no panic is reachable from the hand-written Deserialize impls for any decoded content. (A07) conversely Window::deserialize returns Ok for every well-formed (buffer, oldest-index) pair up to the largest window new() builds and for the empty window, and rebuilds size == len.'),
        not_decided=['that the chosen format round-trips every f64/integer bit-exactly (a property of the format crate)',
                     'S03 compares the recomputed fields as expressions of the window length; the sortedness of SMM.slice is checked only as "a sort call precedes Ok"',
                     'behavioural equality of restored instances is inferred from field-completeness, not observed'],
        assumptions=TRUST + ['serde derive implements the documented field-wise behaviour'],
        technique='static analysis: impl-table coverage query, AST attribute scan, writer/reader field-table agreement on MIR',
        level_text=('Structural half of the round-trip property for all 127 state types; format assumption stated.'),
    ),
    'C14': dict(
        rules=[r_counters.s08_monotone_counters, lambda ctx: r_mirror.s04_mirror_siblings(ctx, which=('cross::CrossAbove', 'reversal::Upper')),
               lambda ctx: r_step.s07_step_once(ctx, only_types=('Cross', 'ReversalSignal'), rule_id='S07c'),
               lambda ctx: r_step.s07n_seed_reaches_state(ctx, only_types=('Cross', 'CrossAbove', 'CrossUnder', 'ReversalSignal', 'UpperReversalSignal', 'LowerReversalSignal'), rule_id='S07nc')],
        feature_sets=_sets(['default'], ['default', 'ci']),
        explanation=('(S07nc) the state every crossing / reversal detector is constructed with is computed from its construction value on every Ok path: the first step is judged against the seed, and Cross / ReversalSignal start as their two halves started from the same seed would. (S04) CrossUnder and LowerReversalSignal are, function by function, the HIR mirror image of CrossAbove and UpperReversalSignal under the swap >=/<=, >/< on float operands, max/min and the declared names ("exactly in the mirrored case"). Decides the clause "streams much longer than PeriodType::MAX" for the detectors: no position field of the crossing / '
                     'reversal detectors (nor of any other method) is a capacity-limited monotone counter (S08), a position truncated to a narrower integer, or a counter that wraps silently. '
                     '(S07c) every path of the detectors\' next() that reaches its normal return steps each owned sub-detector exactly once, so Cross = CrossAbove - CrossUnder sees every sample on both sides.'),
        not_decided=['that the max-side definitions themselves (strict/non-strict pair, pivot window, tie rule) are the documented ones',
                     'a consistent change of both mirror sides is not seen by S04'],
        assumptions=TRUST,
        technique='static analysis: HIR mirror-tree isomorphism + MIR def-use classification of integer state writes',
        level_text='Mirror clause and any-stream-length clause decided structurally; the max-side definitions themselves are not.',
    ),
    'C16': dict(
        rules=[r_action.s22_eq_vs_ord, r_action.a05_action_algebra],
        feature_sets=_sets(['default']),
        explanation=('(S22) for every enum with a hand-written PartialEq next to a derived Ord/PartialOrd (Action), every path of eq() is '
                     'classified by the variants of both operands: pairs of different variants must return false and same-variant pairs '
                     'must return equality of the payloads, because the derived comparison is Equal exactly then. (A05) abstract interpretation of every '
                     'public Action function and conversion with unconstrained inputs: no panic/overflow is reachable (totality for every i8, f32, f64, '
                     'NaN and infinities included); with the input pinned to a sign class the result variant set is the one the ratio law demands: '
                     'From<f64/f32/i8> positive -> Buy, negative -> Sell, NaN/0 -> None; -Buy = Sell; a - b in {Buy} for Buy - Sell, {Sell} for Sell - Buy, ...; and back: the crate\'s own From<Action> for '
                     'Option<i8>/i8/f64 impls are interpreted per variant: Buy -> Some(+1)/non-negative, Sell -> Some(-1)/non-positive, None -> None/0.'),
        not_decided=['magnitudes: saturation value, monotonicity, from(ratio(a)) == a and the exact ratio of a - b are value-level facts (finite domain, better '
                     'enumerated dynamically): not decided; A05 decides totality and signs only',
                     ],
        assumptions=TRUST + ['derive(PartialOrd, Ord) compares discriminants first, then payloads (documented behaviour)'],
        technique='static analysis: per-path variant-pair classification of eq() on MIR against the derived ordering + interval/sign abstract interpretation of the Action functions and conversions (both directions)',
        level_text='Decides equality-vs-ordering consistency structurally and totality + sign laws of the algebra and conversions by abstract interpretation; magnitudes are not decided.',
    ),
    'C18': dict(
        rules=[r_tables.s18_source_tables, r_tables.s18e_source_redispatch, r_tables.s18f_true_range_nan_taint, r_tables.s18b_clv_zero_range, r_tables.s18c_validate_boxes, r_tables.s18d_sequence_validate, r_tables.s06_ma_dispatch, r_conv.s19b_same_name_wiring,
               lambda ctx: r_absint.a01_constructors(ctx, groups=('parser',), rule_id='A01p', min_entries=4,
                   title='Source::from_str, MA::from_str and the TryFrom conversions reach no panic for any text'),
               r_absint.a01t_parser_truncation],
        feature_sets=_sets(['default']),
        rules_thorough=[on_build(r_tables.s18_source_tables, 'nodefault'), on_build(r_tables.s06_ma_dispatch, 'nodefault')],
        explanation=('(S18) Source: the literal->variant table of from_str and the variant->literal table of Into<&str> are extracted from '
                     'MIR paths; G(v) parses back to v for every variant, every literal is a fixed point of from_str\'s normalisation, the '
                     'default arm is Err, serde names equal G, TryFrom forwards to from_str, and OHLCV::source(kind) calls exactly the '
                     'accessor named G(kind) and returns it unchanged. (S06) MA: from_str maps lowercase(kind) to the kind with the parsed '
                     'period and rejects other names. (S18b) clv\'s zero-range guard returns the documented constant. (S19b) every OHLCV accessor of a derived candle type (HeikinAshi, Renko bricks, ...) '
                     'that shares a name with a field reads that field (or the documented max/min of open and close). (S18c) OHLCV::validate is interpreted abstractly on boxes of candles, its five required accessors standing for '
                     'any value of the box: a non-positive, NaN or infinite value of any one price, or a negative volume, is rejected whatever the other fields are; unordered boxes are rejected; ordered positive finite boxes with volume >= 0 or NaN are accepted. (S18d) Sequence::validate for values and for candles is `all(is_finite)` / `all(OHLCV::validate)` over the whole of self.as_ref(). (A01t) no parser narrows a parsed number with a lossy cast.'),
        not_decided=['numeric identities (tp, hl2, ohlc4, clv, true range), the ordering clause of validate beyond the three disjoint boxes S18c runs, associativity of +: '
                     'statements about float values for all candles, not decided',
                     'str::parse of the numeric period is trusted to be total (std)'],
        assumptions=TRUST,
        technique='static analysis: inverse-table agreement extracted from MIR match paths',
        level_text='Text-form round trip and source(kind) wiring decided exactly for all 8 sources and 15 MA kinds.',
    ),
    'C10': dict(
        rules=[r_init.s12_validate_dominates_init,
               lambda ctx: r_absint.a01_constructors(ctx, groups=('method-new', 'ma-init', 'config-init', 'config-validate', 'config-set', 'parser'), min_entries=165),
               r_absint.a01c_too_small, r_winv.a04_window_invariant, r_winv.a06_index_methods, r_absint.a02_next_with_facts, r_counters.s08b_bounded_panicking_counters],
        feature_sets=_sets(['default'], ['default', 'u16', 'ci', 'unsafe']),
        rules_thorough=[lambda ctx: r_absint.a01_constructors(ctx, groups=('method-new', 'ma-init', 'config-init', 'config-validate', 'config-set', 'parser'), fs='u16', rule_id='A01@u16', min_entries=165), on_build(r_init.s12_validate_dominates_init, 'ci'),
                        on_build(r_absint.a02_next_with_facts, 'u16'), on_build(r_absint.a02_next_with_facts, 'unsafe'),
                        on_build(r_winv.a06_index_methods, 'u16'), on_build(r_winv.a06_index_methods, 'ci'), on_build(r_winv.a04_window_invariant, 'u16')],
        explanation=('(S12) in every IndicatorConfig::init (37), each construction of Ok(instance) is dominated by the true branch of a '
                     'test on self.validate(), the false branch reaches no Ok, and the configuration is not written afterwards: init '
                     'returns Err whenever validate() is false. (A01) interval x relation abstract interpretation of the monomorphic MIR '
                     'of every method constructor, MA::init, indicator init/validate/set and text parser, with every integer parameter '
                     'unconstrained (all 256 values at once, all MA kinds), floats and strings top: every overflow check, bounds check, '
                     'division check, assert!/debug_assert!/panic!/unwrap reachable from them is refuted, or reported. (A01c) with a length '
                     'pinned to a value its doc comment calls too small the abstract return is exactly {Err}. (A02) next() is interpreted '
                     'from the joined Ok-state of init()/new() with all non-invariant fields forgotten and every Window re-normalised to the '
                     'representation invariant that (A04) proves inductive: no empty-window push, no ring-buffer bounds or overflow check, no '
                     'window index out of range and no overflow in pure configuration arithmetic is reachable; the inputs of next() are finite floats, as the property states. (A06) the age of HighestIndex / LowestIndex is < their window length (inductive), which also decides `period - age` in Aroon. (S08b) narrow state counters incremented with '
                     'overflow-checked arithmetic in next() are clamped by a comparison-guarded reset (else a long stream panics).'),
        not_decided=['panics in next() that depend on stream values or accumulated state (listed in the evidence under '
                     'next_panic_sites_not_decided: SMM slice indices (recursive search through fn pointers), a few wide position counters, float assertions on derived values): '
                     'they need per-method loop or float invariants and are not decided',
                     'allocation failure and stack overflow are outside the property'],
        assumptions=TRUST,
        technique='static analysis: abstract interpretation (intervals x relations x variant sets over MIR) + dominator rule on init()',
        level_text=('Constructors, MA construction, init, validate, set and parsers are decided for the whole integer parameter space (sound '
                    'over-approximation: an unrefuted panic site is reported); next() only for configuration-determined panics.'),
    ),
    'C19': dict(
        rules=[r_unsafe.s20_unsafe_twins, r_winv.a04_window_invariant, on_build(r_winv.a04_window_invariant, 'unsafe')],
        rules_thorough=[on_build(r_absint.a02_next_with_facts, 'unsafe')],
        feature_sets=_sets(['default', 'unsafe']),
        build_failure_is_violation=True,
        explanation=('Structural bisimulation between the default and unsafe_performance builds of the same working tree: (1) same items; '
                     'every function\'s MIR is identical once cfg! selector constants are masked, except feature-selected twin definitions; '
                     '(2) every unsafe block lies in the arm of a cfg! selector that flips between the two builds (true only with the '
                     'feature) or in the feature-selected twin helper; no unsafe fn; (3) each diamond is get_unchecked(_mut)(base, i) vs '
                     '&(mut) base[i] on the same base and index expression; the helper pair is get_unchecked(slice,index) vs &slice[index]; '
                     '(4) the one non-twin diamond (SMM::next) is reduced by affine-form evaluation with a case split on the order of '
                     '(index, old_index) to equal block moves (src,dst,count) and the same single store. By induction over any call '
                     'sequence on which the default build does not panic, both builds are in equal states, the checked access passed its '
                     'bounds check, hence the unchecked access is in bounds and returns the same reference. (A04) independently of that argument, the '
                     'inductive representation invariant of Window shows every index handed to get_unchecked in window.rs is < buf.len on a non-empty window; (A04@unsafe) the same rule interprets the MIR of the unsafe_performance build itself, where each get_unchecked(i) is an obligation i < len that must be discharged (thorough: A02@unsafe does so for next() of every method and indicator).'),
        not_decided=['nothing of the statement beyond the trusted base (documented contracts of get_unchecked, ptr::copy, copy_within)'],
        assumptions=TRUST + ['contracts of slice::get_unchecked(_mut), ptr::copy (memmove) and slice::copy_within as documented by std'],
        technique='static analysis: two-build MIR diff, unsafe-site confinement, twin matching on HIR, affine-form block-move equivalence',
        level_text=('All premises of the bisimulation argument are checked on the IR of both builds: 9 unsafe blocks, 7 diamonds, 1 twin '
                    'helper, ~1800 bodies compared. Complete for the property as stated, modulo the trusted std contracts.'),
    ),
    'C20': dict(
        rules=[r_width.s21_iso, r_width.s21_ops, r_counters.s08_monotone_counters, r_absint.a01s_saturated_capacity,
               lambda ctx: r_absint.a01_constructors(ctx, groups=('method-new', 'ma-init', 'config-init'), fs='u16', rule_id='A01-u16', min_entries=85,
                   title='period_type_u16 build: method constructors, MA::init and indicator init reach no panic / overflow for any 16-bit length '
                         '(window lengths beyond 255 construct as the narrow ones do)')],
        feature_sets=_sets(['default', 'u16'], ALL8),
        build_failure_is_violation=True,
        explanation=('(a) every requested feature set type-checks; (S21-iso) the u16/u32/u64 builds have the same items and, function by '
                     'function, the same MIR as the default build up to the PeriodType rename and capacity constants of the form '
                     'MAX/2^j - k; (S21-ops) every width-sensitive operation on a PeriodType-typed value (narrowing / float cast into it, '
                     'saturating_add and friends, capacity constants) lies in a constructor-like function (new/validate/init/deserialize/'
                     'from_parts) or carries a recorded argument; (S08) no narrow monotone position counter; (A01-u16) the abstract interpreter run on the '
                     'period_type_u16 build refutes every panic site reachable from constructors for all 65536 lengths; (A01s) no constructor uses as a number '
                     'the result of a saturating addition that can sit at the type\'s capacity for an accepted parameter (such a value is 255 on the default build and 256 on the wide ones); comparing it to reject the parameter is the accepted idiom.'),
        not_decided=['definitional equalities beyond length 255 and at single precision (numeric): not decided',
                     'constructors of the u32/u64 builds are not interpreted (lengths of 10^5 and more overflow usize products there and cannot be allocated anyway)'],
        assumptions=TRUST,
        technique='static analysis: cross-build MIR isomorphism diff and enumeration of width-sensitive operations',
        level_text=('The builds are shown to be one program up to the integer type; the finite list of width-sensitive operations is '
                    'enumerated and each is classified. Numeric equalities for long windows / f32 are not claimed.'),
    ),
    'C01': dict(
        rules=[r_window.s01_iterator_discipline, r_window.s01c_single_slot_mapping, r_window.s03_sibling_constructors, r_winv.a04_window_invariant, r_winv.a07_deserialize_accepts_valid,
               lambda ctx: r_serde.s02_manual_serde_tables(ctx, only=('Window',)),
               lambda ctx: r_serde.s10c_clone_is_copy(ctx, only_prefix='core::window::'),
               lambda ctx: r_absint.a01_constructors(ctx, groups=('window-ctor', 'deserialize'), labels=('Window',), rule_id='A01w', min_entries=6,
                   title='Window::{new, from_parts, empty, From<Vec>, From<Box<[T]>>} and Window::deserialize: every reachable panic is one the constructor documents (# Panics); deserialize reaches none')],
        feature_sets=_sets(['default'], ['default', 'u16', 'ci']),
        rules_thorough=[on_build(r_window.s01_iterator_discipline, 'ci'), on_build(r_window.s01c_single_slot_mapping, 'ci'),
                        on_build(r_winv.a04_window_invariant, 'u16'), on_build(r_winv.a04_window_invariant, 'ci')],
        explanation=('(S01) for WindowIterator and ReversedWindowIterator: size_hint is (r, Some(r)) of one field r; on every path of next() '
                     'a yielded item decrements r exactly once by 1 and is preceded by the test r != 0, None is returned exactly under r == 0 '
                     'without touching r; every other Option-returning override (last) looks at r before yielding; count and an overridden ExactSizeIterator::len return r. '
                     'Hence the number of items still to come equals size_hint at every split point and an exhausted or empty iterator '
                     'never yields. (S10c) Clone of Window and its iterators is derived, or hand-written and field-wise: clone() builds a literal whose every field is the clone of the same field, clone_from() takes every field from the source on every path (a copy that keeps its own cursor is a rotated window). (S01c) get and Index::index obtain their slot from the one mapping slice_index(own index). (S03) new / from_parts / '
                     'empty agree on the derived fields: s_1 = size.saturating_sub(1), buffer length = size. (S02) Window\'s hand-written '
                     'Serialize/Deserialize agree on the field table (buf, index). (A01w) the constructors reach only documented panics and '
                     'deserialize none. (A04) inductive representation invariant (buf.len == size, s_1 == size-1, index < size; iterator cursor < size, '
                     'remaining <= size): established by every constructor, preserved by push and by both iterators\' next, and under it no method '
                     'can fail a bounds or overflow check; slice_index only returns slots < size; get on an empty window is None.'),
        not_decided=['that push / slice_index / newest / the iterator cursors select the RIGHT slot for every rotation phase (which element a slot holds is '
                     'modular arithmetic on runtime values; needs a solver or model checker): not decided. A04 decides only that every slot they '
                     'compute is inside the buffer and that the representation invariant is inductive',
                     'S01c is a sibling-agreement rule: a correct re-implementation of the index->slot mapping outside slice_index would be reported'],
        assumptions=TRUST,
        technique='static analysis: per-path remaining-count discipline on MIR (typestate-like), writer/reader table agreement',
        level_text='Iterator exhaustion/count clauses and serde table agreement decided exactly; slot arithmetic explicitly not.',
    ),
    'C04': dict(
        rules=[lambda ctx: r_mirror.s04_mirror_siblings(ctx, which=('highest_lowest::Highest', 'highest_lowest_index::HighestIndex')),
               r_mirror.s05_mixed_float_equivalence, r_mirror.s04b_full_window_scans, r_mirror.s04c_eviction_test, r_winv.a06_index_methods,
               r_window.s03_sibling_constructors,
               lambda ctx: r_step.s07_step_once(ctx, only_types=('Highest', 'Lowest', 'HighestLowestDelta', 'HighestIndex', 'LowestIndex', 'SMM', 'MedianAbsDev'), rule_id='S07s')],
        feature_sets=_sets(['default']),
        explanation=('(S03) every way of building an SMM (new, the hand-written Deserialize) produces a sorted slice that is sorted by an ascending NUMERIC comparator over the whole window - the median read from it is only a median if that holds. (S04) Lowest / LowestIndex are the HIR mirror image of Highest / HighestIndex (new, next, peek) under the swap >=/<=, '
                     '>/< on float operands and max/min: the min-side behaviour is the mirrored max-side behaviour, ties included. (S05) every '
                     'to_bits() equality site is enumerated; a function that compares the same pair of floats by bits and by numeric order '
                     'while steering a search (recursion / fn pointer / loop) is reported: the relations disagree on signed zeros. (S07s) on every '
                     'normally returning path of next() the selection methods push the new value into their window exactly once and step each owned sub-method exactly once. '
                     '(S04b) their rescans iterate over the complete window: no skipping, truncating or filtering adaptor. (S04c) on every returning path each cached extremum is replaced by the input, rescanned, or kept only after the evicted element was compared with it. (A06) the age HighestIndex / LowestIndex keep and return is < the window length on every step '
                     '(inductive invariant: established by new(), preserved by next() including the enumerate().fold() rescan, whose closure is iterated to an abstract fixpoint).'),
        not_decided=['that the max-side algorithms (cached extremum + rescan trigger, age counter, sorted-slice shifting) compute the maximum, '
                     'its age and the median for every order pattern: behaviour over all streams, not decided',
                     'the two halves of HighestLowestDelta::next are not compared'],
        assumptions=TRUST,
        technique='static analysis: HIR mirror-tree isomorphism, MIR def-use rule for mixed float equivalences',
        level_text='Mirror and signed-zero clauses only; exactness of the selection algorithms is not claimed.',
    ),
    'C17': dict(
        rules=[r_conv.s19a_collapse_discipline, r_tables.s18e_source_redispatch, r_conv.s19b_same_name_wiring, r_conv.s19c_high_low_mirror, r_conv.s19d_renko_volume_drained, r_window.s01b_pos_len_iterators,
               lambda ctx: r_absint.a01_constructors(ctx, groups=('method-new',), labels=('Renko::new', 'CollapseTimeframe::new', 'HeikinAshi::new'), rule_id='A01r', min_entries=3,
                   title='Renko::new, CollapseTimeframe::new, HeikinAshi::new reach no panic for any parameter value'),
               lambda ctx: r_absint.a02_next_with_facts(ctx, only=('Renko',), strict_module='methods::renko', rule_id='A02r')],
        feature_sets=_sets(['default']),
        explanation=('(S19a) on every path of CollapseTimeframe::next the position is incremented exactly once; Some(..) is returned exactly on '
                     'the path where it equals period, which resets it to 0 and returns the taken accumulator; other paths return None and keep '
                     'the accumulator; accumulation is accumulator + candle (in that order); new rejects period 0. (S19b) Candle + T takes open '
                     'from the left operand only, close from the right only, high/low through max/min of both, volume through +; every OHLCV '
                     'accessor, Candle::from, HLC::from and the tuple conversions wire each component to the same-named / same-position '
                     'component; the batch collapse folds with the same Add, and every path of it that combines candles has first cut the input into chunks of `size`. (S19d) Renko::next drains its volume accumulator to 0 on every path that emits bricks, computes the per-brick volume from it, and keeps it on paths that emit nothing. (S19c) every candle literal that computes both `high` and `low` (HeikinAshi::next, Candle + T, Candle::from) computes them by '
                     'mirror-image expressions: a clamp present on one side and missing on the other yields a candle whose body leaves its own range.'),
        not_decided=['Heikin-Ashi recursion and output validity, Renko brick contiguity/sizing/volume conservation: numeric, not decided',
                     'A02r decides "Renko::next never panics" for integer arithmetic, casts and indexing with every float unconstrained; float results themselves are not bounded'],
        assumptions=TRUST,
        technique='static analysis: per-path emission discipline on MIR, same-name wiring of struct literals',
        level_text='Emission discipline and aggregation wiring decided exactly; numeric converter behaviour not claimed.',
    ),
    'C12': dict(
        rules=[r_nan.s16_nan_sources, r_nan.s16b_dispersion_sign, r_nan.s16c_band_order,
               lambda ctx: r_step.s07_step_once(ctx, only_types='windowed', rule_id='S07o')],
        feature_sets=_sets(['default'], ['default', 'f32']),
        rules_thorough=[on_build(r_nan.s16_nan_sources, 'f32'), on_build(r_nan.s16b_dispersion_sign, 'f32'), on_build(r_nan.s16c_band_order, 'f32')],
        explanation=('(S16) every float division, remainder, sqrt, ln, atanh and recip in every non-constructor function is enumerated from MIR '
                     'and its critical operand classified: G1 non-zero literal; G2 cast of an integer that the abstract interpretation of '
                     'init()/new() bounds >= 1 for every accepted instance, or a float field fixed non-zero at construction and never written '
                     'afterwards; G3 dominated (CFG dominators) by a numeric test excluding zero for the same value (d == 0, d > 0, or a == b for '
                     'd = a - b), sqrt of abs()/square, atanh of a clamp with constant bounds inside (-1, 1); G4/G5 only through a table line naming '
                     'the function and stating the missing argument / "formula undefined here". Unclassified sites are violations. (S16b) sign '
                     'analysis of the value tree returned by StDev/MeanAbsDev/MedianAbsDev::peek: non-negative by construction. (S16c) BollingerBands builds '
                     'upper/lower as fma(stdev, +-sigma, middle) with stdev >= 0 (S16b) and sigma > 0 (float bound learnt from validate()): upper >= middle >= '
                     'lower holds in floating point because rounding is monotone.'),
        not_decided=['interval containment of oscillators ([0,1], [-1,1]), band ordering of Keltner/Envelopes/price channels (their dispersion term is a running '
                     'average or a product with a price), channel containment, SAR side, non-negativity '
                     'of LinearVolatility and of the true range: they depend on rounding residue in running sums or on relations between candle '
                     'fields and are not decided',
                     'the hand-argued classes G4/G5 (11 sites, listed with their arguments in the evidence) are arguments, not proofs'],
        assumptions=TRUST,
        technique='static analysis: enumeration of NaN-capable float operations on MIR, dominator-based guard matching, interval facts from abstract interpretation, sign analysis',
        level_text=('Decides the "every output is finite wherever its formula is defined" clause as a guard discipline over all 33 NaN-capable '
                    'sites, and non-negativity of three dispersion measures; numeric range clauses are not claimed.'),
    ),
}
