"""Property registry: which rules decide which property, on which feature sets, and the
Decided / Not decided texts repeated in the evidence."""
import r_iface


def _sets(quick, thorough=None):
    def f(tier):
        return list(thorough if (tier == 'thorough' and thorough) else quick)
    return f


ALL8 = ['default', 'nodefault', 'unsafe', 'u16', 'u32', 'u64', 'f32', 'ci']

NOT_APPLICABLE = {
    'C02': 'Equality of every sliding-window output with its from-scratch formula within a rounding allowance is a statement about '
           'floating-point values over all streams; no sound static argument in reach bounds a float; the structural neighbours '
           '(each component stepped once, peek = last output) are claimed under C05/C09.',
    'C03': 'The recurrences (smoothing constants, cascades, CMO scaling) are arithmetic identities on runtime values; a tree match '
           'against the documented formula would be a frozen source fragment (false alarm in waiting).',
    'C06': 'Whether a signal fires exactly under its documented condition compares a branchless boolean/Action expression with a '
           'prose rule per indicator; no machine-readable oracle exists without executing the code.',
    'C08': 'Constant-input fixed-point behaviour needs the closed-form initial accumulators to be evaluated (symbolically or '
           'concretely) against next(); symbolic evaluation is another family and exact float constancy is invisible to structure.',
    'C15': 'Affine equivariance, range preservation, superposition and impulse responses relate numeric outputs of several runs; the '
           'only structural ingredient (kind<->method wiring) is claimed as S06 under C05/C18.',
    # claimed in DESIGN.md, check not built yet in this commit (moved to `checks` as each is armed):
    'C01': 'check under construction (DESIGN.md §5 C01): not yet armed in this commit',
    'C04': 'check under construction (DESIGN.md §5 C04): not yet armed in this commit',
    'C05': 'check under construction (DESIGN.md §5 C05): not yet armed in this commit',
    'C07': 'check under construction (DESIGN.md §5 C07): not yet armed in this commit',
    'C09': 'check under construction (DESIGN.md §5 C09): not yet armed in this commit',
    'C10': 'check under construction (DESIGN.md §5 C10): not yet armed in this commit',
    'C12': 'check under construction (DESIGN.md §5 C12): not yet armed in this commit',
    'C13': 'check under construction (DESIGN.md §5 C13): not yet armed in this commit',
    'C14': 'check under construction (DESIGN.md §5 C14): not yet armed in this commit',
    'C16': 'check under construction (DESIGN.md §5 C16): not yet armed in this commit',
    'C17': 'check under construction (DESIGN.md §5 C17): not yet armed in this commit',
    'C18': 'check under construction (DESIGN.md §5 C18): not yet armed in this commit',
    'C19': 'check under construction (DESIGN.md §5 C19): not yet armed in this commit',
    'C20': 'check under construction (DESIGN.md §5 C20): not yet armed in this commit',
}

PROPS = {
    'C11': dict(
        rules=[r_iface.s13_result_arity, r_iface.s14_set_arms, r_iface.s15_naming_forwarding],
        feature_sets=_sets(['default'], ['default', 'nodefault', 'ci']),
        explanation=('Static rules over the MIR/HIR of every IndicatorConfig / IndicatorInstance impl: (S13) each '
                     'IndicatorResult::new call reachable from next() is fed array-typed slices whose lengths equal the constant '
                     'tuple size() returns and do not exceed IndicatorResult::SIZE; size()/name() are not overridden; (S14) on every '
                     'path of set(): exactly one arm per public field, whose only write is that field := Ok payload of parsing the '
                     'value text, no write and Err on parse failure and for unknown names; (S15) NAME is a literal equal to the '
                     'type name or a public alias, pairwise distinct, and each method of the two Dyn blanket impls forwards to '
                     'the same-named static method with its own parameters and returns that result.'),
        not_decided=['that the parsed value equals the meaning of the text (delegated to str::parse / FromStr of MA and Source, '
                     'see C18/C05 rules)',
                     'default configuration valid and initialising: decided by the abstract interpreter rule A03 when armed'],
        assumptions=['rustc MIR lowering is faithful', 'IndicatorResult::new stores min(SIZE, len) elements (read, not re-derived)'],
        technique='static analysis: custom MIR/HIR rules (per-path arm analysis of set(), array-length vs size() agreement, forwarding call-graph check)',
        level_text=('Every clause of the interface contract except the numeric meaning of parsed text is decided exactly on the '
                    'compiler IR for all 37 indicators: result arity vs size(), set() arms per public field on every path, NAME '
                    'identity, dyn->static forwarding. Structural and complete over the impl table; no execution.'),
    ),
}
