#!/usr/bin/env python3
"""Self-test of the checkers: apply each mutant to a scratch copy of /repo (outside /repo and /verif, removed
afterwards), run the owning checks against it and require exit 1 + VIOLATION naming the expected rule; neutral
edits must leave the checks silent; the unmodified copy must be silent too.

usage: selftest/run.py [--only <id-substring>] [--jobs N] [--tests]   (--tests also runs the pinned suite on each mutant)
Result summary -> selftest/last_result.json"""
import json
import os
import shutil
import subprocess
import sys
import tempfile
import time
from concurrent.futures import ThreadPoolExecutor

HERE = os.path.dirname(os.path.abspath(__file__))
VERIF = os.path.dirname(HERE)
sys.path.insert(0, HERE)
import mutants  # noqa: E402

REPO = os.environ.get('YATA_SELFTEST_REPO', '/repo')


def make_copy():
    d = tempfile.mkdtemp(prefix='yst.')
    subprocess.check_call(['rsync', '-a', '--exclude', 'target', '--exclude', '.git', REPO + '/', d + '/'])
    return d


def apply(d, edits):
    for e in edits:
        f, old, new = e[0], e[1], e[2]
        cnt = e[3] if len(e) > 3 else 1
        p = os.path.join(d, f)
        s = open(p).read()
        if s.count(old) != cnt:
            return 'STALE: %s: expected %d occurrence(s) of %r, found %d' % (f, cnt, old[:50], s.count(old))
        open(p, 'w').write(s.replace(old, new))
    return None


def run_check(d, prop):
    ev = tempfile.mkdtemp(prefix='ysev.')
    env = dict(os.environ, YATA_REPO=d, YATA_EVIDENCE_DIR=ev)
    r = subprocess.run([os.path.join(VERIF, 'check'), prop, '--tier', 'quick'], capture_output=True, text=True, env=env, cwd=VERIF)
    shutil.rmtree(ev, ignore_errors=True)
    return r.returncode, r.stdout, r.stderr


def run_tests(d):
    tgt = tempfile.mkdtemp(prefix='ystt.')
    r = subprocess.run(['cargo', 'test', '--workspace', '--offline', '--lib'], capture_output=True, text=True, cwd=d,
                       env=dict(os.environ, CARGO_TARGET_DIR=tgt))
    shutil.rmtree(tgt, ignore_errors=True)
    ok = r.returncode == 0
    tail = [l for l in r.stdout.splitlines() if l.startswith('test result')]
    return ok, (tail[-1] if tail else r.stderr[-300:])


def one(m, neutral, with_tests):
    d = make_copy()
    res = {'id': m['id'], 'desc': m['desc'], 'neutral': neutral, 'checks': {}}
    try:
        err = apply(d, m['edits'])
        if err:
            res['status'] = err
            return res
        if with_tests:
            ok, tail = run_tests(d)
            res['pinned_tests'] = tail
            res['pinned_tests_ok'] = ok
        good = True
        for p in m['props']:
            rc, out, errt = run_check(d, p)
            viol = [l for l in out.splitlines() if l.startswith('VIOLATION')]
            rules = sorted({l.strip().split(']')[0].lstrip('[') for l in out.splitlines() if l.strip().startswith('[')})
            res['checks'][p] = {'exit': rc, 'violations': len(viol), 'rules': rules, 'first': next((l.strip()[:220] for l in out.splitlines() if l.strip().startswith('[')), None)}
            if neutral:
                if rc != 0:
                    good = False
                    res['checks'][p]['stderr'] = errt[:1500]
            else:
                want = m['rule']
                if rc != 1 or not viol or not any(r_ == want or r_.startswith(want) for r_ in rules):
                    good = False
                    res['checks'][p]['stderr'] = errt[:1500]
        res['status'] = 'ok' if good else ('FALSE-ALARM' if neutral else 'MISSED')
    finally:
        shutil.rmtree(d, ignore_errors=True)
    return res


def main():
    only = None
    jobs = 4
    with_tests = False
    prop = None
    as_json = False
    args = sys.argv[1:]
    i = 0
    while i < len(args):
        if args[i] == '--only':
            only = args[i + 1]; i += 2
        elif args[i] == '--jobs':
            jobs = int(args[i + 1]); i += 2
        elif args[i] == '--tests':
            with_tests = True; i += 1
        elif args[i] == '--prop':
            prop = args[i + 1]; i += 2
        elif args[i] == '--json':
            as_json = True; i += 1
        else:
            i += 1
    work = [(m, False) for m in mutants.MUTANTS] + [(m, True) for m in mutants.NEUTRAL]
    if only:
        work = [(m, n) for m, n in work if only in m['id']]
    if prop:
        # only this property's mutants, checked only against this property
        work = [(dict(m, props=[prop]), n) for m, n in work if prop in m['props']]
    t0 = time.time()
    # baseline: unmodified copy must be silent
    results = []
    if not only and not prop:
        d = make_copy()
        base = {}
        props = sorted({p for m, _ in work for p in m['props']})
        for p in props:
            rc, out, err = run_check(d, p)
            base[p] = rc
        shutil.rmtree(d, ignore_errors=True)
        results.append({'id': 'baseline-copy', 'checks': base, 'status': 'ok' if all(v == 0 for v in base.values()) else 'ALARM-ON-UNCHANGED'})
        print('baseline copy:', results[0]['status'], base)
    with ThreadPoolExecutor(max_workers=jobs) as ex:
        for res in ex.map(lambda mn: one(mn[0], mn[1], with_tests), work):
            results.append(res)
            print('%-36s %-12s %s%s' % (res['id'], res['status'], {p: (c['exit'], c['rules']) for p, c in res['checks'].items()},
                                        ('  tests: ' + str(res.get('pinned_tests'))) if with_tests else ''))
            if res['status'] not in ('ok',):
                for p, c in res['checks'].items():
                    if c.get('stderr'):
                        print('     ', p, c['stderr'].replace('\n', ' | ')[:1500])
    summary = {
        'mutants': sum(1 for r in results if not r.get('neutral') and r['id'] != 'baseline-copy'),
        'caught': sum(1 for r in results if not r.get('neutral') and r['status'] == 'ok' and r['id'] != 'baseline-copy'),
        'neutral': sum(1 for r in results if r.get('neutral')),
        'neutral_silent': sum(1 for r in results if r.get('neutral') and r['status'] == 'ok'),
        'wall_s': round(time.time() - t0, 1),
    }
    print(summary)
    if as_json:
        print(json.dumps({'summary': summary, 'mutants': [{'id': r_['id'], 'status': r_['status'], 'neutral': r_.get('neutral', False)} for r_ in results]}))
    if not only and not prop:
        json.dump({'summary': summary, 'results': results}, open(os.path.join(HERE, 'last_result.json'), 'w'), indent=1)
    return 0 if summary['caught'] == summary['mutants'] and summary['neutral'] == summary['neutral_silent'] else 1


if __name__ == '__main__':
    sys.exit(main())
