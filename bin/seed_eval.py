#!/usr/bin/env python3
"""Evaluate a sub-agent's seeded change: confirm it (compiles, 132 unit tests pass, demo fails with / passes without),
run every check against it, store it under /verif/seeded/<name>/ with meta.json.
usage: seed_eval.py <worktree dir> <property id> <name> [extra cargo test args for the demo, e.g. --features unsafe_performance]"""
import json
import os
import shutil
import subprocess
import sys
import tempfile

VERIF = os.path.dirname(os.path.dirname(os.path.abspath(__file__)))
sys.path.insert(0, os.path.join(VERIF, 'rules'))


def sh(cmd, cwd, env=None, timeout=1800):
    r = subprocess.run(cmd, cwd=cwd, capture_output=True, text=True, env=env, timeout=timeout)
    return r.returncode, r.stdout + r.stderr


def main():
    wt, prop, name = sys.argv[1:4]
    extra = sys.argv[4:]
    out = os.path.join(VERIF, 'seeded', name)
    os.makedirs(out, exist_ok=True)
    for f in ('patch.diff', 'demo.rs', 'NOTES.md'):
        if os.path.exists(os.path.join(wt, f)):
            shutil.copy(os.path.join(wt, f), os.path.join(out, f))
    patch = os.path.join(out, 'patch.diff')
    meta = {'property': prop, 'name': name, 'ran': []}
    d = tempfile.mkdtemp(prefix='yseed.')
    tgt = tempfile.mkdtemp(prefix='yseedt.')
    env = dict(os.environ, CARGO_TARGET_DIR=tgt)
    try:
        subprocess.check_call(['rsync', '-a', '--exclude', 'target', '--exclude', '.git', '/repo/', d + '/'])
        os.makedirs(os.path.join(d, 'tests'), exist_ok=True)
        shutil.copy(os.path.join(out, 'demo.rs'), os.path.join(d, 'tests', 'demo.rs'))
        # without the change
        rc, o = sh(['cargo', 'test', '--offline', '--test', 'demo'] + extra, d, env)
        meta['demo_without_change'] = 'pass' if rc == 0 else 'FAIL'
        meta['ran'].append('cargo test --offline --test demo %s  (unpatched /repo copy) -> %s' % (' '.join(extra), meta['demo_without_change']))
        # apply
        rc, o = sh(['git', 'apply', '--unsafe-paths', '--directory', d, patch], '/')
        if rc != 0:
            rc, o = sh(['patch', '-p1', '-i', patch], d)
        meta['patch_applies'] = rc == 0
        if rc != 0:
            meta['error'] = o[-600:]
            json.dump(meta, open(os.path.join(out, 'meta.json'), 'w'), indent=1)
            print(json.dumps(meta, indent=1))
            return 1
        rc, o = sh(['cargo', 'test', '--offline', '--lib'], d, env)
        tail = [l for l in o.splitlines() if l.startswith('test result')]
        meta['unit_tests_with_change'] = tail[-1] if tail else o[-300:]
        meta['ran'].append('cargo test --offline --lib (patched) -> %s' % meta['unit_tests_with_change'])
        rc, o = sh(['cargo', 'test', '--offline', '--test', 'demo'] + extra, d, env)
        meta['demo_with_change'] = 'pass' if rc == 0 else 'FAIL'
        fl = [l for l in o.splitlines() if 'panicked' in l or 'assertion' in l][:3]
        meta['demo_failure_excerpt'] = fl
        meta['ran'].append('cargo test --offline --test demo %s (patched) -> %s' % (' '.join(extra), meta['demo_with_change']))
        os.remove(os.path.join(d, 'tests', 'demo.rs'))
        # all checks against the patched copy
        import props
        checks = {}
        from concurrent.futures import ThreadPoolExecutor
        plist = sorted(props.PROPS)

        def run_one(p):
            ev = tempfile.mkdtemp(prefix='ysev.')
            rc, o = sh([os.path.join(VERIF, 'check'), p, '--tier', 'quick'], VERIF, dict(os.environ, YATA_REPO=d, YATA_EVIDENCE_DIR=ev))
            shutil.rmtree(ev, ignore_errors=True)
            viol = [l.strip()[:260] for l in o.splitlines() if l.strip().startswith('[')]
            return p, {'exit': rc, 'violations': viol[:4]}
        # the first check builds the facts of the patched copy; the others then share the cache
        p0, c0 = run_one(plist[0])
        checks[p0] = c0
        with ThreadPoolExecutor(max_workers=6) as pool:
            for p, c in pool.map(run_one, plist[1:]):
                checks[p] = c
        meta['checks'] = checks
        meta['caught_by'] = sorted(p for p, c in checks.items() if c['exit'] == 1)
        meta['confirmed'] = bool(meta['patch_applies'] and meta['demo_without_change'] == 'pass' and meta['demo_with_change'] == 'FAIL'
                                 and '132 passed' in meta['unit_tests_with_change'])
    finally:
        shutil.rmtree(d, ignore_errors=True)
        shutil.rmtree(tgt, ignore_errors=True)
    json.dump(meta, open(os.path.join(out, 'meta.json'), 'w'), indent=1)
    print(json.dumps({k: v for k, v in meta.items() if k != 'checks'}, indent=1))
    for p, c in meta['checks'].items():
        if c['exit'] != 0:
            print(p, c['exit'], c['violations'][:2])
    return 0


if __name__ == '__main__':
    sys.exit(main())
