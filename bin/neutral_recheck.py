#!/usr/bin/env python3
"""Re-run checks against the stored behaviour-preserving refactorings (neutral/<name>/patch.diff): every check must be silent.
usage: neutral_recheck.py [name-substring] [PROP,PROP...]"""
import json, os, shutil, subprocess, sys, tempfile
from concurrent.futures import ThreadPoolExecutor
VERIF = os.path.dirname(os.path.dirname(os.path.abspath(__file__)))
sys.path.insert(0, os.path.join(VERIF, 'rules'))
import props
sub = sys.argv[1] if len(sys.argv) > 1 else ''
plist = sys.argv[2].split(',') if len(sys.argv) > 2 else sorted(props.PROPS)
names = sorted(n for n in os.listdir(os.path.join(VERIF, 'neutral')) if sub in n and os.path.exists(os.path.join(VERIF, 'neutral', n, 'patch.diff')))
bad = 0
for n in names:
    d = tempfile.mkdtemp(prefix='yneut.')
    try:
        subprocess.check_call(['rsync', '-a', '--exclude', 'target', '--exclude', '.git', '/repo/', d + '/'])
        patch = os.path.join(VERIF, 'neutral', n, 'patch.diff')
        r = subprocess.run(['git', 'apply', '--unsafe-paths', '--directory', d, patch], cwd='/', capture_output=True, text=True)
        if r.returncode != 0:
            r = subprocess.run(['patch', '-p1', '-i', patch], cwd=d, capture_output=True, text=True)
        if r.returncode != 0:
            print('%-6s PATCH DOES NOT APPLY' % n)
            bad += 1
            continue

        def run_one(p):
            ev = tempfile.mkdtemp(prefix='ysev.')
            rr = subprocess.run([os.path.join(VERIF, 'check'), p, '--tier', 'quick'], cwd=VERIF, capture_output=True, text=True,
                                env=dict(os.environ, YATA_REPO=d, YATA_EVIDENCE_DIR=ev))
            shutil.rmtree(ev, ignore_errors=True)
            lines = [l.strip()[:260] for l in (rr.stdout + rr.stderr).splitlines() if l.strip().startswith('[') or 'BROKEN' in l]
            return p, rr.returncode, lines
        res = [run_one(plist[0])]
        with ThreadPoolExecutor(max_workers=6) as pool:
            res += list(pool.map(run_one, plist[1:]))
        alarms = [(p, rc, ls) for p, rc, ls in res if rc != 0]
        print('%-6s %s' % (n, 'silent' if not alarms else 'ALARMS ' + ','.join(p for p, _, _ in alarms)))
        for p, rc, ls in alarms:
            bad += 1
            for l in ls[:3]:
                print('        %s rc=%d %s' % (p, rc, l))
        mp = os.path.join(VERIF, 'neutral', n, 'meta.json')
        if os.path.exists(mp) and len(plist) == len(props.PROPS):
            m = json.load(open(mp))
            m['alarms'] = sorted(p for p, _, _ in alarms)
            m['checks'] = {p: {'exit': rc, 'lines': ls[:5]} for p, rc, ls in res}
            json.dump(m, open(mp, 'w'), indent=1)
    finally:
        shutil.rmtree(d, ignore_errors=True)
sys.exit(1 if bad else 0)
