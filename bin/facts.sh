#!/bin/bash
# usage: facts.sh <repo> <out.jsonl> [cargo feature args...]
# Runs the yata-facts driver over <repo>'s working tree with a fresh target dir (removed at exit).
set -euo pipefail
REPO=$1; OUT=$2; shift 2
HERE=$(cd "$(dirname "$0")/.." && pwd)
DRV=$HERE/driver/target/release/yata-facts
[ -x "$DRV" ] || { echo "driver not built: run setup" >&2; exit 2; }
SYSROOT=$(rustc +nightly --print sysroot)
T=$(mktemp -d "${TMPDIR:-/tmp}/yfacts.XXXXXX")
trap 'rm -rf "$T"' EXIT
rm -f "$OUT"
cd "$REPO"
if ! LD_LIBRARY_PATH=$SYSROOT/lib RUSTFLAGS="-Zmir-opt-level=0 -Awarnings" \
  RUSTC_WORKSPACE_WRAPPER=$DRV CARGO_TARGET_DIR=$T CARGO_NET_OFFLINE=true \
  YATA_FACTS_OUT=$OUT YATA_FACTS_CRATE=${YATA_FACTS_CRATE:-yata} \
  cargo +nightly check --offline --lib "$@" >"$T/log" 2>&1; then
  cat "$T/log" >&2
  echo "BUILD-FAILED features: $*" >&2
  exit 3
fi
[ -s "$OUT" ] || { cat "$T/log" >&2; echo "no facts written" >&2; exit 2; }
