#!/usr/bin/env python3
"""Debug helper: run one rule function and print its result. usage: tryrule.py module.func"""
import sys, os, json
HERE = os.path.dirname(os.path.dirname(os.path.abspath(__file__)))
sys.path.insert(0, os.path.join(HERE, 'rules'))
import engine, importlib
mod, fn = sys.argv[1].split('.')
sets = sys.argv[2].split(',') if len(sys.argv) > 2 else ['default']
engine.ensure_facts(sets)
ctx = engine.Ctx('quick', sets)
rs = getattr(importlib.import_module(mod), fn)(ctx)
for r in (rs if isinstance(rs, list) else [rs]):
    print('==', r.rule, r.title)
    print('instances', r.instances, 'nontrivial', len(r.nontrivial), 'floors', r.floors, 'info', r.info)
    for v in r.violations:
        print('  V', v.key, '::', v.msg, v.where())
    for s in r.samples[:4]:
        print('  S', json.dumps(s, default=str)[:300])
    for u in r.undecided[:10]:
        print('  U', u)
    try:
        r.check_floors()
    except Exception as e:
        print('  BROKEN', e)
