#!/usr/bin/env python3
"""Re-run every check against every stored seeded change (/verif/seeded/*/patch.diff) and update meta.json.
usage: seed_recheck.py [name-substring]"""
import json, os, shutil, subprocess, sys, tempfile
from concurrent.futures import ThreadPoolExecutor
VERIF = os.path.dirname(os.path.dirname(os.path.abspath(__file__)))
sys.path.insert(0, os.path.join(VERIF, 'rules'))
import props


def one(name):
    out = os.path.join(VERIF, 'seeded', name)
    meta = json.load(open(os.path.join(out, 'meta.json')))
    d = tempfile.mkdtemp(prefix='yseed.')
    try:
        subprocess.check_call(['rsync', '-a', '--exclude', 'target', '--exclude', '.git', '/repo/', d + '/'])
        r = subprocess.run(['git', 'apply', '--unsafe-paths', '--directory', d, os.path.join(out, 'patch.diff')], cwd='/', capture_output=True, text=True)
        if r.returncode != 0:
            r = subprocess.run(['patch', '-p1', '-i', os.path.join(out, 'patch.diff')], cwd=d, capture_output=True, text=True)
        if r.returncode != 0:
            meta['recheck_error'] = 'patch no longer applies: ' + (r.stdout + r.stderr)[-300:]
            json.dump(meta, open(os.path.join(out, 'meta.json'), 'w'), indent=1)
            return name, None
        checks = {}
        for p in sorted(props.PROPS):
            ev = tempfile.mkdtemp(prefix='ysev.')
            rr = subprocess.run([os.path.join(VERIF, 'check'), p, '--tier', 'quick'], cwd=VERIF, capture_output=True, text=True,
                                env=dict(os.environ, YATA_REPO=d, YATA_EVIDENCE_DIR=ev))
            shutil.rmtree(ev, ignore_errors=True)
            viol = [l.strip()[:260] for l in rr.stdout.splitlines() if l.strip().startswith('[')]
            checks[p] = {'exit': rr.returncode, 'violations': viol[:4]}
        meta['checks'] = checks
        meta['caught_by'] = sorted(p for p, c in checks.items() if c['exit'] == 1)
        meta.pop('recheck_error', None)
        json.dump(meta, open(os.path.join(out, 'meta.json'), 'w'), indent=1)
        return name, meta['caught_by']
    finally:
        shutil.rmtree(d, ignore_errors=True)


names = sorted(n for n in os.listdir(os.path.join(VERIF, 'seeded')) if os.path.exists(os.path.join(VERIF, 'seeded', n, 'meta.json')))
if len(sys.argv) > 1:
    names = [n for n in names if sys.argv[1] in n]
with ThreadPoolExecutor(max_workers=4) as ex:
    for name, caught in ex.map(one, names):
        m = json.load(open(os.path.join(VERIF, 'seeded', name, 'meta.json')))
        print('%-40s property=%s caught_by=%s own=%s' % (name, m['property'], caught, 'YES' if caught and m['property'] in caught else 'no'))
