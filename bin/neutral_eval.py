#!/usr/bin/env python3
"""Evaluate a sub-agent's behaviour-preserving refactoring: apply it to a scratch copy of /repo, run the pinned unit tests and the
agent's equivalence test with and without the change (same output expected), then run every check: all must stay silent.
Stored under /verif/neutral/<name>/.   usage: neutral_eval.py <worktree dir> <name>"""
import json, os, shutil, subprocess, sys, tempfile
from concurrent.futures import ThreadPoolExecutor
VERIF = os.path.dirname(os.path.dirname(os.path.abspath(__file__)))
sys.path.insert(0, os.path.join(VERIF, 'rules'))


def sh(cmd, cwd, env=None, timeout=1800):
    r = subprocess.run(cmd, cwd=cwd, capture_output=True, text=True, env=env, timeout=timeout)
    return r.returncode, r.stdout + r.stderr


def main():
    wt, name = sys.argv[1:3]
    out = os.path.join(VERIF, 'neutral', name)
    os.makedirs(out, exist_ok=True)
    for f in ('patch.diff', 'equiv.rs', 'NOTES.md'):
        if os.path.exists(os.path.join(wt, f)):
            shutil.copy(os.path.join(wt, f), os.path.join(out, f))
    patch = os.path.join(out, 'patch.diff')
    meta = {'name': name, 'ran': []}
    d = tempfile.mkdtemp(prefix='yneut.')
    tgt = tempfile.mkdtemp(prefix='yneutt.')
    env = dict(os.environ, CARGO_TARGET_DIR=tgt)
    try:
        subprocess.check_call(['rsync', '-a', '--exclude', 'target', '--exclude', '.git', '/repo/', d + '/'])
        have_equiv = os.path.exists(os.path.join(out, 'equiv.rs'))
        if have_equiv:
            os.makedirs(os.path.join(d, 'tests'), exist_ok=True)
            shutil.copy(os.path.join(out, 'equiv.rs'), os.path.join(d, 'tests', 'equiv.rs'))
            rc, o = sh(['cargo', 'test', '--offline', '--test', 'equiv', '--', '--nocapture'], d, env)
            meta['equiv_without_change'] = 'pass' if rc == 0 else 'FAIL'
            before = sorted(l for l in o.splitlines() if 'checksum' in l.lower() or 'digest' in l.lower() or 'hash' in l.lower())
        rc, o = sh(['git', 'apply', '--unsafe-paths', '--directory', d, patch], '/')
        if rc != 0:
            rc, o = sh(['patch', '-p1', '-i', patch], d)
        meta['patch_applies'] = rc == 0
        if rc != 0:
            meta['error'] = o[-500:]
            json.dump(meta, open(os.path.join(out, 'meta.json'), 'w'), indent=1)
            print(json.dumps(meta, indent=1))
            return 1
        rc, o = sh(['cargo', 'test', '--offline', '--lib'], d, env)
        tail = [l for l in o.splitlines() if l.startswith('test result')]
        meta['unit_tests_with_change'] = tail[-1] if tail else o[-300:]
        if have_equiv:
            rc, o = sh(['cargo', 'test', '--offline', '--test', 'equiv', '--', '--nocapture'], d, env)
            meta['equiv_with_change'] = 'pass' if rc == 0 else 'FAIL'
            after = sorted(l for l in o.splitlines() if 'checksum' in l.lower() or 'digest' in l.lower() or 'hash' in l.lower())
            meta['equiv_output_identical'] = (before == after)
            meta['equiv_output_lines'] = len(after)
            os.remove(os.path.join(d, 'tests', 'equiv.rs'))
        import props
        plist = sorted(props.PROPS)

        def run_one(p):
            ev = tempfile.mkdtemp(prefix='ysev.')
            rc, o = sh([os.path.join(VERIF, 'check'), p, '--tier', 'quick'], VERIF, dict(os.environ, YATA_REPO=d, YATA_EVIDENCE_DIR=ev))
            shutil.rmtree(ev, ignore_errors=True)
            viol = [l.strip()[:300] for l in o.splitlines() if l.strip().startswith('[') or l.startswith('NOTE') or 'Broken' in l or 'BROKEN' in l]
            return p, {'exit': rc, 'lines': viol[:5], 'tail': o.strip().splitlines()[-1][:200] if o.strip() else ''}
        checks = {}
        p0, c0 = run_one(plist[0])
        checks[p0] = c0
        with ThreadPoolExecutor(max_workers=6) as pool:
            for p, c in pool.map(run_one, plist[1:]):
                checks[p] = c
        meta['checks'] = checks
        meta['alarms'] = sorted(p for p, c in checks.items() if c['exit'] != 0)
    finally:
        shutil.rmtree(d, ignore_errors=True)
        shutil.rmtree(tgt, ignore_errors=True)
    json.dump(meta, open(os.path.join(out, 'meta.json'), 'w'), indent=1)
    print(json.dumps({k: v for k, v in meta.items() if k != 'checks'}, indent=1))
    for p, c in meta['checks'].items():
        if c['exit'] != 0:
            print(p, c['exit'], c['lines'][:3], c['tail'])
    return 0


if __name__ == '__main__':
    sys.exit(main())
