#!/bin/bash
# Run every registered check (both tiers) on /repo and report any that is not silent. usage: bin/run_all.sh [quick|thorough|both]
cd "$(dirname "$0")/.."
tier=${1:-both}
bad=0
for p in C01 C02 C03 C04 C05 C07 C08 C09 C10 C11 C12 C13 C14 C15 C16 C17 C18 C19 C20; do
  for t in quick thorough; do
    if [ "$tier" != both ] && [ "$tier" != "$t" ]; then continue; fi
    out=$(YATA_NO_SELFTEST=1 ./check $p --tier $t 2>&1); rc=$?
    line=$(echo "$out" | tail -1)
    if [ $rc -ne 0 ] || echo "$out" | grep -q "^VIOLATION"; then bad=1; echo "NOT SILENT rc=$rc: $line"; echo "$out" | grep "^\s*\[" | head -5; else echo "ok  $line"; fi
  done
done
exit $bad
