#!/usr/bin/env python3
"""Rewrite the seeded-changes table in DESIGN.md from seeded/*/meta.json."""
import json, os, re
V = os.path.dirname(os.path.dirname(os.path.abspath(__file__)))
rows = []
for n in sorted(os.listdir(os.path.join(V, 'seeded'))):
    p = os.path.join(V, 'seeded', n, 'meta.json')
    if not os.path.exists(p):
        continue
    m = json.load(open(p))
    own = m['property'] in (m.get('caught_by') or [])
    others = [c for c in (m.get('caught_by') or []) if c != m['property']]
    rule = ''
    if own:
        v = m['checks'][m['property']]['violations']
        rule = v[0].split(']')[0].lstrip('[') if v else ''
    elif others:
        v = m['checks'][others[0]]['violations']
        rule = '%s·%s' % (others[0], v[0].split(']')[0].lstrip('[')) if v else others[0]
    rows.append('| `%s` | %s | %s | %s | %s | %s |' % (n, m['property'], m.get('summary', ''), m.get('needs_to_manifest', ''),
                                                   ('**yes** (%s)' % rule) if own else ('no' + (' — but reported by %s' % rule if others else '')),
                                                   m.get('disposition', '')))
table = ('| seeded change | property | change | needs | caught by its own check | remark |\n|---|---|---|---|---|---|\n' + '\n'.join(rows) + '\n')
sup = sum(1 for r in rows if 'SUPERSEDED' in r)
caught = sum(1 for r in rows if '**yes**' in r)
anyc = sum(1 for r in rows if '**yes**' in r or 'but reported by' in r)
table += '\n%d of %d live seeded changes are reported by the check of the property they were written against (%d by some check); %d superseded by a later fix.\n' % (caught, len(rows) - sup, anyc, sup)
p = os.path.join(V, 'DESIGN.md')
s = open(p).read()
if '@SEEDS@' in s:
    s = s.replace('@SEEDS@', '<!-- seeds:begin -->\n' + table + '<!-- seeds:end -->')
else:
    s = re.sub(r'<!-- seeds:begin -->.*?<!-- seeds:end -->', '<!-- seeds:begin -->\n' + table.replace('\\', '\\\\') + '<!-- seeds:end -->', s, flags=re.S)
open(p, 'w').write(s)
print(table)
