#!/usr/bin/env python3
"""Generate /verif/MANIFEST.json from rules/props.py (single source of truth)."""
import json
import os
import sys

HERE = os.path.dirname(os.path.dirname(os.path.abspath(__file__)))
sys.path.insert(0, os.path.join(HERE, 'rules'))
import props  # noqa: E402

NOT_APPLICABLE = props.NOT_APPLICABLE

checks = []
for pid in sorted(props.PROPS):
    sp = props.PROPS[pid]
    checks.append({
        'property_id': pid,
        'quick_cmd': './check %s --tier quick' % pid,
        'thorough_cmd': './check %s --tier thorough' % pid,
        'evidence_file': 'evidence/%s.json' % pid,
        'replay_cmd_template': './check %s --replay {path}' % pid,
        'engine': 'yata-facts + rules',
        'level_claimed': {
            'category': sp.get('level', 'other'),
            'text': sp['level_text'],
            'design_ref': sp.get('design_ref', 'DESIGN.md §5 ' + pid),
        },
        'level_note': 'Not decided by this check: ' + '; '.join(sp['not_decided']) + '. Trusted base: ' + '; '.join(sp.get('assumptions', [])),
        'technique': sp['technique'],
    })
claimed = {c['property_id'] for c in checks}
na = [{'property_id': k, 'reason': v} for k, v in sorted(NOT_APPLICABLE.items()) if k not in claimed]
man = {
    'version': 1,
    'setup_cmd': 'cd driver && CARGO_NET_OFFLINE=true cargo +nightly build --release --offline',
    'hooks': {
        'guard': 'yata_verif',
        'enable': 'none: static analysis needs no instrumentation; no hook commits exist in /repo',
        'baseline_off_cmd': 'cd /repo && cargo test --workspace --no-fail-fast --offline',
        'source_commits': [],
        'add_only': True,
    },
    'engines': [
        {'name': 'yata-facts', 'path': 'driver/', 'serves_properties': sorted(claimed),
         'kind_free_text': 'rustc_private driver (nightly) run as RUSTC_WORKSPACE_WRAPPER over /repo\'s working tree: serialises items, '
                           'impls, HIR trees and MIR (generic bodies + monomorphic instances reachable from default instantiations)'},
        {'name': 'rules', 'path': 'rules/', 'serves_properties': sorted(claimed),
         'kind_free_text': 'python3 (stdlib) rule layer: CFG/dominator/path rules, value trees, interval abstract interpreter over MIR, '
                           'table agreement checks; known-findings matcher; evidence writer'},
    ],
    'checks': checks,
    'not_applicable': na,
    'notes': 'Technique family: static analysis only. Exit 2 of a check = broken (lost anchor / floor), never a VIOLATION. '
             'known_findings.txt lists recorded findings and fix: commits.',
}
json.dump(man, open(os.path.join(HERE, 'MANIFEST.json'), 'w'), indent=1)
print('MANIFEST.json: %d checks, %d not applicable' % (len(checks), len(na)))
