//! HIR expression trees with resolved paths and method callees, one record per fn body.

use crate::items::{loc, path};
use crate::json::J;
use crate::obj;
use rustc_ast::LitKind;
use rustc_hir as hir;
use rustc_hir::def::{DefKind, Res};
use rustc_hir::def_id::{DefId, LocalDefId};
use rustc_middle::ty::{self, Instance, TyCtxt, TypeckResults, TypingEnv};
use rustc_span::{ExpnKind, Span};

struct Cx<'tcx> {
    tcx: TyCtxt<'tcx>,
    tr: &'tcx TypeckResults<'tcx>,
    env: TypingEnv<'tcx>,
}

fn mac(span: Span) -> J {
    if !span.from_expansion() {
        return J::Null;
    }
    let mut v = Vec::new();
    for e in span.macro_backtrace() {
        if let ExpnKind::Macro(_, name) = e.kind {
            v.push(J::s(name.to_string()));
        }
    }
    if v.is_empty() {
        let k = span.ctxt().outer_expn_data().kind;
        if let ExpnKind::Desugaring(d) = k {
            let s = format!("{:?}", d);
            return J::Arr(vec![J::s(format!("desugar:{}", s.split(|c: char| !c.is_alphanumeric()).next().unwrap_or("")))]);
        }
        return J::Null;
    }
    J::Arr(v)
}

impl<'tcx> Cx<'tcx> {
    fn res(&self, res: Res) -> J {
        let tcx = self.tcx;
        match res {
            Res::Local(id) => obj! {"res": J::s("local"), "name": J::s(tcx.hir_name(id).to_string())},
            Res::Def(kind, did) => {
                let k = match kind {
                    DefKind::Ctor(..) => {
                        // report the variant / struct path
                        let parent = tcx.parent(did);
                        return obj! {"res": J::s("ctor"), "def": J::s(path(tcx, parent))};
                    }
                    DefKind::Fn => "fn",
                    DefKind::AssocFn => "assoc_fn",
                    DefKind::Const { .. } => "const",
                    DefKind::AssocConst { .. } => "assoc_const",
                    DefKind::Static { .. } => "static",
                    DefKind::Struct => "struct",
                    DefKind::Variant => "variant",
                    DefKind::ConstParam => "const_param",
                    _ => "def",
                };
                obj! {"res": J::s(k), "def": J::s(path(tcx, did))}
            }
            Res::SelfCtor(did) => obj! {"res": J::s("self_ctor"), "def": J::s(path(tcx, did))},
            Res::SelfTyAlias { alias_to, .. } => obj! {"res": J::s("self_ty"), "def": J::s(path(tcx, alias_to))},
            _ => obj! {"res": J::s("other"), "s": J::s(format!("{:?}", res))},
        }
    }

    fn resolve_fn(&self, did: DefId, hir_id: hir::HirId) -> J {
        let tcx = self.tcx;
        if !matches!(tcx.def_kind(did), DefKind::Fn | DefKind::AssocFn) {
            return J::Null;
        }
        let args = self.tr.node_args(hir_id);
        if args.len() != tcx.generics_of(did).count() {
            return J::Null;
        }
        match Instance::try_resolve(tcx, self.env, did, args) {
            Ok(Some(inst)) => match inst.def {
                ty::InstanceKind::Item(d) | ty::InstanceKind::Intrinsic(d) => obj! {
                    "def": J::s(path(tcx, d)), "id": J::s(format!("{}", inst)),
                    "local": J::Bool(d.is_local()),
                },
                _ => obj! {"def": J::Null, "id": J::s(format!("{}", inst)), "local": J::Bool(false)},
            },
            _ => J::Null,
        }
    }

    fn qpath(&self, q: &hir::QPath<'tcx>, hir_id: hir::HirId) -> J {
        let res = self.tr.qpath_res(q, hir_id);
        let mut j = self.res(res);
        if let (J::Obj(v), Res::Def(DefKind::Fn | DefKind::AssocFn, did)) = (&mut j, res) {
            v.push(("resolved", self.resolve_fn(did, hir_id)));
            v.push(("trait", J::opt_s(self.tcx.trait_of_assoc(did).map(|t| path(self.tcx, t)))));
            v.push(("name", J::s(self.tcx.item_name(did).to_string())));
        }
        j
    }

    fn lit(&self, l: &hir::Lit, negated: bool) -> J {
        let neg = if negated { "-" } else { "" };
        match &l.node {
            LitKind::Str(s, _) => obj! {"e": J::s("lit"), "kind": J::s("str"), "v": J::s(s.to_string())},
            LitKind::Int(i, _) => obj! {"e": J::s("lit"), "kind": J::s("int"), "v": J::s(format!("{}{}", neg, i.get()))},
            LitKind::Float(s, _) => obj! {"e": J::s("lit"), "kind": J::s("float"), "v": J::s(format!("{}{}", neg, s))},
            LitKind::Bool(b) => obj! {"e": J::s("lit"), "kind": J::s("bool"), "v": J::s(format!("{}", b))},
            LitKind::Char(c) => obj! {"e": J::s("lit"), "kind": J::s("char"), "v": J::s(c.to_string())},
            _ => obj! {"e": J::s("lit"), "kind": J::s("other"), "v": J::s(format!("{:?}", l.node))},
        }
    }

    fn pat(&self, p: &hir::Pat<'tcx>) -> J {
        use hir::PatKind::*;
        match &p.kind {
            Wild => obj! {"p": J::s("wild")},
            Missing | Never => obj! {"p": J::s("wild")},
            Binding(mode, _, ident, sub) => obj! {
                "p": J::s("bind"), "name": J::s(ident.name.to_string()),
                "by_ref": J::Bool(matches!(mode.0, hir::ByRef::Yes(..))),
                "mut": J::Bool(mode.1.is_mut()),
                "sub": sub.map(|s| self.pat(s)).unwrap_or(J::Null),
            },
            Struct(q, fields, _) => {
                let fs: Vec<J> = fields.iter().map(|f| obj! {"name": J::s(f.ident.name.to_string()), "pat": self.pat(f.pat)}).collect();
                obj! {"p": J::s("struct"), "path": self.res(self.tr.qpath_res(q, p.hir_id)), "fields": J::Arr(fs)}
            }
            TupleStruct(q, pats, _) => {
                let ps: Vec<J> = pats.iter().map(|x| self.pat(x)).collect();
                obj! {"p": J::s("tuple_struct"), "path": self.res(self.tr.qpath_res(q, p.hir_id)), "pats": J::Arr(ps)}
            }
            Or(pats) => obj! {"p": J::s("or"), "pats": J::Arr(pats.iter().map(|x| self.pat(x)).collect())},
            Tuple(pats, _) => obj! {"p": J::s("tuple"), "pats": J::Arr(pats.iter().map(|x| self.pat(x)).collect())},
            Box(x) | Deref(x) | Ref(x, _, _) => obj! {"p": J::s("ref"), "pat": self.pat(x)},
            Expr(e) => obj! {"p": J::s("expr"), "v": self.pat_expr(e)},
            Guard(x, g) => obj! {"p": J::s("guard"), "pat": self.pat(x), "cond": self.expr(g)},
            Range(a, b, end) => obj! {
                "p": J::s("range"),
                "lo": a.map(|x| self.pat_expr(x)).unwrap_or(J::Null),
                "hi": b.map(|x| self.pat_expr(x)).unwrap_or(J::Null),
                "inclusive": J::Bool(matches!(end, hir::RangeEnd::Included)),
            },
            Slice(a, m, b) => obj! {
                "p": J::s("slice"),
                "before": J::Arr(a.iter().map(|x| self.pat(x)).collect()),
                "mid": m.map(|x| self.pat(x)).unwrap_or(J::Null),
                "after": J::Arr(b.iter().map(|x| self.pat(x)).collect()),
            },
            Err(_) => obj! {"p": J::s("err")},
        }
    }

    fn pat_expr(&self, e: &hir::PatExpr<'tcx>) -> J {
        match &e.kind {
            hir::PatExprKind::Lit { lit, negated } => self.lit(lit, *negated),
            hir::PatExprKind::Path(q) => {
                let mut j = self.qpath(q, e.hir_id);
                if let J::Obj(v) = &mut j {
                    v.insert(0, ("e", J::s("path")));
                }
                j
            }
            _ => obj! {"e": J::s("other_pat_expr")},
        }
    }

    fn block(&self, b: &hir::Block<'tcx>) -> J {
        let mut stmts = Vec::new();
        for s in b.stmts {
            match &s.kind {
                hir::StmtKind::Let(l) => {
                    stmts.push(obj! {
                        "s": J::s("let"), "pat": self.pat(l.pat),
                        "init": l.init.map(|e| self.expr(e)).unwrap_or(J::Null),
                        "els": l.els.map(|b| self.block(b)).unwrap_or(J::Null),
                    });
                }
                hir::StmtKind::Item(_) => stmts.push(obj! {"s": J::s("item")}),
                hir::StmtKind::Expr(e) => stmts.push(obj! {"s": J::s("expr"), "e": self.expr(e)}),
                hir::StmtKind::Semi(e) => stmts.push(obj! {"s": J::s("semi"), "e": self.expr(e)}),
            }
        }
        let unsafe_ = matches!(b.rules, hir::BlockCheckMode::UnsafeBlock(_));
        obj! {"e": J::s("block"), "stmts": J::Arr(stmts), "expr": b.expr.map(|e| self.expr(e)).unwrap_or(J::Null), "unsafe": J::Bool(unsafe_)}
    }

    fn expr(&self, e: &hir::Expr<'tcx>) -> J {
        let mut j = self.expr_inner(e);
        if let J::Obj(v) = &mut j {
            let (_, line) = loc(self.tcx, e.span);
            v.push(("l", J::Int(line)));
            let m = mac(e.span);
            if !matches!(m, J::Null) {
                v.push(("m", m));
            }
        }
        j
    }

    fn ty_of(&self, e: &hir::Expr<'tcx>) -> J {
        match self.tr.expr_ty_opt(e) {
            Some(t) => J::s(t.to_string()),
            None => J::Null,
        }
    }

    fn expr_inner(&self, e: &hir::Expr<'tcx>) -> J {
        use hir::ExprKind::*;
        let tcx = self.tcx;
        match &e.kind {
            ConstBlock(_) => obj! {"e": J::s("const_block")},
            Array(xs) => obj! {"e": J::s("array"), "xs": J::Arr(xs.iter().map(|x| self.expr(x)).collect())},
            Call(f, args) => {
                obj! {"e": J::s("call"), "f": self.expr(f), "args": J::Arr(args.iter().map(|x| self.expr(x)).collect()), "ty": self.ty_of(e)}
            }
            MethodCall(seg, recv, args, _) => {
                let did = self.tr.type_dependent_def_id(e.hir_id);
                obj! {
                    "e": J::s("mcall"), "name": J::s(seg.ident.name.to_string()),
                    "def": J::opt_s(did.map(|d| path(tcx, d))),
                    "trait": J::opt_s(did.and_then(|d| tcx.trait_of_assoc(d)).map(|t| path(tcx, t))),
                    "resolved": did.map(|d| self.resolve_fn(d, e.hir_id)).unwrap_or(J::Null),
                    "recv": self.expr(recv),
                    "recv_ty": self.ty_of(recv),
                    "args": J::Arr(args.iter().map(|x| self.expr(x)).collect()),
                    "ty": self.ty_of(e),
                }
            }
            Use(x, _) => self.expr(x),
            Tup(xs) => obj! {"e": J::s("tup"), "xs": J::Arr(xs.iter().map(|x| self.expr(x)).collect())},
            Binary(op, a, b) => {
                let over = self.tr.type_dependent_def_id(e.hir_id);
                obj! {
                    "e": J::s("bin"), "op": J::s(format!("{:?}", op.node)),
                    "a": self.expr(a), "b": self.expr(b), "aty": self.ty_of(a),
                    "overload": J::opt_s(over.map(|d| path(tcx, d))),
                }
            }
            Unary(op, a) => {
                let over = self.tr.type_dependent_def_id(e.hir_id);
                obj! {"e": J::s("un"), "op": J::s(format!("{:?}", op)), "a": self.expr(a), "aty": self.ty_of(a),
                "overload": J::opt_s(over.map(|d| path(tcx, d)))}
            }
            Lit(l) => self.lit(l, false),
            Cast(x, _) => obj! {"e": J::s("cast"), "a": self.expr(x), "from": self.ty_of(x), "to": self.ty_of(e)},
            Type(x, _) => self.expr(x),
            DropTemps(x) => self.expr(x),
            Let(l) => obj! {"e": J::s("let"), "pat": self.pat(l.pat), "init": self.expr(l.init)},
            If(c, t, f) => obj! {
                "e": J::s("if"), "cond": self.expr(c), "then": self.expr(t),
                "else": f.map(|x| self.expr(x)).unwrap_or(J::Null),
            },
            Loop(b, _, src, _) => obj! {"e": J::s("loop"), "src": J::s(format!("{:?}", src)), "body": self.block(b)},
            Match(s, arms, src) => {
                let av: Vec<J> = arms
                    .iter()
                    .map(|a| {
                        obj! {
                            "pat": self.pat(a.pat),
                            "guard": a.guard.map(|g| self.expr(g)).unwrap_or(J::Null),
                            "body": self.expr(a.body),
                        }
                    })
                    .collect();
                obj! {"e": J::s("match"), "src": J::s(format!("{:?}", src).split(|c: char| !c.is_alphanumeric()).next().unwrap_or("").to_string()),
                "scrut": self.expr(s), "scrut_ty": self.ty_of(s), "arms": J::Arr(av)}
            }
            Closure(c) => {
                let body = tcx.hir_body(c.body);
                let params: Vec<J> = body.params.iter().map(|p| self.pat(p.pat)).collect();
                // closure bodies share the typeck results of their parent
                obj! {"e": J::s("closure"), "def": J::s(path(tcx, c.def_id.to_def_id())), "params": J::Arr(params), "body": self.expr(body.value)}
            }
            Block(b, _) => self.block(b),
            Assign(l, r, _) => obj! {"e": J::s("assign"), "lhs": self.expr(l), "rhs": self.expr(r)},
            AssignOp(op, l, r) => {
                let over = self.tr.type_dependent_def_id(e.hir_id);
                obj! {"e": J::s("assign_op"), "op": J::s(format!("{:?}", op.node)), "lhs": self.expr(l), "rhs": self.expr(r), "aty": self.ty_of(l),
                "overload": J::opt_s(over.map(|d| path(tcx, d)))}
            }
            Field(b, ident) => obj! {"e": J::s("field"), "base": self.expr(b), "name": J::s(ident.name.to_string()), "ty": self.ty_of(e), "base_ty": self.ty_of(b)},
            Index(b, i, _) => {
                let over = self.tr.type_dependent_def_id(e.hir_id);
                obj! {"e": J::s("index"), "base": self.expr(b), "idx": self.expr(i), "base_ty": self.ty_of(b),
                "overload": J::opt_s(over.map(|d| path(tcx, d)))}
            }
            Path(q) => {
                let mut j = self.qpath(q, e.hir_id);
                if let J::Obj(v) = &mut j {
                    v.insert(0, ("e", J::s("path")));
                    v.push(("ty", self.ty_of(e)));
                }
                j
            }
            AddrOf(_, m, x) => obj! {"e": J::s("addr"), "mut": J::Bool(m.is_mut()), "a": self.expr(x)},
            Break(_, x) => obj! {"e": J::s("break"), "a": x.map(|x| self.expr(x)).unwrap_or(J::Null)},
            Continue(_) => obj! {"e": J::s("continue")},
            Ret(x) => obj! {"e": J::s("ret"), "a": x.map(|x| self.expr(x)).unwrap_or(J::Null)},
            Struct(q, fields, tail) => {
                let fs: Vec<J> = fields
                    .iter()
                    .map(|f| obj! {"name": J::s(f.ident.name.to_string()), "v": self.expr(f.expr), "shorthand": J::Bool(f.is_shorthand)})
                    .collect();
                let base = match tail {
                    hir::StructTailExpr::Base(b) => self.expr(b),
                    _ => J::Null,
                };
                obj! {"e": J::s("struct"), "path": self.res(self.tr.qpath_res(q, e.hir_id)), "fields": J::Arr(fs), "base": base, "ty": self.ty_of(e)}
            }
            Repeat(x, _) => obj! {"e": J::s("repeat"), "a": self.expr(x), "ty": self.ty_of(e)},
            _ => obj! {"e": J::s("other"), "s": J::s(format!("{:?}", std::mem::discriminant(&e.kind)))},
        }
    }
}

pub fn dump<'tcx>(tcx: TyCtxt<'tcx>, out: &mut String) {
    let items = tcx.hir_crate_items(());
    let mut owners: Vec<LocalDefId> = items.definitions().collect();
    owners.sort_by_key(|d| tcx.def_path(d.to_def_id()).to_string_no_crate_verbose());
    for ld in owners {
        let did = ld.to_def_id();
        if !matches!(tcx.def_kind(did), DefKind::Fn | DefKind::AssocFn | DefKind::Const { .. } | DefKind::AssocConst { .. }) {
            continue;
        }
        let Some(body) = tcx.hir_maybe_body_owned_by(ld) else { continue };
        // skip derive output of serde (huge, never inspected)
        let mut cur = Some(did);
        let mut skip = false;
        while let Some(d) = cur {
            if let DefKind::Impl { of_trait: true } = tcx.def_kind(d) {
                if tcx.is_automatically_derived(d) && tcx.crate_name(tcx.impl_trait_id(d).krate).as_str().starts_with("serde") {
                    skip = true;
                }
            }
            cur = tcx.opt_parent(d);
        }
        if skip {
            continue;
        }
        let tr = tcx.typeck(ld);
        let cx = Cx { tcx, tr, env: TypingEnv::post_analysis(tcx, did) };
        let params: Vec<J> = body.params.iter().map(|p| cx.pat(p.pat)).collect();
        let (file, line) = loc(tcx, tcx.def_span(did));
        obj! {
            "k": J::s("hir"), "def": J::s(path(tcx, did)),
            "params": J::Arr(params),
            "body": cx.expr(body.value),
            "file": J::s(file), "line": J::Int(line),
        }
        .line(out);
    }
}
