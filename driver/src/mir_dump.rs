//! MIR serialisation: generic bodies (identity args) and monomorphic instances reachable
//! from the crate's own default instantiations.

use crate::items::{loc, path};
use crate::json::J;
use crate::obj;
use rustc_data_structures::fx::FxHashSet;
use rustc_hir::def::DefKind;
use rustc_hir::def_id::{DefId, LocalDefId};
use rustc_middle::mir::interpret::Scalar;
use rustc_middle::mir::*;
use rustc_middle::ty::{self, GenericArgsRef, Instance, InstanceKind, Ty, TyCtxt, TypingEnv};
use rustc_span::{ExpnKind, Span};

pub fn ty_json<'tcx>(tcx: TyCtxt<'tcx>, t: Ty<'tcx>) -> J {
    ty_json_d(tcx, t, 0)
}

fn ty_json_d<'tcx>(tcx: TyCtxt<'tcx>, t: Ty<'tcx>, d: usize) -> J {
    if d > 6 {
        return obj! {"t": J::s("deep"), "s": J::s(t.to_string())};
    }
    match t.kind() {
        ty::Bool => obj! {"t": J::s("bool")},
        ty::Char => obj! {"t": J::s("char")},
        ty::Int(i) => obj! {"t": J::s("int"), "n": J::s(i.name_str())},
        ty::Uint(i) => obj! {"t": J::s("int"), "n": J::s(i.name_str())},
        ty::Float(f) => obj! {"t": J::s("float"), "n": J::s(f.name_str())},
        ty::Str => obj! {"t": J::s("str")},
        ty::Never => obj! {"t": J::s("never")},
        ty::Adt(def, args) => {
            let a: Vec<J> = args.types().map(|x| ty_json_d(tcx, x, d + 1)).collect();
            obj! {"t": J::s("adt"), "def": J::s(path(tcx, def.did())), "args": J::Arr(a), "s": J::s(t.to_string())}
        }
        ty::Ref(_, to, m) => obj! {"t": J::s("ref"), "mut": J::Bool(m.is_mut()), "to": ty_json_d(tcx, *to, d + 1)},
        ty::RawPtr(to, m) => obj! {"t": J::s("ptr"), "mut": J::Bool(m.is_mut()), "to": ty_json_d(tcx, *to, d + 1)},
        ty::Slice(of) => obj! {"t": J::s("slice"), "of": ty_json_d(tcx, *of, d + 1)},
        ty::Array(of, len) => {
            let n = len.try_to_target_usize(tcx).map(|x| J::Int(x as i128)).unwrap_or(J::Null);
            obj! {"t": J::s("array"), "of": ty_json_d(tcx, *of, d + 1), "len": n}
        }
        ty::Tuple(ts) => {
            let a: Vec<J> = ts.iter().map(|x| ty_json_d(tcx, x, d + 1)).collect();
            obj! {"t": J::s("tuple"), "of": J::Arr(a)}
        }
        ty::FnDef(def, args) => {
            obj! {"t": J::s("fndef"), "def": J::s(path(tcx, *def)), "args": args_json(tcx, args)}
        }
        ty::Closure(def, _) => obj! {"t": J::s("closure"), "def": J::s(path(tcx, *def))},
        ty::Param(p) => obj! {"t": J::s("param"), "n": J::s(p.name.to_string())},
        ty::Alias(..) => obj! {"t": J::s("alias"), "s": J::s(t.to_string())},
        ty::FnPtr(..) => obj! {"t": J::s("fnptr"), "s": J::s(t.to_string())},
        ty::Dynamic(..) => obj! {"t": J::s("dyn"), "s": J::s(t.to_string())},
        _ => obj! {"t": J::s("other"), "s": J::s(t.to_string())},
    }
}

fn args_json<'tcx>(_tcx: TyCtxt<'tcx>, args: GenericArgsRef<'tcx>) -> J {
    let mut v = Vec::new();
    for a in args.iter() {
        if let Some(t) = a.as_type() {
            v.push(J::s(t.to_string()));
        } else if let Some(c) = a.as_const() {
            v.push(J::s(format!("const {}", c)));
        }
    }
    J::Arr(v)
}

pub fn const_value_json<'tcx>(tcx: TyCtxt<'tcx>, val: ConstValue, ty: Ty<'tcx>) -> J {
    match val {
        ConstValue::Scalar(Scalar::Int(i)) => {
            let size = i.size();
            let bits = i.to_bits(size);
            obj! {"c": J::s("scalar"), "ty": J::s(ty.to_string()), "bits": J::Int(bits as i128), "size": J::Int(size.bytes() as i128)}
        }
        ConstValue::Scalar(Scalar::Ptr(..)) => obj! {"c": J::s("ptr"), "ty": J::s(ty.to_string())},
        ConstValue::ZeroSized => match ty.kind() {
            ty::FnDef(def, args) => {
                obj! {"c": J::s("fn"), "def": J::s(path(tcx, *def)), "args": args_json(tcx, args)}
            }
            _ => obj! {"c": J::s("zst"), "ty": J::s(ty.to_string())},
        },
        ConstValue::Slice { .. } => {
            if let Some(bytes) = val.try_get_slice_bytes_for_diagnostics(tcx) {
                obj! {"c": J::s("str"), "ty": J::s(ty.to_string()), "v": J::s(String::from_utf8_lossy(bytes).to_string())}
            } else {
                obj! {"c": J::s("slice"), "ty": J::s(ty.to_string())}
            }
        }
        ConstValue::Indirect { .. } => obj! {"c": J::s("indirect"), "ty": J::s(ty.to_string())},
    }
}

pub struct Ctx<'tcx> {
    pub tcx: TyCtxt<'tcx>,
    pub env: TypingEnv<'tcx>,
    pub mono: bool,
    pub found: Vec<Instance<'tcx>>,
}

pub fn span_json(tcx: TyCtxt<'_>, span: Span) -> J {
    let (file, line) = loc(tcx, span);
    let mut macros = Vec::new();
    let mut desugar = J::Null;
    if span.from_expansion() {
        for e in span.macro_backtrace() {
            match e.kind {
                ExpnKind::Macro(_, name) => macros.push(J::s(name.to_string())),
                ExpnKind::Desugaring(d) => {
                    let s = format!("{:?}", d);
                    desugar = J::s(s.split(|c: char| !c.is_alphanumeric()).next().unwrap_or("").to_string());
                }
                _ => {}
            }
        }
        if let ExpnKind::Desugaring(d) = span.ctxt().outer_expn_data().kind {
            let s = format!("{:?}", d);
            desugar = J::s(s.split(|c: char| !c.is_alphanumeric()).next().unwrap_or("").to_string());
        }
    }
    // own line (not the call site) is useful for code inside local macros; keep only callsite
    obj! {"f": J::s(file), "l": J::Int(line), "m": J::Arr(macros), "d": desugar}
}

impl<'tcx> Ctx<'tcx> {
    fn place(&self, body: &Body<'tcx>, p: &Place<'tcx>) -> J {
        let tcx = self.tcx;
        let mut pty = rustc_middle::mir::PlaceTy::from_ty(body.local_decls[p.local].ty);
        let mut proj = Vec::new();
        for elem in p.projection.iter() {
            let j = match elem {
                ProjectionElem::Deref => obj! {"p": J::s("deref")},
                ProjectionElem::Field(f, fty) => {
                    let name = match pty.ty.kind() {
                        ty::Adt(def, _) => {
                            let v = match pty.variant_index {
                                Some(v) => def.variant(v),
                                None => def.non_enum_variant(),
                            };
                            v.fields[f].name.to_string()
                        }
                        _ => format!("{}", f.index()),
                    };
                    obj! {"p": J::s("field"), "i": J::Int(f.index() as i128), "name": J::s(name), "ty": J::s(fty.to_string())}
                }
                ProjectionElem::Index(l) => obj! {"p": J::s("index"), "local": J::Int(l.index() as i128)},
                ProjectionElem::ConstantIndex { offset, min_length, from_end } => {
                    obj! {"p": J::s("cindex"), "offset": J::Int(offset as i128), "min": J::Int(min_length as i128), "from_end": J::Bool(from_end)}
                }
                ProjectionElem::Subslice { from, to, from_end } => {
                    obj! {"p": J::s("subslice"), "from": J::Int(from as i128), "to": J::Int(to as i128), "from_end": J::Bool(from_end)}
                }
                ProjectionElem::Downcast(name, v) => {
                    let n = match (name, pty.ty.kind()) {
                        (Some(n), _) => n.to_string(),
                        (None, ty::Adt(def, _)) => def.variant(v).name.to_string(),
                        _ => format!("{}", v.index()),
                    };
                    obj! {"p": J::s("downcast"), "variant": J::s(n), "vi": J::Int(v.index() as i128)}
                }
                ProjectionElem::OpaqueCast(_) => obj! {"p": J::s("opaque")},
                ProjectionElem::UnwrapUnsafeBinder(_) => obj! {"p": J::s("unwrap_binder")},
            };
            proj.push(j);
            pty = pty.projection_ty(tcx, elem);
        }
        obj! {"l": J::Int(p.local.index() as i128), "p": J::Arr(proj), "ty": J::s(pty.ty.to_string())}
    }

    fn constant(&self, c: &ConstOperand<'tcx>) -> J {
        let tcx = self.tcx;
        let ty = c.const_.ty();
        if let Const::Unevaluated(uv, _) = c.const_ {
            if let Some(p) = uv.promoted {
                return obj! {"c": J::s("promoted"), "of": J::s(path(tcx, uv.def)), "index": J::Int(p.index() as i128), "ty": J::s(ty.to_string())};
            }
            if matches!(ty.kind(), ty::Adt(..)) && uv.def.is_local() {
                return obj! {"c": J::s("constitem"), "def": J::s(path(tcx, uv.def)), "ty": J::s(ty.to_string())};
            }
        }
        match c.const_.eval(tcx, self.env, c.span) {
            Ok(v) => const_value_json(tcx, v, ty),
            Err(_) => match ty.kind() {
                ty::FnDef(def, args) => {
                    obj! {"c": J::s("fn"), "def": J::s(path(tcx, *def)), "args": args_json(tcx, args)}
                }
                _ => obj! {"c": J::s("uneval"), "ty": J::s(ty.to_string()), "s": J::s(format!("{}", c.const_))},
            },
        }
    }

    fn operand(&self, body: &Body<'tcx>, o: &Operand<'tcx>) -> J {
        match o {
            Operand::Copy(p) => obj! {"o": J::s("copy"), "pl": self.place(body, p)},
            Operand::Move(p) => obj! {"o": J::s("move"), "pl": self.place(body, p)},
            Operand::Constant(c) => obj! {"o": J::s("const"), "v": self.constant(c)},
            Operand::RuntimeChecks(r) => obj! {"o": J::s("rtcheck"), "v": J::s(format!("{:?}", r))},
        }
    }

    fn callee(&mut self, def_id: DefId, args: GenericArgsRef<'tcx>) -> J {
        let tcx = self.tcx;
        let trait_of = tcx.trait_of_assoc(def_id).map(|t| path(tcx, t));
        let name = tcx.opt_item_name(def_id).map(|s| s.to_string()).unwrap_or_default();
        let mut res = J::Null;
        let can_resolve = matches!(tcx.def_kind(def_id), DefKind::Fn | DefKind::AssocFn);
        if can_resolve {
            if let Ok(Some(inst)) = Instance::try_resolve(tcx, self.env, def_id, args) {
                let (kind, d): (&str, Option<DefId>) = match inst.def {
                    InstanceKind::Item(d) => ("Item", Some(d)),
                    InstanceKind::Intrinsic(d) => ("Intrinsic", Some(d)),
                    InstanceKind::Virtual(d, _) => ("Virtual", Some(d)),
                    InstanceKind::ClosureOnceShim { call_once, .. } => ("ClosureOnceShim", Some(call_once)),
                    InstanceKind::FnPtrShim(d, _) => ("FnPtrShim", Some(d)),
                    InstanceKind::CloneShim(d, _) => ("CloneShim", Some(d)),
                    InstanceKind::DropGlue(d, _) => ("DropGlue", Some(d)),
                    InstanceKind::ReifyShim(d, _) => ("ReifyShim", Some(d)),
                    InstanceKind::VTableShim(d) => ("VTableShim", Some(d)),
                    _ => ("Other", None),
                };
                let local = d.map(|d| d.is_local()).unwrap_or(false);
                let self_ty = match inst.def {
                    InstanceKind::CloneShim(_, t) | InstanceKind::FnPtrShim(_, t) => J::s(t.to_string()),
                    _ => J::Null,
                };
                let is_item = matches!(inst.def, InstanceKind::Item(_));
                let closure_like = d.map(|d| tcx.is_closure_like(d)).unwrap_or(false);
                if self.mono && is_item && local && tcx.is_mir_available(d.unwrap()) {
                    self.found.push(inst);
                }
                res = obj! {
                    "kind": J::s(kind),
                    "def": J::opt_s(d.map(|d| path(tcx, d))),
                    "local": J::Bool(local),
                    "closure": J::Bool(closure_like),
                    "args": args_json(tcx, inst.args),
                    "self_ty": self_ty,
                    "id": J::s(inst_id(tcx, inst)),
                    "trait": J::opt_s(d.and_then(|d| tcx.trait_of_assoc(d)).map(|t| path(tcx, t))),
                    "impl_trait": J::opt_s(d.and_then(|d| tcx.impl_of_assoc(d)).and_then(|i| {
                        if tcx.impl_is_of_trait(i) { Some(path(tcx, tcx.impl_trait_id(i))) } else { None }
                    })),
                };
            }
        }
        let arg_defs: Vec<J> = args
            .iter()
            .filter_map(|a| a.as_type())
            .map(|t| match t.kind() {
                ty::Adt(d, _) => J::s(path(tcx, d.did())),
                _ => J::Null,
            })
            .collect();
        obj! {
            "def": J::s(path(tcx, def_id)),
            "name": J::s(name),
            "trait": J::opt_s(trait_of),
            "args": args_json(tcx, args),
            "arg_defs": J::Arr(arg_defs),
            "local": J::Bool(def_id.is_local()),
            "res": res,
        }
    }

    fn rvalue(&mut self, body: &Body<'tcx>, rv: &Rvalue<'tcx>) -> J {
        let tcx = self.tcx;
        match rv {
            Rvalue::Use(o, _) => obj! {"r": J::s("use"), "a": self.operand(body, o)},
            Rvalue::Repeat(o, n) => {
                obj! {"r": J::s("repeat"), "a": self.operand(body, o), "n": n.try_to_target_usize(tcx).map(|x| J::Int(x as i128)).unwrap_or(J::Null)}
            }
            Rvalue::Ref(_, bk, p) => {
                let m = matches!(bk, BorrowKind::Mut { .. });
                obj! {"r": J::s("ref"), "mut": J::Bool(m), "pl": self.place(body, p)}
            }
            Rvalue::ThreadLocalRef(d) => obj! {"r": J::s("tls"), "def": J::s(path(tcx, *d))},
            Rvalue::RawPtr(k, p) => {
                obj! {"r": J::s("rawptr"), "kind": J::s(format!("{:?}", k)), "pl": self.place(body, p)}
            }
            Rvalue::Cast(k, o, t) => {
                let ks = format!("{:?}", k);
                let from = o.ty(&body.local_decls, tcx);
                obj! {"r": J::s("cast"), "kind": J::s(ks), "a": self.operand(body, o), "from": J::s(from.to_string()), "to": J::s(t.to_string())}
            }
            Rvalue::BinaryOp(op, ab) => {
                let (a, b) = &**ab;
                let lty = a.ty(&body.local_decls, tcx);
                obj! {"r": J::s("bin"), "op": J::s(format!("{:?}", op)), "a": self.operand(body, a), "b": self.operand(body, b), "ty": J::s(lty.to_string())}
            }
            Rvalue::UnaryOp(op, a) => {
                let lty = a.ty(&body.local_decls, tcx);
                obj! {"r": J::s("un"), "op": J::s(format!("{:?}", op)), "a": self.operand(body, a), "ty": J::s(lty.to_string())}
            }
            Rvalue::Discriminant(p) => obj! {"r": J::s("discr"), "pl": self.place(body, p)},
            Rvalue::Aggregate(kind, ops) => {
                let opsj: Vec<J> = ops.iter().map(|o| self.operand(body, o)).collect();
                match &**kind {
                    AggregateKind::Array(t) => obj! {"r": J::s("agg"), "kind": J::s("array"), "ty": J::s(t.to_string()), "ops": J::Arr(opsj)},
                    AggregateKind::Tuple => obj! {"r": J::s("agg"), "kind": J::s("tuple"), "ops": J::Arr(opsj)},
                    AggregateKind::Adt(def, vi, args, _, _) => {
                        let adt = tcx.adt_def(*def);
                        let v = adt.variant(*vi);
                        let names: Vec<J> = v.fields.iter().map(|f| J::s(f.name.to_string())).collect();
                        obj! {"r": J::s("agg"), "kind": J::s("adt"), "def": J::s(path(tcx, *def)),
                        "variant": J::s(v.name.to_string()), "vi": J::Int(vi.index() as i128),
                        "is_enum": J::Bool(adt.is_enum()),
                        "args": args_json(tcx, args), "fields": J::Arr(names), "ops": J::Arr(opsj)}
                    }
                    AggregateKind::Closure(def, args) => {
                        if self.mono {
                            let inst = Instance::new_raw(*def, args);
                            if def.is_local() {
                                self.found.push(inst);
                            }
                            obj! {"r": J::s("agg"), "kind": J::s("closure"), "def": J::s(path(tcx, *def)), "id": J::s(inst_id(tcx, inst)), "ops": J::Arr(opsj)}
                        } else {
                            obj! {"r": J::s("agg"), "kind": J::s("closure"), "def": J::s(path(tcx, *def)), "id": J::s(format!("G:{}", path(tcx, *def))), "ops": J::Arr(opsj)}
                        }
                    }
                    AggregateKind::RawPtr(..) => obj! {"r": J::s("agg"), "kind": J::s("rawptr"), "ops": J::Arr(opsj)},
                    _ => obj! {"r": J::s("agg"), "kind": J::s("other"), "ops": J::Arr(opsj)},
                }
            }
            Rvalue::CopyForDeref(p) => obj! {"r": J::s("use"), "a": obj!{"o": J::s("copy"), "pl": self.place(body, p)}},
            Rvalue::WrapUnsafeBinder(o, _) => obj! {"r": J::s("use"), "a": self.operand(body, o)},
        }
    }

    fn body_json(&mut self, body: &Body<'tcx>, id: String, def_id: DefId, generic: bool) -> J {
        let tcx = self.tcx;
        let mut locals = Vec::new();
        let mut names: Vec<Option<String>> = vec![None; body.local_decls.len()];
        for vdi in &body.var_debug_info {
            if let VarDebugInfoContents::Place(p) = vdi.value {
                if p.projection.is_empty() {
                    names[p.local.index()] = Some(vdi.name.to_string());
                }
            }
        }
        for (l, d) in body.local_decls.iter_enumerated() {
            locals.push(obj! {
                "ty": J::s(d.ty.to_string()),
                "tyj": ty_json(tcx, d.ty),
                "name": J::opt_s(names[l.index()].clone()),
            });
        }
        // upvar debug info: names of captured variables (closure bodies)
        let mut upvars = Vec::new();
        for vdi in &body.var_debug_info {
            if let VarDebugInfoContents::Place(p) = vdi.value {
                if !p.projection.is_empty() {
                    upvars.push(obj! {"name": J::s(vdi.name.to_string()), "pl": self.place(body, &p)});
                }
            }
        }
        let mut blocks = Vec::new();
        for (_bb, data) in body.basic_blocks.iter_enumerated() {
            let mut stmts = Vec::new();
            for st in &data.statements {
                let sp = span_json(tcx, st.source_info.span);
                match &st.kind {
                    StatementKind::Assign(b) => {
                        let (p, rv) = &**b;
                        stmts.push(obj! {"s": J::s("assign"), "pl": self.place(body, p), "rv": self.rvalue(body, rv), "sp": sp});
                    }
                    StatementKind::SetDiscriminant { place, variant_index } => {
                        stmts.push(obj! {"s": J::s("setdiscr"), "pl": self.place(body, place), "vi": J::Int(variant_index.index() as i128), "sp": sp});
                    }
                    StatementKind::StorageDead(l) => {
                        stmts.push(obj! {"s": J::s("dead"), "l": J::Int(l.index() as i128)});
                    }
                    StatementKind::Intrinsic(i) => {
                        stmts.push(obj! {"s": J::s("intrinsic"), "v": J::s(format!("{:?}", i)), "sp": sp});
                    }
                    _ => {}
                }
            }
            let term = data.terminator();
            let sp = span_json(tcx, term.source_info.span);
            let tj = match &term.kind {
                TerminatorKind::Goto { target } => obj! {"t": J::s("goto"), "target": J::Int(target.index() as i128)},
                TerminatorKind::SwitchInt { discr, targets } => {
                    let mut tv = Vec::new();
                    for (v, t) in targets.iter() {
                        tv.push(J::Arr(vec![J::Int(v as i128), J::Int(t.index() as i128)]));
                    }
                    let dty = discr.ty(&body.local_decls, tcx);
                    obj! {"t": J::s("switch"), "discr": self.operand(body, discr), "ty": J::s(dty.to_string()), "targets": J::Arr(tv), "otherwise": J::Int(targets.otherwise().index() as i128)}
                }
                TerminatorKind::Return => obj! {"t": J::s("return")},
                TerminatorKind::Unreachable => obj! {"t": J::s("unreachable")},
                TerminatorKind::UnwindResume => obj! {"t": J::s("resume")},
                TerminatorKind::UnwindTerminate(_) => obj! {"t": J::s("terminate")},
                TerminatorKind::Drop { place, target, .. } => {
                    obj! {"t": J::s("drop"), "pl": self.place(body, place), "target": J::Int(target.index() as i128)}
                }
                TerminatorKind::Call { func, args, destination, target, .. } => {
                    let fty = func.ty(&body.local_decls, tcx);
                    let callee = match fty.kind() {
                        ty::FnDef(d, a) => self.callee(*d, a),
                        _ => obj! {"def": J::Null, "indirect": J::s(fty.to_string()), "fn_op": self.operand(body, func)},
                    };
                    let aj: Vec<J> = args.iter().map(|a| self.operand(body, &a.node)).collect();
                    obj! {"t": J::s("call"), "callee": callee, "args": J::Arr(aj), "dest": self.place(body, destination),
                    "target": target.map(|t| J::Int(t.index() as i128)).unwrap_or(J::Null)}
                }
                TerminatorKind::TailCall { func, args, .. } => {
                    let fty = func.ty(&body.local_decls, tcx);
                    let callee = match fty.kind() {
                        ty::FnDef(d, a) => self.callee(*d, a),
                        _ => obj! {"def": J::Null, "indirect": J::s(fty.to_string())},
                    };
                    let aj: Vec<J> = args.iter().map(|a| self.operand(body, &a.node)).collect();
                    obj! {"t": J::s("tailcall"), "callee": callee, "args": J::Arr(aj)}
                }
                TerminatorKind::Assert { cond, expected, msg, target, .. } => {
                    let (kind, ops): (String, Vec<J>) = match &**msg {
                        AssertKind::BoundsCheck { len, index } => ("BoundsCheck".into(), vec![self.operand(body, len), self.operand(body, index)]),
                        AssertKind::Overflow(op, a, b) => (format!("Overflow:{:?}", op), vec![self.operand(body, a), self.operand(body, b)]),
                        AssertKind::OverflowNeg(a) => ("OverflowNeg".into(), vec![self.operand(body, a)]),
                        AssertKind::DivisionByZero(a) => ("DivisionByZero".into(), vec![self.operand(body, a)]),
                        AssertKind::RemainderByZero(a) => ("RemainderByZero".into(), vec![self.operand(body, a)]),
                        AssertKind::MisalignedPointerDereference { .. } => ("Misaligned".into(), vec![]),
                        AssertKind::NullPointerDereference => ("NullPtr".into(), vec![]),
                        AssertKind::InvalidEnumConstruction(_) => ("InvalidEnum".into(), vec![]),
                        _ => ("Other".into(), vec![]),
                    };
                    obj! {"t": J::s("assert"), "cond": self.operand(body, cond), "expected": J::Bool(*expected), "kind": J::s(kind), "ops": J::Arr(ops), "target": J::Int(target.index() as i128)}
                }
                TerminatorKind::FalseEdge { real_target, .. } => obj! {"t": J::s("goto"), "target": J::Int(real_target.index() as i128)},
                TerminatorKind::FalseUnwind { real_target, .. } => obj! {"t": J::s("goto"), "target": J::Int(real_target.index() as i128)},
                _ => obj! {"t": J::s("other"), "s": J::s(format!("{:?}", term.kind))},
            };
            blocks.push(obj! {"stmts": J::Arr(stmts), "term": tj, "sp": sp, "cleanup": J::Bool(data.is_cleanup)});
        }
        let (file, line) = loc(tcx, tcx.def_span(def_id));
        let parent_fn = if tcx.is_closure_like(def_id) { J::s(path(tcx, tcx.typeck_root_def_id(def_id))) } else { J::Null };
        obj! {
            "k": J::s("body"), "id": J::s(id), "def": J::s(path(tcx, def_id)),
            "generic": J::Bool(generic),
            "closure_of": parent_fn,
            "arg_count": J::Int(body.arg_count as i128),
            "locals": J::Arr(locals), "upvars": J::Arr(upvars), "blocks": J::Arr(blocks),
            "file": J::s(file), "line": J::Int(line),
        }
    }
}

pub fn inst_id<'tcx>(tcx: TyCtxt<'tcx>, inst: Instance<'tcx>) -> String {
    let _ = tcx;
    format!("{}", inst)
}

/// Default instantiation of a type parameter, decided from its trait bounds.
fn default_for_param<'tcx>(
    tcx: TyCtxt<'tcx>,
    owner: DefId,
    index: u32,
    reps: &Reps<'tcx>,
) -> Option<Ty<'tcx>> {
    let preds = tcx.predicates_of(owner).instantiate_identity(tcx);
    let mut traits: Vec<String> = Vec::new();
    for p in preds.predicates.iter() {
        let p = p.skip_normalization();
        if let Some(tp) = p.as_trait_clause() {
            let tp = tp.skip_binder();
            if let ty::Param(pt) = tp.self_ty().kind() {
                if pt.index == index {
                    traits.push(path(tcx, tp.def_id()));
                }
            }
        }
    }
    let has = |s: &str| traits.iter().any(|t| t.rsplit("::").next() == Some(s));
    for bad in [
        "Fn", "FnMut", "FnOnce", "Serializer", "Deserializer", "Visitor", "SeqAccess", "MapAccess", "Error",
        "Iterator", "IntoIterator", "Peekable", "Buffered", "Sequence", "AsRef", "AsMut", "IndicatorConfig",
        "IndicatorInstance", "IndicatorConfigDyn", "IndicatorInstanceDyn", "SerializeStruct", "Write",
    ] {
        if has(bad) {
            return None;
        }
    }
    if has("OHLCV") {
        return reps.candle;
    }
    if has("MovingAverageConstructor") {
        return reps.ma;
    }
    if has("Method") {
        return reps.sma;
    }
    if has("MovingAverage") {
        return None;
    }
    Some(tcx.types.f64)
}

pub struct Reps<'tcx> {
    candle: Option<Ty<'tcx>>,
    ma: Option<Ty<'tcx>>,
    sma: Option<Ty<'tcx>>,
}

fn find_reps<'tcx>(tcx: TyCtxt<'tcx>) -> Reps<'tcx> {
    let mut r = Reps { candle: None, ma: None, sma: None };
    for ld in tcx.hir_crate_items(()).definitions() {
        let did = ld.to_def_id();
        if !matches!(tcx.def_kind(did), DefKind::Struct | DefKind::Enum) {
            continue;
        }
        if tcx.generics_of(did).count() != 0 {
            continue;
        }
        let p = path(tcx, did);
        let t = || Some(tcx.type_of(did).instantiate_identity().skip_normalization());
        if p.ends_with("core::candles::Candle") {
            r.candle = t();
        } else if p.ends_with("helpers::methods::MA") {
            r.ma = t();
        } else if p.ends_with("methods::sma::SMA") {
            r.sma = t();
        }
    }
    r
}

fn default_args<'tcx>(tcx: TyCtxt<'tcx>, did: DefId, reps: &Reps<'tcx>) -> Option<GenericArgsRef<'tcx>> {
    let mut ok = true;
    let args = ty::GenericArgs::for_item(tcx, did, |param, _| match param.kind {
        ty::GenericParamDefKind::Lifetime => tcx.lifetimes.re_erased.into(),
        ty::GenericParamDefKind::Type { .. } => {
            // the predicates mentioning this param live on `did` (includes parent's)
            if param.name.as_str() == "Self" {
                ok = false;
                return tcx.types.unit.into();
            }
            match default_for_param(tcx, did, param.index, reps) {
                Some(t) => t.into(),
                None => {
                    ok = false;
                    tcx.types.unit.into()
                }
            }
        }
        ty::GenericParamDefKind::Const { .. } => {
            ok = false;
            tcx.mk_param_from_def(param)
        }
    });
    if ok {
        Some(args)
    } else {
        None
    }
}

/// Bodies generated by serde's derives are not analysed (the rules only need the fact
/// that the impl is derived, which `items` records); hand-written serde impls are kept.
fn in_derived_serde<'tcx>(tcx: TyCtxt<'tcx>, did: DefId) -> bool {
    let mut cur = Some(did);
    while let Some(d) = cur {
        if let DefKind::Impl { of_trait: true } = tcx.def_kind(d) {
            if tcx.is_automatically_derived(d) {
                let tr = tcx.impl_trait_id(d);
                let krate = tcx.crate_name(tr.krate);
                if krate.as_str().starts_with("serde") {
                    return true;
                }
            }
        }
        cur = tcx.opt_parent(d);
    }
    false
}

pub fn dump<'tcx>(tcx: TyCtxt<'tcx>, out: &mut String) {
    let reps = find_reps(tcx);
    let mut keys: Vec<LocalDefId> = tcx.mir_keys(()).iter().copied().collect();
    keys.sort_by_key(|d| tcx.def_path(d.to_def_id()).to_string_no_crate_verbose());
    let mut roots: Vec<Instance<'tcx>> = Vec::new();
    let mut n_generic = 0i128;
    for ld in &keys {
        let did = ld.to_def_id();
        let kind = tcx.def_kind(did);
        if !matches!(kind, DefKind::Fn | DefKind::AssocFn | DefKind::Closure) {
            continue;
        }
        if !tcx.is_mir_available(did) || in_derived_serde(tcx, did) {
            continue;
        }
        let body = tcx.optimized_mir(did);
        let mut cx = Ctx { tcx, env: TypingEnv::post_analysis(tcx, did), mono: false, found: Vec::new() };
        let id = format!("G:{}", path(tcx, did));
        cx.body_json(body, id, did, true).line(out);
        n_generic += 1;
        // promoted constants of this body (`&(0.0..=1.0)` ...): tiny bodies the rules can interpret
        for (pi, pbody) in tcx.promoted_mir(did).iter_enumerated() {
            let pid = format!("P:{}:{}", path(tcx, did), pi.index());
            cx.body_json(pbody, pid, did, true).line(out);
        }
        if matches!(kind, DefKind::Fn | DefKind::AssocFn) {
            if let Some(args) = default_args(tcx, did, &reps) {
                // check that the instantiated predicates hold, else skip
                let inst = Instance::new_raw(did, args);
                let holds = !tcx.instantiate_and_check_impossible_predicates((did, args));
                if holds {
                    roots.push(inst);
                }
            }
        }
    }
    // bodies of crate-local const items of aggregate type (e.g. `Action::BUY_ALL`)
    for ld in tcx.hir_crate_items(()).definitions() {
        let did = ld.to_def_id();
        if !matches!(tcx.def_kind(did), DefKind::Const { .. } | DefKind::AssocConst { .. }) {
            continue;
        }
        if tcx.hir_maybe_body_owned_by(ld).is_none() || in_derived_serde(tcx, did) {
            continue;
        }
        let ty = tcx.type_of(did).instantiate_identity().skip_normalization();
        if !matches!(ty.kind(), ty::Adt(..)) {
            continue;
        }
        if tcx.generics_of(did).requires_monomorphization(tcx) {
            continue;
        }
        let body = tcx.mir_for_ctfe(did);
        let mut cx = Ctx { tcx, env: TypingEnv::post_analysis(tcx, did), mono: false, found: Vec::new() };
        cx.body_json(body, format!("C:{}", path(tcx, did)), did, true).line(out);
    }
    // monomorphic closure
    let mut seen: FxHashSet<Instance<'tcx>> = FxHashSet::default();
    let mut work = roots.clone();
    let mut n_mono = 0i128;
    let mut root_ids = Vec::new();
    for r in &roots {
        root_ids.push(J::s(inst_id(tcx, *r)));
    }
    while let Some(inst) = work.pop() {
        if !seen.insert(inst) {
            continue;
        }
        let did = inst.def_id();
        if !did.is_local() || !tcx.is_mir_available(did) || in_derived_serde(tcx, did) {
            continue;
        }
        let body = tcx.instance_mir(inst.def);
        let env = TypingEnv::fully_monomorphized();
        let Ok(body) = inst.try_instantiate_mir_and_normalize_erasing_regions(tcx, env, ty::EarlyBinder::bind(body.clone())) else {
            obj! {"k": J::s("mono_fail"), "id": J::s(inst_id(tcx, inst))}.line(out);
            continue;
        };
        let mut cx = Ctx { tcx, env, mono: true, found: Vec::new() };
        let id = inst_id(tcx, inst);
        cx.body_json(&body, id, did, false).line(out);
        n_mono += 1;
        work.extend(cx.found);
    }
    let feats: Vec<J> = tcx
        .sess
        .config
        .iter()
        .filter(|(k, _)| k.as_str() == "feature")
        .filter_map(|(_, v)| v.map(|s| J::s(s.to_string())))
        .collect();
    obj! {"k": J::s("meta"), "crate": J::s(tcx.crate_name(rustc_hir::def_id::LOCAL_CRATE).to_string()),
    "generic_bodies": J::Int(n_generic), "mono_bodies": J::Int(n_mono), "roots": J::Arr(root_ids),
    "features": J::Arr(feats),
    "debug_assertions": J::Bool(tcx.sess.opts.debug_assertions)}
    .line(out);
}
