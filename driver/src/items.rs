//! Item-level facts: ADTs (fields, variants, attributes), traits, impls, functions, consts.

use crate::json::J;
use crate::obj;
use rustc_hir::def::DefKind;
use rustc_hir::def_id::{DefId, LocalDefId};
use rustc_hir::Attribute;
use rustc_middle::ty::{self, TyCtxt};
use rustc_span::Span;

pub fn loc(tcx: TyCtxt<'_>, span: Span) -> (String, i128) {
    let sm = tcx.sess.source_map();
    let sp = span.source_callsite();
    let p = sm.lookup_char_pos(sp.lo());
    let name = format!("{}", p.file.name.prefer_local_unconditionally());
    (name, p.line as i128)
}

pub fn path(tcx: TyCtxt<'_>, did: DefId) -> String {
    tcx.def_path_str(did)
}

pub fn vis_str(tcx: TyCtxt<'_>, did: DefId) -> String {
    match tcx.def_kind(did) {
        DefKind::AnonConst | DefKind::InlineConst | DefKind::Closure | DefKind::Impl { .. } => {
            return "n/a".into()
        }
        _ => {}
    }
    match tcx.visibility(did) {
        ty::Visibility::Public => "pub".into(),
        ty::Visibility::Restricted(m) => {
            if m.is_crate_root() {
                "crate".into()
            } else {
                format!("in:{}", tcx.def_path_str(m))
            }
        }
    }
}

pub fn attrs(tcx: TyCtxt<'_>, did: DefId) -> (Vec<J>, String) {
    let mut out = Vec::new();
    let mut doc = String::new();
    #[allow(deprecated)]
    for a in tcx.get_all_attrs(did) {
        if let Some(d) = a.doc_str() {
            doc.push_str(d.as_str());
            doc.push('\n');
            continue;
        }
        match a {
            Attribute::Unparsed(item) => {
                let p: Vec<String> = item.path.segments.iter().map(|s| s.to_string()).collect();
                let snippet = tcx.sess.source_map().span_to_snippet(item.span).unwrap_or_default();
                out.push(obj! {"path": J::s(p.join("::")), "text": J::s(snippet)});
            }
            Attribute::Parsed(k) => {
                let s = format!("{:?}", k);
                let name = s.split(|c: char| !c.is_alphanumeric() && c != '_').next().unwrap_or("").to_string();
                out.push(obj! {"path": J::s(format!("parsed::{}", name)), "text": J::s(if s.len() > 300 { s[..300].to_string() } else { s })});
            }
        }
    }
    (out, doc)
}

fn generics_json<'tcx>(tcx: TyCtxt<'tcx>, did: DefId) -> J {
    let g = tcx.generics_of(did);
    let mut v = Vec::new();
    let mut cur = Some(g);
    let mut all = Vec::new();
    while let Some(gg) = cur {
        all.push(gg);
        cur = gg.parent.map(|p| tcx.generics_of(p));
    }
    all.reverse();
    for gg in all {
        for p in &gg.own_params {
            let kind = match p.kind {
                ty::GenericParamDefKind::Lifetime => "lifetime",
                ty::GenericParamDefKind::Type { .. } => "type",
                ty::GenericParamDefKind::Const { .. } => "const",
            };
            v.push(obj! {"name": J::s(p.name.to_string()), "kind": J::s(kind), "index": J::Int(p.index as i128)});
        }
    }
    J::Arr(v)
}

pub fn predicates_json<'tcx>(tcx: TyCtxt<'tcx>, did: DefId) -> J {
    let preds = tcx.predicates_of(did).instantiate_identity(tcx);
    let mut v = Vec::new();
    for (p, _) in preds.predicates.iter().zip(preds.spans.iter()) {
        v.push(J::s(format!("{}", p.skip_normalization())));
    }
    J::Arr(v)
}

fn const_value<'tcx>(tcx: TyCtxt<'tcx>, did: DefId) -> J {
    // only for non-generic consts / assoc consts of concrete impls
    let g = tcx.generics_of(did);
    if g.count() != 0 && tcx.generics_of(did).requires_monomorphization(tcx) {
        return J::Null;
    }
    let ty = tcx.type_of(did).instantiate_identity().skip_normalization();
    let Ok(val) = tcx.const_eval_poly(did) else { return J::Null };
    crate::mir_dump::const_value_json(tcx, val, ty)
}

pub fn dump<'tcx>(tcx: TyCtxt<'tcx>, out: &mut String) {
    let items = tcx.hir_crate_items(());
    let mut defs: Vec<LocalDefId> = items.definitions().collect();
    defs.sort_by_key(|d| tcx.def_path(d.to_def_id()).to_string_no_crate_verbose());
    for ld in defs {
        let did = ld.to_def_id();
        let kind = tcx.def_kind(did);
        let (file, line) = loc(tcx, tcx.def_span(did));
        match kind {
            DefKind::Struct | DefKind::Enum | DefKind::Union => {
                let adt = tcx.adt_def(did);
                let (at, doc) = attrs(tcx, did);
                let mut variants = Vec::new();
                for v in adt.variants() {
                    let mut fields = Vec::new();
                    for f in &v.fields {
                        let fty = tcx.type_of(f.did).instantiate_identity().skip_normalization();
                        let (fat, fdoc) = attrs(tcx, f.did);
                        fields.push(obj! {
                            "name": J::s(f.name.to_string()),
                            "ty": J::s(fty.to_string()),
                            "tyj": crate::mir_dump::ty_json(tcx, fty),
                            "vis": J::s(vis_str(tcx, f.did)),
                            "attrs": J::Arr(fat),
                            "doc": J::s(fdoc),
                        });
                    }
                    let (vat, _) = attrs(tcx, v.def_id);
                    variants.push(obj! {
                        "name": J::s(v.name.to_string()),
                        "fields": J::Arr(fields),
                        "attrs": J::Arr(vat),
                        "ctor_kind": J::s(format!("{:?}", v.ctor_kind())),
                    });
                }
                obj! {
                    "k": J::s("adt"), "path": J::s(path(tcx, did)),
                    "adt_kind": J::s(format!("{:?}", kind)),
                    "vis": J::s(vis_str(tcx, did)),
                    "generics": generics_json(tcx, did),
                    "preds": predicates_json(tcx, did),
                    "variants": J::Arr(variants),
                    "attrs": J::Arr(at), "doc": J::s(doc),
                    "file": J::s(file), "line": J::Int(line),
                    "ident_line": J::Int(tcx.def_ident_span(did).map(|s| loc(tcx, s).1).unwrap_or(line)),
                }
                .line(out);
            }
            DefKind::Trait => {
                let mut its = Vec::new();
                for it in tcx.associated_items(did).in_definition_order() {
                    its.push(obj! {
                        "name": J::s(it.name().to_string()),
                        "kind": J::s(format!("{:?}", it.kind).split(|c: char| !c.is_alphanumeric()).next().unwrap_or("").to_string()),
                        "has_default": J::Bool(it.defaultness(tcx).has_value()),
                        "path": J::s(path(tcx, it.def_id)),
                    });
                }
                obj! {
                    "k": J::s("trait"), "path": J::s(path(tcx, did)),
                    "vis": J::s(vis_str(tcx, did)),
                    "items": J::Arr(its),
                    "preds": predicates_json(tcx, did),
                    "file": J::s(file), "line": J::Int(line),
                }
                .line(out);
            }
            DefKind::Impl { of_trait } => {
                let self_ty = tcx.type_of(did).instantiate_identity().skip_normalization();
                let (tr, tr_args, tr_crate, tr_name) = if of_trait {
                    let tr = tcx.impl_trait_ref(did).instantiate_identity().skip_normalization();
                    (
                        J::s(path(tcx, tr.def_id)),
                        J::s(tr.to_string()),
                        J::s(tcx.crate_name(tr.def_id.krate).to_string()),
                        J::s(tcx.item_name(tr.def_id).to_string()),
                    )
                } else {
                    (J::Null, J::Null, J::Null, J::Null)
                };
                let mut its = Vec::new();
                for it in tcx.associated_items(did).in_definition_order() {
                    let aty = if it.is_type() {
                        J::s(tcx.type_of(it.def_id).instantiate_identity().skip_normalization().to_string())
                    } else {
                        J::Null
                    };
                    its.push(obj! {
                        "name": J::s(it.name().to_string()),
                        "kind": J::s(format!("{:?}", it.kind).split(|c: char| !c.is_alphanumeric()).next().unwrap_or("").to_string()),
                        "path": J::s(path(tcx, it.def_id)),
                        "trait_item": J::opt_s(it.trait_item_def_id().map(|d| path(tcx, d))),
                        "ty": aty,
                    });
                }
                let (at, _) = attrs(tcx, did);
                obj! {
                    "k": J::s("impl"), "path": J::s(path(tcx, did)),
                    "trait": tr, "trait_ref": tr_args, "trait_crate": tr_crate, "trait_name": tr_name,
                    "self_ty": J::s(self_ty.to_string()),
                    "self_tyj": crate::mir_dump::ty_json(tcx, self_ty),
                    "derived": J::Bool(tcx.is_automatically_derived(did)),
                    "generics": generics_json(tcx, did),
                    "preds": predicates_json(tcx, did),
                    "items": J::Arr(its),
                    "attrs": J::Arr(at),
                    "file": J::s(file), "line": J::Int(line),
                }
                .line(out);
            }
            DefKind::Fn | DefKind::AssocFn => {
                let sig = tcx.fn_sig(did).instantiate_identity().skip_normalization();
                let (at, doc) = attrs(tcx, did);
                let parent = tcx.parent(did);
                let in_impl = matches!(tcx.def_kind(parent), DefKind::Impl { .. });
                let in_trait = matches!(tcx.def_kind(parent), DefKind::Trait);
                obj! {
                    "k": J::s("fn"), "path": J::s(path(tcx, did)),
                    "name": J::s(tcx.item_name(did).to_string()),
                    "vis": J::s(vis_str(tcx, did)),
                    "sig": J::s(sig.to_string()),
                    "parent": J::s(path(tcx, parent)),
                    "parent_kind": J::s(if in_impl { "impl" } else if in_trait { "trait" } else { "mod" }),
                    "generics": generics_json(tcx, did),
                    "has_body": J::Bool(tcx.hir_maybe_body_owned_by(ld).is_some()),
                    "attrs": J::Arr(at), "doc": J::s(doc),
                    "file": J::s(file), "line": J::Int(line),
                }
                .line(out);
            }
            DefKind::Const { .. } | DefKind::AssocConst { .. } => {
                let ty = tcx.type_of(did).instantiate_identity().skip_normalization();
                let parent = tcx.parent(did);
                let has_value = match kind {
                    DefKind::AssocConst { .. } => tcx.associated_item(did).defaultness(tcx).has_value(),
                    _ => true,
                };
                obj! {
                    "k": J::s("const"), "path": J::s(path(tcx, did)),
                    "name": J::s(tcx.item_name(did).to_string()),
                    "ty": J::s(ty.to_string()),
                    "parent": J::s(path(tcx, parent)),
                    "vis": J::s(vis_str(tcx, did)),
                    "value": if has_value { const_value(tcx, did) } else { J::Null },
                    "file": J::s(file), "line": J::Int(line),
                }
                .line(out);
            }
            DefKind::Static { .. } => {
                let ty = tcx.type_of(did).instantiate_identity().skip_normalization();
                obj! {
                    "k": J::s("static"), "path": J::s(path(tcx, did)),
                    "ty": J::s(ty.to_string()),
                    "mutable": J::Bool(tcx.is_mutable_static(did)),
                    "file": J::s(file), "line": J::Int(line),
                }
                .line(out);
            }
            DefKind::TyAlias => {
                let ty = tcx.type_of(did).instantiate_identity().skip_normalization();
                obj! {
                    "k": J::s("alias"), "path": J::s(path(tcx, did)),
                    "name": J::s(tcx.item_name(did).to_string()),
                    "vis": J::s(vis_str(tcx, did)),
                    "ty": J::s(ty.to_string()),
                    "file": J::s(file), "line": J::Int(line),
                }
                .line(out);
            }
            _ => {}
        }
    }
}
