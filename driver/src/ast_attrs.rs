//! `#[serde(..)]` helper attributes are not kept in HIR; they are collected from the expanded
//! AST (after `cfg_attr` expansion) and matched to ADTs by (file, line of the identifier, name).

use crate::json::J;
use crate::obj;
use rustc_ast as ast;
use rustc_ast::visit::{self, Visitor};
use rustc_middle::ty::TyCtxt;

struct V<'a, 'tcx> {
    tcx: TyCtxt<'tcx>,
    out: &'a mut Vec<J>,
}

fn tool_attrs(attrs: &[ast::Attribute]) -> J {
    let mut v = Vec::new();
    for a in attrs {
        if a.is_doc_comment() {
            continue;
        }
        let s = rustc_ast_pretty::pprust::attribute_to_string(a);
        if s.contains("serde") {
            v.push(J::s(s));
        }
    }
    J::Arr(v)
}

fn fields_json(vd: &ast::VariantData) -> J {
    let mut v = Vec::new();
    for (i, f) in vd.fields().iter().enumerate() {
        let name = f.ident.map(|x| x.name.to_string()).unwrap_or_else(|| format!("{}", i));
        v.push(obj! {"name": J::s(name), "attrs": tool_attrs(&f.attrs)});
    }
    J::Arr(v)
}

impl<'a, 'tcx, 'ast> Visitor<'ast> for V<'a, 'tcx> {
    fn visit_item(&mut self, item: &'ast ast::Item) {
        let (ident, variants): (Option<rustc_span::Ident>, Option<J>) = match &item.kind {
            ast::ItemKind::Struct(id, _, vd) | ast::ItemKind::Union(id, _, vd) => {
                (Some(*id), Some(J::Arr(vec![obj! {"name": J::s(id.name.to_string()), "attrs": J::Arr(vec![]), "fields": fields_json(vd)}])))
            }
            ast::ItemKind::Enum(id, _, ed) => {
                let mut vs = Vec::new();
                for v in &ed.variants {
                    vs.push(obj! {"name": J::s(v.ident.name.to_string()), "attrs": tool_attrs(&v.attrs), "fields": fields_json(&v.data)});
                }
                (Some(*id), Some(J::Arr(vs)))
            }
            _ => (None, None),
        };
        if let (Some(id), Some(vs)) = (ident, variants) {
            let (file, line) = crate::items::loc(self.tcx, id.span);
            self.out.push(obj! {
                "k": J::s("ast_adt"), "name": J::s(id.name.to_string()),
                "file": J::s(file), "line": J::Int(line),
                "attrs": tool_attrs(&item.attrs), "variants": vs,
            });
        }
        visit::walk_item(self, item);
    }
}

pub fn collect<'tcx>(tcx: TyCtxt<'tcx>, out: &mut Vec<J>) {
    let r = tcx.resolver_for_lowering().borrow();
    let krate = &r.1;
    let mut v = V { tcx, out };
    visit::walk_crate(&mut v, krate);
}
