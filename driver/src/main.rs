//! yata-facts: a rustc_private driver that serialises the type-checked program
//! (items, impls, HIR expression trees, MIR of generic bodies and of the monomorphic
//! instances reachable from the crate's own default instantiations) as JSON lines.
//! It takes no decision itself: every rule lives in /verif/rules (python).
//!
//! Used as RUSTC_WORKSPACE_WRAPPER: argv[1] is the real rustc path and is dropped.
//! Env: YATA_FACTS_OUT = output file (one write per process);
//!      YATA_FACTS_CRATE = crate name to dump (default "yata").
#![feature(rustc_private)]
#![allow(clippy::all)]

extern crate rustc_abi;
extern crate rustc_ast;
extern crate rustc_ast_pretty;
extern crate rustc_data_structures;
extern crate rustc_driver;
extern crate rustc_hir;
extern crate rustc_interface;
extern crate rustc_middle;
extern crate rustc_session;
extern crate rustc_span;

mod ast_attrs;
mod hir_dump;
mod items;
mod json;
mod mir_dump;

use rustc_driver::Compilation;
use rustc_hir::def_id::LOCAL_CRATE;
use rustc_interface::interface::Compiler;
use rustc_middle::ty::TyCtxt;

struct Cb {
    out: Option<String>,
    krate: String,
    ast: Vec<json::J>,
}

impl rustc_driver::Callbacks for Cb {
    fn after_expansion<'tcx>(&mut self, _c: &Compiler, tcx: TyCtxt<'tcx>) -> Compilation {
        let name = tcx.crate_name(LOCAL_CRATE).to_string();
        if self.out.is_some() && name == self.krate {
            ast_attrs::collect(tcx, &mut self.ast);
        }
        Compilation::Continue
    }
    fn after_analysis<'tcx>(&mut self, _c: &Compiler, tcx: TyCtxt<'tcx>) -> Compilation {
        let name = tcx.crate_name(LOCAL_CRATE).to_string();
        if let Some(out) = &self.out {
            if name == self.krate {
                let mut buf = String::with_capacity(64 << 20);
                for a in &self.ast {
                    a.line(&mut buf);
                }
                rustc_middle::ty::print::with_no_trimmed_paths!({
                    items::dump(tcx, &mut buf);
                    hir_dump::dump(tcx, &mut buf);
                    mir_dump::dump(tcx, &mut buf);
                });
                buf.push_str("{\"k\":\"end\"}\n");
                std::fs::write(out, buf).expect("write facts");
            }
        }
        Compilation::Continue
    }
}

fn main() {
    let mut args: Vec<String> = std::env::args().collect();
    // RUSTC_WORKSPACE_WRAPPER convention: argv[1] is the path of the real rustc.
    if args.len() > 1 && (args[1].ends_with("rustc") || args[1].contains("/rustc")) {
        args.remove(1);
    }
    let mut cb = Cb {
        out: std::env::var("YATA_FACTS_OUT").ok(),
        krate: std::env::var("YATA_FACTS_CRATE").unwrap_or_else(|_| "yata".to_string()),
        ast: Vec::new(),
    };
    rustc_driver::run_compiler(&args, &mut cb);
}
